"""Reference model of the XSD built-in atomic datatypes as XPath 2.0/3.1 uses them.

Transcribed from XML Schema Part 2 (1.0 second edition and 1.1), XML 1.0 (Name productions)
and XPath F&O 3.1 sections 19 (casting) - shares no code with the library under test.

  parse(T, s, xsd)            -> ('valid', value) | ('invalid', None) | ('undecided', reason)
  canonical(T, value, xsd)    -> string (F&O "cast to xs:string") or None when not decided
  cast(S, value, T, xsd)      -> ('N',) | ('ok', value) | ('err', code) | ('undecided', reason)
  gen_valid(T, r, xsd)        -> a valid lexical form (string) drawn with the seeded rng r

Model values: bool | int | Fraction (decimal) | float (double; float = value rounded to binary32) |
str | bytes | ('dur', months, Fraction seconds) | ('dt', year, month, day, hour, minute, Fraction sec, tz-minutes)
"""
import base64
import math
import re
import struct
from fractions import Fraction

# ---------------------------------------------------------------------------- type tables
INT_BOUNDS = {
    'integer': (None, None), 'nonPositiveInteger': (None, 0), 'negativeInteger': (None, -1),
    'long': (-2 ** 63, 2 ** 63 - 1), 'int': (-2 ** 31, 2 ** 31 - 1), 'short': (-2 ** 15, 2 ** 15 - 1),
    'byte': (-128, 127), 'nonNegativeInteger': (0, None), 'positiveInteger': (1, None),
    'unsignedLong': (0, 2 ** 64 - 1), 'unsignedInt': (0, 2 ** 32 - 1), 'unsignedShort': (0, 65535),
    'unsignedByte': (0, 255),
}
INT_TYPES = list(INT_BOUNDS)
STR_TYPES = ['string', 'normalizedString', 'token', 'language', 'NMTOKEN', 'Name', 'NCName', 'ID', 'IDREF', 'ENTITY']
DT_TYPES = ['dateTime', 'dateTimeStamp', 'date', 'time', 'gYearMonth', 'gYear', 'gMonthDay', 'gDay', 'gMonth']
DUR_TYPES = ['duration', 'yearMonthDuration', 'dayTimeDuration']
ALL_TYPES = (['untypedAtomic', 'boolean', 'decimal', 'double', 'float'] + INT_TYPES + STR_TYPES + DT_TYPES
             + DUR_TYPES + ['hexBinary', 'base64Binary', 'anyURI'])

# primitive (casting-table) column of every type
PRIM = {'untypedAtomic': 'uA', 'boolean': 'bool', 'decimal': 'dec', 'double': 'dbl', 'float': 'flt',
        'hexBinary': 'hxB', 'base64Binary': 'b64', 'anyURI': 'aURI', 'duration': 'dur',
        'yearMonthDuration': 'yMD', 'dayTimeDuration': 'dTD', 'dateTime': 'dT', 'dateTimeStamp': 'dT',
        'date': 'dat', 'time': 'tim', 'gYearMonth': 'gYM', 'gYear': 'gYr', 'gMonthDay': 'gMD', 'gDay': 'gD',
        'gMonth': 'gM'}
for _t in INT_TYPES:
    PRIM[_t] = 'int'
for _t in STR_TYPES:
    PRIM[_t] = 'str'

FAMILY = {'untypedAtomic': 'untypedAtomic', 'boolean': 'boolean', 'decimal': 'decimal', 'double': 'double-float',
          'float': 'double-float', 'hexBinary': 'hexBinary', 'base64Binary': 'base64Binary', 'anyURI': 'anyURI',
          'string': 'string', 'normalizedString': 'normalizedString', 'token': 'token', 'language': 'language',
          'NMTOKEN': 'name-family', 'Name': 'name-family', 'NCName': 'name-family', 'ID': 'name-family',
          'IDREF': 'name-family', 'ENTITY': 'name-family', 'duration': 'duration-family',
          'yearMonthDuration': 'duration-family', 'dayTimeDuration': 'duration-family'}
for _t in INT_TYPES:
    FAMILY[_t] = 'integer-family'
for _t in DT_TYPES:
    FAMILY[_t] = 'datetime-family'


def whitespace(T):
    if T in ('string', 'untypedAtomic'):
        return 'preserve'
    if T == 'normalizedString':
        return 'replace'
    return 'collapse'


def normalise(s, mode):
    """XSD whiteSpace facet: only #x9 #xA #xD #x20 are white space."""
    if mode == 'preserve':
        return s
    s = s.replace('\t', ' ').replace('\n', ' ').replace('\r', ' ')
    if mode == 'replace':
        return s
    out = []
    prev_sp = True
    for ch in s:
        if ch == ' ':
            if not prev_sp:
                out.append(ch)
            prev_sp = True
        else:
            out.append(ch)
            prev_sp = False
    if out and out[-1] == ' ':
        out.pop()
    return ''.join(out)


VALID, INVALID, UNDECIDED = 'valid', 'invalid', 'undecided'
_BAD = (INVALID, 'pattern')


def f32(x):
    """round a double to the nearest binary32 value (as a Python float); overflow -> +-inf"""
    if x != x or x in (math.inf, -math.inf):
        return x
    try:
        return struct.unpack('<f', struct.pack('<f', x))[0]
    except OverflowError:
        return math.inf if x > 0 else -math.inf


# ---------------------------------------------------------------------------- numeric recognisers
_RE_INT = re.compile(r'[+-]?[0-9]+')
_RE_DEC = re.compile(r'[+-]?(?:[0-9]+(?:\.[0-9]*)?|\.[0-9]+)')
_RE_DBL = re.compile(r'[+-]?(?:[0-9]+(?:\.[0-9]*)?|\.[0-9]+)(?:[Ee][+-]?[0-9]+)?')


def _dec_fraction(s):
    sign = -1 if s[0] == '-' else 1
    if s[0] in '+-':
        s = s[1:]
    ip, _, fp = s.partition('.')
    num = int(ip or '0') * 10 ** len(fp) + int(fp or '0')
    return Fraction(sign * num, 10 ** len(fp))


def _p_integer(T, s, xsd):
    if not _RE_INT.fullmatch(s):
        return _BAD
    v = int(s)  # ASCII digits only by the regex
    lo, hi = INT_BOUNDS[T]
    if (lo is not None and v < lo) or (hi is not None and v > hi):
        return (INVALID, 'bounds')
    return (VALID, v)


def _p_decimal(T, s, xsd):
    if not _RE_DEC.fullmatch(s):
        return _BAD
    return (VALID, _dec_fraction(s))


def _p_double(T, s, xsd):
    if s == '+INF' and xsd != '1.1':
        return (INVALID, 'plus-INF-xsd10')
    if s in ('INF', '-INF', 'NaN', '+INF'):
        v = {'INF': math.inf, '+INF': math.inf, '-INF': -math.inf, 'NaN': math.nan}[s]
        return (VALID, v)
    if not _RE_DBL.fullmatch(s):
        return _BAD
    m = re.fullmatch(r'([+-]?)([0-9]*)\.?([0-9]*)(?:[Ee]([+-]?[0-9]+))?', s)
    exp = int(m.group(4) or '0')
    if abs(exp) > 5000 or len(s) > 400:
        return (UNDECIDED, 'huge-exponent')
    v = float(s)      # CPython: correctly rounded decimal -> binary64 (trusted stdlib oracle)
    if T == 'float':
        # avoid double rounding: decide by exact rational comparison near binary32 ties
        v = _nearest_f32(m)
    return (VALID, v)


def _nearest_f32(m):
    sign = -1.0 if m.group(1) == '-' else 1.0
    digits = (m.group(2) or '') + (m.group(3) or '')
    exp = int(m.group(4) or '0') - len(m.group(3) or '')
    n = int(digits or '0')
    if n == 0:
        return math.copysign(0.0, sign)
    return math.copysign(nearest_f32_fraction(Fraction(n) * (Fraction(10) ** exp)), sign)


def nearest_f32_fraction(exact):
    """nearest binary32 (ties to even) of a positive rational, as a Python float"""
    big = Fraction(2) ** 128 - Fraction(2) ** 103     # >= this rounds to INF
    if exact >= big:
        return math.inf
    if exact <= Fraction(1, 2 ** 150):                 # <= half the smallest subnormal
        return 0.0
    d = float(exact)
    c = f32(d)
    if c == math.inf:
        return 3.4028234663852886e38
    best = c
    for cand in (_f32_next(c, -1), _f32_next(c, 1)):
        if cand == math.inf:
            continue
        da, db = abs(Fraction(cand) - exact), abs(Fraction(best) - exact)
        if da < db or (da == db and _f32_even(cand) and not _f32_even(best)):
            best = cand
    return best


def _f32_bits(x):
    return struct.unpack('<I', struct.pack('<f', x))[0]


def _f32_even(x):
    return _f32_bits(x) & 1 == 0


def _f32_next(x, direction):
    b = _f32_bits(x)
    if x == 0:
        return struct.unpack('<f', struct.pack('<I', 1))[0] if direction > 0 else 0.0
    b2 = b + direction
    if b2 < 0:
        return 0.0
    if (b2 & 0x7f800000) == 0x7f800000:
        return math.inf
    return struct.unpack('<f', struct.pack('<I', b2))[0]


def _p_boolean(T, s, xsd):
    if s in ('true', '1'):
        return (VALID, True)
    if s in ('false', '0'):
        return (VALID, False)
    return _BAD


# ---------------------------------------------------------------------------- string recognisers
_ASCII_LETTERS = 'ABCDEFGHIJKLMNOPQRSTUVWXYZabcdefghijklmnopqrstuvwxyz'
SAFE_LETTERS = 'éΩ中'            # Letter in XML 1.0 4th ed. and NameStartChar in 5th ed.
SAFE_NAMECHARS = '·̀'                # Extender / CombiningChar (4th), NameChar but not start (5th)
SAFE_NONNAME = '\u0085\u2003\u3000\u2028×÷ªµº  '   # name characters in neither edition
_START = set(_ASCII_LETTERS + '_' + SAFE_LETTERS)
_CHAR = _START | set('0123456789.-' + SAFE_NAMECHARS)


def _name_status(s, colon_start, colon_char, need_start):
    """-> VALID / INVALID / UNDECIDED for the XML Name-like productions over the decided alphabet"""
    if s == '':
        return INVALID
    undecided = False
    for i, ch in enumerate(s):
        if ch == ':':
            ok = colon_start if (i == 0 and need_start) else colon_char
            if not ok:
                return INVALID
        elif ord(ch) < 128 or ch in SAFE_NONNAME or ch in SAFE_LETTERS or ch in SAFE_NAMECHARS:
            allowed = _START if (i == 0 and need_start) else _CHAR
            if ch not in allowed:
                return INVALID
        else:
            undecided = True
    return UNDECIDED if undecided else VALID


_RE_LANG = re.compile(r'[a-zA-Z]{1,8}(?:-[a-zA-Z0-9]{1,8})*')


def _p_string(T, s, xsd):
    if T in ('string', 'normalizedString', 'token'):
        return (VALID, s)
    if T == 'language':
        return (VALID, s) if _RE_LANG.fullmatch(s) else _BAD
    if T == 'NMTOKEN':
        st = _name_status(s, True, True, False)
    elif T == 'Name':
        st = _name_status(s, True, True, True)
    else:
        st = _name_status(s, False, False, True)
    if st == VALID:
        return (VALID, s)
    if st == INVALID:
        return (INVALID, 'name-char')
    return (UNDECIDED, 'name-char-edition-dependent')


# ---------------------------------------------------------------------------- binary
_RE_HEX = re.compile(r'(?:[0-9a-fA-F]{2})*')
_B64 = 'ABCDEFGHIJKLMNOPQRSTUVWXYZabcdefghijklmnopqrstuvwxyz0123456789+/'
_B16 = 'AEIMQUYcgkosw048'
_B04 = 'AQgw'


def _p_hex(T, s, xsd):
    if not _RE_HEX.fullmatch(s):
        return _BAD
    return (VALID, bytes.fromhex(s))


def _p_b64(T, s, xsd):
    # Base64Binary ::= ((B64S B64S B64S B64S)* ((B64S B64S B64S B64) | (B64S B64S B16S '=') |
    #                   (B64S B04S '=' #x20? '=')))?       with  xS ::= x #x20?
    if s == '':
        return (VALID, b'')
    if s[0] == ' ' or s[-1] == ' ' or '  ' in s:
        return _BAD
    chars = s.replace(' ', '')
    if len(chars) % 4 != 0:
        return _BAD
    body = chars.rstrip('=')
    pad = len(chars) - len(body)
    if pad > 2 or any(c not in _B64 for c in body):
        return _BAD
    if pad == 1 and body[-1] not in _B16:
        return _BAD
    if pad == 2 and body[-1] not in _B04:
        return _BAD
    return (VALID, base64.b64decode(chars))


# ---------------------------------------------------------------------------- durations
_RE_DUR = re.compile(r'(-?)P(?:([0-9]+)Y)?(?:([0-9]+)M)?(?:([0-9]+)D)?'
                     r'(T(?:([0-9]+)H)?(?:([0-9]+)M)?(?:([0-9]+(?:\.[0-9]+)?)S)?)?')


def _p_duration(T, s, xsd):
    m = _RE_DUR.fullmatch(s)
    if not m:
        return _BAD
    sign, y, mo, d, tpart, h, mi, sec = m.groups()
    if y is None and mo is None and d is None and h is None and mi is None and sec is None:
        return _BAD
    if tpart is not None and h is None and mi is None and sec is None:
        return _BAD
    if T == 'yearMonthDuration' and (d is not None or tpart is not None):
        return (INVALID, 'restricted-components')       # pattern [^DT]*
    if T == 'dayTimeDuration' and (y is not None or mo is not None):
        return (INVALID, 'restricted-components')       # pattern [^YM]*(T.*)?
    if sec is not None and '.' in sec and len(sec.split('.')[1].rstrip('0')) > 6:
        return (UNDECIDED, 'sub-microsecond')
    months = int(y or 0) * 12 + int(mo or 0)
    seconds = (Fraction(int(d or 0)) * 86400 + int(h or 0) * 3600 + int(mi or 0) * 60
               + (_dec_fraction(sec) if sec else 0))
    if months > 2 ** 31 or seconds > 2 ** 62:
        return (UNDECIDED, 'implementation-limit')
    if sign:
        months, seconds = -months, -seconds
    return (VALID, ('dur', months, Fraction(seconds)))


# ---------------------------------------------------------------------------- date / time
_TZ = r'(Z|[+-](?:(?:0[0-9]|1[0-3]):[0-5][0-9]|14:00))?'
_YEAR = r'(-?(?:[1-9][0-9]{3,}|0[0-9]{3}))'
_TIME = r'([0-9]{2}):([0-9]{2}):([0-9]{2})(?:\.([0-9]+))?'
_RE_DT = {
    'dateTime': re.compile(_YEAR + r'-([0-9]{2})-([0-9]{2})T' + _TIME + _TZ),
    'date': re.compile(_YEAR + r'-([0-9]{2})-([0-9]{2})' + _TZ),
    'time': re.compile(_TIME + _TZ),
    'gYearMonth': re.compile(_YEAR + r'-([0-9]{2})' + _TZ),
    'gYear': re.compile(_YEAR + _TZ),
    'gMonthDay': re.compile(r'--([0-9]{2})-([0-9]{2})' + _TZ),
    'gDay': re.compile(r'---([0-9]{2})' + _TZ),
    'gMonth': re.compile(r'--([0-9]{2})' + _TZ),
}
_RE_DT['dateTimeStamp'] = _RE_DT['dateTime']
_FIELDS = {
    'dateTime': 'YMDhmsfz', 'dateTimeStamp': 'YMDhmsfz', 'date': 'YMDz', 'time': 'hmsfz', 'gYearMonth': 'YMz',
    'gYear': 'Yz', 'gMonthDay': 'MDz', 'gDay': 'Dz', 'gMonth': 'Mz',
}
_MDAYS = [0, 31, 28, 31, 30, 31, 30, 31, 31, 30, 31, 30, 31]


def _tz_minutes(z):
    if z is None:
        return None
    if z == 'Z':
        return 0
    v = int(z[1:3]) * 60 + int(z[4:6])
    return -v if z[0] == '-' else v


def _leap(year, xsd):
    """-> True/False/None(undecided).  year is the *lexical* year number."""
    if year <= 0:
        if xsd == '1.0':
            return None          # XSD 1.0: no year 0000, BCE leap rule not pinned down
        # XSD 1.1: 0000 is 1 BCE, proleptic Gregorian with astronomical numbering
    return year % 4 == 0 and (year % 100 != 0 or year % 400 == 0)


def _days_in(year, month, xsd):
    if month != 2:
        return _MDAYS[month]
    if year is None:
        return 29
    lp = _leap(year, xsd)
    if lp is None:
        return None
    return 29 if lp else 28


def _p_datetime(T, s, xsd):
    m = _RE_DT[T].fullmatch(s)
    if not m:
        if 'Y' in _FIELDS[T] and re.fullmatch(_RE_DT[T].pattern.replace(_YEAR, '(-?[0-9]{4,})'), s):
            return (INVALID, 'year-leading-zeros')
        return _BAD
    vals = dict(zip(_FIELDS[T], m.groups()))
    year = month = day = hour = minute = None
    sec = None
    if 'Y' in vals:
        year = int(vals['Y'])
        if year == 0 and xsd == '1.0':
            return (INVALID, 'year-zero-xsd10')
        if abs(year) > 10 ** 8:
            return (UNDECIDED, 'implementation-limit')
    if 'M' in vals:
        month = int(vals['M'])
        if not 1 <= month <= 12:
            return (INVALID, 'field-range')
    if 'D' in vals:
        day = int(vals['D'])
        if day < 1 or day > 31:
            return (INVALID, 'field-range')
        if month is not None:
            dim = _days_in(year, month, xsd)
            if dim is None:
                if day > 28:
                    return (UNDECIDED, 'bce-leap-year-xsd10')
            elif day > dim:
                return (INVALID, 'field-range')
    if 'h' in vals:
        hour, minute, si = int(vals['h']), int(vals['m']), int(vals['s'])
        frac = vals.get('f')
        if minute > 59:
            return (INVALID, 'field-range')
        if si > 59:
            if si == 60 and xsd == '1.0':
                return (UNDECIDED, 'leap-second-xsd10')
            return (INVALID, 'field-range')
        sec = Fraction(si)
        if frac is not None:
            sec += Fraction(int(frac), 10 ** len(frac))
        if hour > 24:
            return (INVALID, 'field-range')
        if hour == 24:
            if minute != 0 or sec != 0:
                return (INVALID, 'field-range')
            if frac is not None and xsd == '1.0':
                return (UNDECIDED, '24:00:00.0-xsd10')
            # end-of-day: the first instant of the following day
            hour = 0
            if year is not None:
                dim = _days_in(year, month, xsd)
                if dim is None:
                    if day >= 28:
                        return (UNDECIDED, 'bce-leap-year-xsd10')
                    dim = 31
                day += 1
                if day > dim:
                    day = 1
                    month += 1
                    if month > 12:
                        month = 1
                        year += 1
                        if year == 0 and xsd == '1.0':
                            year = 1
        if frac is not None and len(frac.rstrip('0')) > 6:
            return (UNDECIDED, 'sub-microsecond')
    tz = _tz_minutes(vals.get('z'))
    if T == 'dateTimeStamp' and tz is None:
        return (INVALID, 'timezone-required')
    return (VALID, ('dt', year, month, day, hour, minute, sec, tz))


# ---------------------------------------------------------------------------- anyURI
_RE_URI_SAFE = re.compile(r"(?:[a-z][a-z0-9+.-]*:)?(?://[a-z0-9.-]+(?::[0-9]{1,4})?)?(?:/?[A-Za-z0-9._~-]+(?:/[A-Za-z0-9._~-]*)*)?"
                          r"(?:\?[A-Za-z0-9._~=&-]*)?(?:#[A-Za-z0-9._~-]*)?")


def _p_anyuri(T, s, xsd):
    # XSD 1.1: every string is in the lexical space; XSD 1.0 / F&O leave the amount of checking
    # implementation-defined -> only plainly well-formed references are decided (as valid)
    if _RE_URI_SAFE.fullmatch(s):
        return (VALID, s)
    return (UNDECIDED, 'uri-checking-implementation-defined')


def _p_untyped(T, s, xsd):
    return (VALID, s)


_PARSERS = {'untypedAtomic': _p_untyped, 'boolean': _p_boolean, 'decimal': _p_decimal, 'double': _p_double,
            'float': _p_double, 'hexBinary': _p_hex, 'base64Binary': _p_b64, 'anyURI': _p_anyuri}
for _t in INT_TYPES:
    _PARSERS[_t] = _p_integer
for _t in STR_TYPES:
    _PARSERS[_t] = _p_string
for _t in DT_TYPES:
    _PARSERS[_t] = _p_datetime
for _t in DUR_TYPES:
    _PARSERS[_t] = _p_duration


def parse_normalised(T, s, xsd='1.1'):
    if T == 'dateTimeStamp' and xsd == '1.0':
        return (UNDECIDED, 'dateTimeStamp-not-in-xsd10')
    return _PARSERS[T](T, s, xsd)


def parse(T, s, xsd='1.1'):
    return parse_normalised(T, normalise(s, whitespace(T)), xsd)


# ---------------------------------------------------------------------------- canonical strings (F&O 19.1.1)
def frac_to_str(fr):
    sign = '-' if fr < 0 else ''
    fr = abs(fr)
    ip = fr.numerator // fr.denominator
    rem = fr - ip
    digits = []
    while rem and len(digits) < 1200:
        rem *= 10
        d = rem.numerator // rem.denominator
        digits.append(str(d))
        rem -= d
    if rem:
        return None
    if digits:
        return '%s%d.%s' % (sign, ip, ''.join(digits))
    return '%s%d' % (sign, ip)


def shortest_digits(x, single):
    """(digits, exp10) with x = 0.d1d2... * 10**exp10 ... returned as (digit string, scientific exponent)"""
    a = abs(x)
    if not single:
        r = repr(a)
        mant, _, e = r.partition('e')
        exp = int(e) if e else 0
    else:
        for k in range(0, 10):
            r = '%.*e' % (k, a)
            if f32(float(r)) == a:
                break
        mant, _, e = r.partition('e')
        exp = int(e)
    ip, _, fp = mant.partition('.')
    digits = (ip + fp)
    exp += len(ip) - 1
    stripped = digits.lstrip('0')
    exp -= len(digits) - len(stripped)
    digits = stripped.rstrip('0') or '0'
    return digits, exp


def canon_double(x, single=False):
    if x != x:
        return 'NaN'
    if x == math.inf:
        return 'INF'
    if x == -math.inf:
        return '-INF'
    if x == 0:
        return '-0' if math.copysign(1.0, x) < 0 else '0'
    sign = '-' if x < 0 else ''
    a = abs(x)
    digits, exp = shortest_digits(a, single)
    if 0.000001 <= a < 1000000:
        if exp >= 0:
            ip = digits[:exp + 1].ljust(exp + 1, '0')
            fp = digits[exp + 1:]
        else:
            ip = '0'
            fp = '0' * (-exp - 1) + digits
        return sign + ip + ('.' + fp if fp else '')
    return '%s%s.%sE%d' % (sign, digits[0], digits[1:] or '0', exp)


_RE_CANON_SCI = re.compile(r'-?[1-9]\.(?:0|[0-9]*[1-9])E(?:0|-?[1-9][0-9]*)')
_RE_CANON_PLAIN = re.compile(r'-?(?:0|[1-9][0-9]*)(?:\.[0-9]*[1-9])?')


def double_string_shape(x, text):
    """for a finite non-zero double x: None if `text` has the shape F&O requires, else the broken rule"""
    a = abs(x)
    if 0.000001 <= a < 1000000:
        if 'E' in text or 'e' in text:
            return 'exponent-inside-decimal-range'
        if not _RE_CANON_PLAIN.fullmatch(text):
            return 'decimal-shape'
        return None
    if 'E' not in text and 'e' not in text:
        return 'no-exponent-outside-decimal-range'
    if not _RE_CANON_SCI.fullmatch(text):
        return 'sci-shape'
    return None


def _fmt_year(y):
    return ('-' if y < 0 else '') + '%04d' % abs(y)


def _fmt_tz(tz):
    if tz is None:
        return ''
    if tz == 0:
        return 'Z'
    a = abs(tz)
    return '%s%02d:%02d' % ('-' if tz < 0 else '+', a // 60, a % 60)


def _fmt_sec(sec):
    ip = sec.numerator // sec.denominator
    fr = sec - ip
    out = '%02d' % ip
    if fr:
        out += frac_to_str(fr)[1:]
    return out


def canon_duration(T, v):
    _, months, seconds = v
    neg = months < 0 or seconds < 0
    m, s = abs(months), abs(seconds)
    out = ''
    if m // 12:
        out += '%dY' % (m // 12)
    if m % 12:
        out += '%dM' % (m % 12)
    days = s.numerator // s.denominator // 86400
    rest = s - days * 86400
    if days:
        out += '%dD' % days
    if rest:
        out += 'T'
        h = rest.numerator // rest.denominator // 3600
        rest -= h * 3600
        mi = rest.numerator // rest.denominator // 60
        rest -= mi * 60
        if h:
            out += '%dH' % h
        if mi:
            out += '%dM' % mi
        if rest:
            out += frac_to_str(rest) + 'S'
    if not out:
        return 'P0M' if T == 'yearMonthDuration' else 'PT0S'
    return ('-P' if neg else 'P') + out


def canon_datetime(T, v):
    _, year, month, day, hour, minute, sec, tz = v
    f = _FIELDS[T]
    if T in ('dateTime', 'dateTimeStamp'):
        body = '%s-%02d-%02dT%02d:%02d:%s' % (_fmt_year(year), month, day, hour, minute, _fmt_sec(sec))
    elif T == 'date':
        body = '%s-%02d-%02d' % (_fmt_year(year), month, day)
    elif T == 'time':
        body = '%02d:%02d:%s' % (hour, minute, _fmt_sec(sec))
    elif T == 'gYearMonth':
        body = '%s-%02d' % (_fmt_year(year), month)
    elif T == 'gYear':
        body = _fmt_year(year)
    elif T == 'gMonthDay':
        body = '--%02d-%02d' % (month, day)
    elif T == 'gDay':
        body = '---%02d' % day
    else:
        body = '--%02d' % month
    assert f
    return body + _fmt_tz(tz)


def canonical(T, v, xsd='1.1'):
    p = PRIM[T]
    if p == 'bool':
        return 'true' if v else 'false'
    if p == 'int':
        return str(v)
    if p == 'dec':
        return frac_to_str(v)
    if p == 'dbl':
        return canon_double(v)
    if p == 'flt':
        return canon_double(v, single=True)
    if p in ('str', 'uA', 'aURI'):
        return v
    if p == 'hxB':
        return v.hex().upper()
    if p == 'b64':
        return base64.b64encode(v).decode('ascii')
    if p in ('dur', 'yMD', 'dTD'):
        return canon_duration(T, v)
    return canon_datetime(T, v)


# ---------------------------------------------------------------------------- casting (F&O 3.1 section 19.1)
_COLS = ['uA', 'str', 'flt', 'dbl', 'dec', 'int', 'dur', 'yMD', 'dTD', 'dT', 'tim', 'dat', 'gYM', 'gYr', 'gMD',
         'gD', 'gM', 'bool', 'b64', 'hxB', 'aURI']
_ROWS = {
    #        uA str flt dbl dec int dur yMD dTD dT tim dat gYM gYr gMD gD gM bool b64 hxB aURI
    'uA':   'Y  Y   M   M   M   M   M   M   M   M  M   M   M   M   M   M  M  M    M   M   M',
    'str':  'Y  Y   M   M   M   M   M   M   M   M  M   M   M   M   M   M  M  M    M   M   M',
    'flt':  'Y  Y   Y   Y   M   M   N   N   N   N  N   N   N   N   N   N  N  Y    N   N   N',
    'dbl':  'Y  Y   M   Y   M   M   N   N   N   N  N   N   N   N   N   N  N  Y    N   N   N',
    'dec':  'Y  Y   Y   Y   Y   Y   N   N   N   N  N   N   N   N   N   N  N  Y    N   N   N',
    'int':  'Y  Y   Y   Y   Y   Y   N   N   N   N  N   N   N   N   N   N  N  Y    N   N   N',
    'dur':  'Y  Y   N   N   N   N   Y   Y   Y   N  N   N   N   N   N   N  N  N    N   N   N',
    'yMD':  'Y  Y   N   N   N   N   Y   Y   Y   N  N   N   N   N   N   N  N  N    N   N   N',
    'dTD':  'Y  Y   N   N   N   N   Y   Y   Y   N  N   N   N   N   N   N  N  N    N   N   N',
    'dT':   'Y  Y   N   N   N   N   N   N   N   Y  Y   Y   Y   Y   Y   Y  Y  N    N   N   N',
    'tim':  'Y  Y   N   N   N   N   N   N   N   N  Y   N   N   N   N   N  N  N    N   N   N',
    'dat':  'Y  Y   N   N   N   N   N   N   N   Y  N   Y   Y   Y   Y   Y  Y  N    N   N   N',
    'gYM':  'Y  Y   N   N   N   N   N   N   N   N  N   N   Y   N   N   N  N  N    N   N   N',
    'gYr':  'Y  Y   N   N   N   N   N   N   N   N  N   N   N   Y   N   N  N  N    N   N   N',
    'gMD':  'Y  Y   N   N   N   N   N   N   N   N  N   N   N   N   Y   N  N  N    N   N   N',
    'gD':   'Y  Y   N   N   N   N   N   N   N   N  N   N   N   N   N   Y  N  N    N   N   N',
    'gM':   'Y  Y   N   N   N   N   N   N   N   N  N   N   N   N   N   N  Y  N    N   N   N',
    'bool': 'Y  Y   Y   Y   Y   Y   N   N   N   N  N   N   N   N   N   N  N  Y    N   N   N',
    'b64':  'Y  Y   N   N   N   N   N   N   N   N  N   N   N   N   N   N  N  N    Y   Y   N',
    'hxB':  'Y  Y   N   N   N   N   N   N   N   N  N   N   N   N   N   N  N  N    Y   Y   N',
    'aURI': 'Y  Y   N   N   N   N   N   N   N   N  N   N   N   N   N   N  N  N    N   N   Y',
}
TABLE = {r: dict(zip(_COLS, cells.split())) for r, cells in _ROWS.items()}
for _r, _cells in TABLE.items():
    assert len(_cells) == len(_COLS), _r


def table_cell(S, T):
    return TABLE[PRIM[S]][PRIM[T]]


def _num_to_fraction(ps, v):
    if ps == 'bool':
        return Fraction(1 if v else 0)
    if ps == 'int':
        return Fraction(v)
    if ps == 'dec':
        return v
    return Fraction(v)  # finite float


_DT_EXTRACT = {'dateTime': 'YMDhms', 'dateTimeStamp': 'YMDhms', 'date': 'YMD', 'time': 'hms', 'gYearMonth': 'YM',
               'gYear': 'Y', 'gMonthDay': 'MD', 'gDay': 'D', 'gMonth': 'M'}


def cast(S, v, T, xsd='1.1'):
    """model of `v (of type S) cast as T`"""
    ps, pt = PRIM[S], PRIM[T]
    if TABLE[ps][pt] == 'N':
        return ('N',)
    if T == 'dateTimeStamp' and xsd == '1.0':
        return ('undecided', 'dateTimeStamp-not-in-xsd10')
    # from string / untypedAtomic: lexical rules of the target
    if ps in ('uA', 'str'):
        if pt in ('str', 'uA') and T in ('string', 'untypedAtomic'):
            return ('ok', v)
        st, val = parse(T, v, xsd)
        if st == VALID:
            return ('ok', val)
        if st == INVALID:
            return ('err', 'FORG0001')
        return ('undecided', val)
    # to string / untypedAtomic (and string-derived types: via the canonical string)
    if pt in ('str', 'uA'):
        c = canonical(S, v, xsd)
        if c is None:
            return ('undecided', 'canonical')
        if T in ('string', 'untypedAtomic'):
            return ('ok', c)
        st, val = parse(T, c, xsd)
        if st == VALID:
            return ('ok', val)
        if st == INVALID:
            return ('err', 'FORG0001')
        return ('undecided', val)
    if ps == pt and S == T:
        return ('ok', v)
    # numeric targets
    if pt in ('flt', 'dbl', 'dec', 'int'):
        if ps in ('flt', 'dbl') and (v != v or v in (math.inf, -math.inf)):
            if pt in ('dec', 'int'):
                return ('err', 'FOCA0002')
            return ('ok', v)
        if ps in ('flt', 'dbl') and v == 0 and pt in ('flt', 'dbl'):
            return ('ok', v)          # keeps the sign of zero
        fr = _num_to_fraction(ps, v)
        if pt == 'dec':
            if abs(fr) > 10 ** 30 or (fr != 0 and abs(fr) < Fraction(1, 10 ** 30)):
                return ('undecided', 'decimal-digits-limit')
            return ('ok', fr)
        if pt == 'int':
            if abs(fr) > 10 ** 30:
                return ('undecided', 'integer-digits-limit')
            iv = abs(fr).numerator // abs(fr).denominator
            iv = -iv if fr < 0 else iv
            lo, hi = INT_BOUNDS[T]
            if (lo is not None and iv < lo) or (hi is not None and iv > hi):
                return ('err', 'FORG0001')
            return ('ok', iv)
        if ps in ('flt', 'dbl') and pt == 'dbl':
            return ('ok', float(v))
        if pt == 'dbl':
            try:
                return ('ok', float(fr))        # CPython: correctly rounded
            except OverflowError:
                return ('ok', math.inf if fr > 0 else -math.inf)
        if fr == 0:
            return ('ok', 0.0)
        r = nearest_f32_fraction(abs(fr))
        return ('ok', -r if fr < 0 else r)
    if pt == 'bool':
        if ps in ('flt', 'dbl'):
            return ('ok', not (v != v or v == 0))
        return ('ok', _num_to_fraction(ps, v) != 0)
    if pt in ('hxB', 'b64'):
        return ('ok', v)
    if pt == 'aURI':
        return ('ok', v)
    if pt in ('dur', 'yMD', 'dTD'):
        _, months, seconds = v
        if pt == 'yMD':
            return ('ok', ('dur', months, Fraction(0)))
        if pt == 'dTD':
            return ('ok', ('dur', 0, seconds))
        return ('ok', v)
    # date/time targets from dateTime / date (or the same primitive)
    _, year, month, day, hour, minute, sec, tz = v
    if T == 'dateTimeStamp' and tz is None:
        return ('err', 'FORG0001')
    if ps == 'dat' and pt == 'dT':
        return ('ok', ('dt', year, month, day, 0, 0, Fraction(0), tz))
    keep = _DT_EXTRACT[T]
    return ('ok', ('dt', year if 'Y' in keep else None, month if 'M' in keep else None,
                   day if 'D' in keep else None, hour if 'h' in keep else None,
                   minute if 'm' in keep else None, sec if 's' in keep else None, tz))


# ---------------------------------------------------------------------------- generators of valid forms
def _digits(r, n):
    return ''.join(r.choice('0123456789') for _ in range(n))


def g_tz(r):
    x = r.random()
    if x < 0.45:
        return ''
    if x < 0.6:
        return 'Z'
    return r.choice(['+00:00', '-00:00', '+14:00', '-14:00', '+13:59', '-05:00', '+05:30', '+01:00', '-11:45'])


def g_year(r, xsd):
    x = r.random()
    if x < 0.5:
        return '%04d' % r.choice([1, 4, 100, 400, 1582, 1900, 1999, 2000, 2004, 2023, 2024, 9999])
    if x < 0.65:
        return r.choice(['10000', '12345', '99999'])
    if x < 0.75 and xsd == '1.1':
        return r.choice(['0000', '-0000']) if r.random() < 0.7 else '0000'
    return '-' + '%04d' % r.choice([1, 4, 5, 100, 400, 44, 2000, 9999, 10001])


def g_time(r):
    x = r.random()
    if x < 0.08:
        return '24:00:00'
    h, m, s = r.choice([0, 1, 9, 12, 23]), r.choice([0, 1, 30, 59]), r.choice([0, 1, 30, 59])
    out = '%02d:%02d:%02d' % (h, m, s)
    if r.random() < 0.4:
        out += '.' + r.choice(['0', '5', '50', '125', '000001', '999999', '100', '123456'])
    return out


def gen_valid(T, r, xsd='1.1'):
    p = PRIM[T]
    if T == 'untypedAtomic' or T == 'string':
        return r.choice(['', 'abc', ' a  b ', 'x\ty', '12', 'true', 'é', 'a\nb', 'P1Y', '1e3'])
    if T == 'normalizedString':
        return r.choice(['', 'abc', ' a  b ', 'x\ty', 'a\r\nb', '  '])
    if T == 'token':
        return r.choice(['', 'abc', 'a b', ' a  b ', 'x\ty', 'a b', ' '])
    if T == 'language':
        return r.choice(['en', 'en-US', 'x-klingon', 'abcdefgh', 'de-CH-1901', 'i-1', 'a-b-c-d', 'EN-gb'])
    if T == 'NMTOKEN':
        return r.choice(['a', '1', '-x', '.5', 'a:b', ':', '12ab', 'été', 'a·', '_', 'a.b-c'])
    if T == 'Name':
        return r.choice(['a', '_x', ':a', 'a:b', 'a:b:c', 'A1', 'é', 'a.b-c', 'a·', '中1'])
    if T in ('NCName', 'ID', 'IDREF', 'ENTITY'):
        return r.choice(['a', '_x', 'A1', 'a.b-c', 'é', 'à', 'Ω-1', '_', 'x9'])
    if p == 'bool':
        return r.choice(['true', 'false', '1', '0'])
    if p == 'int':
        lo, hi = INT_BOUNDS[T]
        pool = [0, 1, -1, 7, 42, -128, 127, 128, 255, 256, 32767, 65535, 2 ** 31 - 1, -2 ** 31, 2 ** 32 - 1,
                2 ** 63 - 1, -2 ** 63, 2 ** 64 - 1, 10 ** 20, -10 ** 20]
        if lo is not None:
            pool += [lo, lo + 1]
        if hi is not None:
            pool += [hi, hi - 1]
        ok = [v for v in pool if (lo is None or v >= lo) and (hi is None or v <= hi)]
        v = r.choice(ok)
        s = str(abs(v))
        if r.random() < 0.25:
            s = '0' * r.randint(1, 3) + s
        if v < 0:
            s = '-' + s
        elif r.random() < 0.2:
            s = ('+' if v > 0 or lo is None or lo < 0 or True else '') + s
        if v == 0 and r.random() < 0.3 and (lo is None or lo <= 0) and (hi is None or hi >= 0):
            s = r.choice(['-0', '+0', '00'])
        return s
    if p == 'dec':
        return r.choice(['0', '1', '-1', '+1', '1.0', '1.', '.5', '-.5', '0.5', '12.34', '-0.0', '007', '1.50',
                         '123456789012345678901234567890', '0.000001', '0.0000001', '1000000', '99.999', '+0.10',
                         '3.14159265358979323846'])
    if p in ('dbl', 'flt'):
        pool = ['0', '-0', '1', '-1', '1.5', '0.1', '1e0', '1E3', '1.5e-3', '1e-7', '1E-6', '1e6', '999999', '1e5',
                '123456.75', '1234567', '1e21', '1e22', '1.0E16', '12345678', '0.000001', '0.0000001', '0.00001',
                '.5', '5.', '+1.25', '-1.25e+2', 'INF', '-INF', 'NaN', '100', '0.5E1', '1e-5', '2.5e-7', '6.02e23',
                '0e0', '-0.0', '00.5', '1E+2', '3.4028234e38', '1e-37', '1e-38', '1.5e-45', '16777216', '16777217',
                '0.1e-5', '1.17549435e-38']
        if p == 'dbl':
            pool += ['1e308', '1e309', '4.9e-324', '1e-400', '1.7976931348623157e308', '123456789012345680000', '3.4028235E38',
                     '0.30000000000000004', '9007199254740993', '1.23456789012']
        else:
            pool += ['1.23456789', '3.4028236e38', '1e39', '0.1', '16777219',
                     # the largest finite xs:float, exactly, in several spellings
                     '3.4028235E38', '-3.4028235e38', '3.4028234663852886e38', '340282346638528860000000000000000000000']
        if xsd == '1.1':
            pool += ['+INF']
        return r.choice(pool)
    if p == 'hxB':
        return r.choice(['', '00', 'ff', 'FF', '0aF1', 'DEADbeef', '00ff00', 'a0'])
    if p == 'b64':
        return r.choice(['', 'AAAA', 'QQ==', 'QUI=', 'QUJD', 'Q Q = =', 'QUJD QUI=', '+/+/', 'Zg==', 'Zm8=',
                         'Zm9v', 'Zm9vYg==', 'Zm9v YmE=', 'Q U J D', 'AA=='])
    if p == 'aURI':
        return r.choice(['', 'a', 'http://example.com/a', 'urn:x:y', 'a/b', '#frag', 'http://h:80/p?q=1#f',
                         'mailto:a', '../x'])
    if p in ('dur', 'yMD', 'dTD'):
        ym = r.choice(['1Y', '2M', '1Y2M', '0Y', '0M', '14M', '100Y', '0Y0M', '1Y0M', '13M', '24M'])
        dt_ = r.choice(['1D', 'T1H', 'T1M', 'T1S', 'T0S', '0D', 'T1.5S', '1DT2H3M4.5S', 'T36H', 'T90M', 'T3600S',
                        'T0.000001S', 'T1.50S', '2DT0H', 'T60S', 'T86400S', 'T0.5S', 'T1H0M', '400D'])
        if T == 'yearMonthDuration':
            body = ym
        elif T == 'dayTimeDuration':
            body = dt_
        else:
            body = r.choice([ym, dt_, ym + dt_, ym + dt_])
        return ('-' if r.random() < 0.25 else '') + 'P' + body
    # date / time
    def g_md(year_text):
        x = r.random()
        if x < 0.15:
            y = int(year_text) if year_text is not None else 4
            lp = _leap(y, xsd)
            if lp:
                return 2, 29
            return 2, 28
        mth = r.choice([1, 2, 4, 6, 11, 12])
        return mth, r.choice([1, 15, 28, 30 if mth != 2 else 27, 31 if mth in (1, 12) else 9])
    tz = g_tz(r)
    if T == 'dateTimeStamp' and tz == '':
        tz = 'Z'
    if T in ('dateTime', 'dateTimeStamp'):
        y = g_year(r, xsd)
        m, d = g_md(y)
        return '%s-%02d-%02dT%s%s' % (y, m, d, g_time(r), tz)
    if T == 'date':
        y = g_year(r, xsd)
        m, d = g_md(y)
        return '%s-%02d-%02d%s' % (y, m, d, tz)
    if T == 'time':
        return g_time(r) + tz
    if T == 'gYearMonth':
        return '%s-%02d%s' % (g_year(r, xsd), r.choice([1, 2, 12]), tz)
    if T == 'gYear':
        return g_year(r, xsd) + tz
    if T == 'gMonthDay':
        m, d = g_md(None)
        return '--%02d-%02d%s' % (m, d, tz)
    if T == 'gDay':
        return '---%02d%s' % (r.choice([1, 9, 28, 29, 30, 31]), tz)
    if T == 'gMonth':
        return '--%02d%s' % (r.choice([1, 2, 9, 10, 12]), tz)
    raise KeyError(T)
