"""Reference model for XPath comparisons, effective boolean value and logic (property C07).

Transcribed from XPath 2.0/3.1 (3.5 Comparison Expressions, 2.4.3 EBV, B.2 operator mapping),
F&O 3.1 (op:numeric-equal/less-than, op:*-equal for date/time, duration, QName, binary types)
and XSD Part 2 (lexical -> value mappings).  Shares no code with elementpath.

Values are `Val(tname, cls, v, tz)`:
  cls 'num'      v = ('integer'|'decimal', Fraction) | ('float'|'double', python float)
  cls 'string'   v = str                 (xs:string and derived, xs:anyURI; untypedAtomic keeps cls 'untyped')
  cls 'untyped'  v = str
  cls 'boolean'  v = bool
  cls 'QName'    v = (namespace, local)
  cls dateTime/date/time/gYear/gYearMonth/gMonth/gMonthDay/gDay
                 v = starting instant in seconds (Fraction) on the proleptic Gregorian timeline,
                     normalised to UTC when tz is not None, local otherwise
  cls 'duration' v = (months, seconds)   tname distinguishes duration / yearMonthDuration / dayTimeDuration
  cls 'hexBinary' / 'base64Binary'  v = bytes

Outcomes of comparisons: True / False / an error code string ('XPTY0004', 'FORG0001') /
UNDECIDED (the specification leaves it open or this model does not cover it).
"""
import base64
import math
import re
import struct
from fractions import Fraction

UNDECIDED = 'undecided'
EITHER = 'either'

VALUE_OPS = ('eq', 'ne', 'lt', 'le', 'gt', 'ge')
GENERAL_OPS = ('=', '!=', '<', '<=', '>', '>=')
G2V = dict(zip(GENERAL_OPS, VALUE_OPS))

INT_TYPES = {
    'integer': (None, None), 'long': (-2 ** 63, 2 ** 63 - 1), 'int': (-2 ** 31, 2 ** 31 - 1),
    'short': (-2 ** 15, 2 ** 15 - 1), 'byte': (-128, 127), 'unsignedLong': (0, 2 ** 64 - 1),
    'unsignedInt': (0, 2 ** 32 - 1), 'unsignedShort': (0, 65535), 'unsignedByte': (0, 255),
    'nonNegativeInteger': (0, None), 'positiveInteger': (1, None), 'nonPositiveInteger': (None, 0),
    'negativeInteger': (None, -1),
}
STRING_TYPES = ('string', 'normalizedString', 'token', 'NCName', 'language', 'Name', 'NMTOKEN')
GREGORIAN = ('gYear', 'gYearMonth', 'gMonth', 'gMonthDay', 'gDay')
DATETIME_CLASSES = ('dateTime', 'date', 'time') + GREGORIAN
DURATION_TYPES = ('duration', 'yearMonthDuration', 'dayTimeDuration')


class LexicalError(Exception):
    pass


class Val:
    __slots__ = ('tname', 'cls', 'v', 'tz', 'lex')

    def __init__(self, tname, cls, v, tz=None, lex=None):
        self.tname = tname
        self.cls = cls
        self.v = v
        self.tz = tz
        self.lex = lex

    def __repr__(self):
        return 'Val(%s,%r)' % (self.tname, self.v)


# ----------------------------------------------------------------- whitespace
def ws_replace(s):
    return s.replace('\t', ' ').replace('\n', ' ').replace('\r', ' ')


def ws_collapse(s):
    return ' '.join(x for x in ws_replace(s).split(' ') if x)


# ----------------------------------------------------------------- binary32
F32_MAX = Fraction(int((2 - 2 ** -23) * 2 ** 127))


def _f32_bits(f):
    return struct.unpack('<I', struct.pack('<f', f))[0]


def _f32_from_bits(b):
    return struct.unpack('<f', struct.pack('<I', b))[0]


def f32_round(fr):
    """nearest binary32 value (ties to even) of an exact rational, as a python float"""
    fr = Fraction(fr)
    if fr == 0:
        return 0.0
    neg = fr < 0
    a = -fr if neg else fr
    # overflow threshold: max + half ulp
    if a >= F32_MAX + Fraction(2 ** 103):
        return -math.inf if neg else math.inf
    try:
        d = float(a)
    except OverflowError:
        return -math.inf if neg else math.inf
    try:
        f = struct.unpack('<f', struct.pack('<f', d))[0]
    except OverflowError:
        f = float(F32_MAX)
    if math.isinf(f):
        f = float(F32_MAX)
    b = _f32_bits(f)
    cands = [b]
    if b > 0:
        cands.append(b - 1)
    if b < 0x7F7FFFFF:
        cands.append(b + 1)
    best = None
    for c in cands:
        cv = Fraction(_f32_from_bits(c))
        dist = abs(cv - a)
        key = (dist, c & 1)
        if best is None or key < best[0]:
            best = (key, c)
    r = _f32_from_bits(best[1])
    return -r if neg else r


def to_double(fr):
    try:
        return float(Fraction(fr))
    except OverflowError:
        return math.inf if fr > 0 else -math.inf


# ----------------------------------------------------------------- lexical -> value
_DEC = re.compile(r'^([+-]?)(\d*)(?:\.(\d*))?$')
_DBL = re.compile(r'^([+-]?)(?:(\d+)(?:\.(\d*))?|\.(\d+))(?:[eE]([+-]?\d+))?$')
_INT = re.compile(r'^[+-]?\d+$')


def parse_decimal(lex):
    s = ws_collapse(lex)
    m = _DEC.match(s)
    if not m or (not m.group(2) and not m.group(3)):
        raise LexicalError(lex)
    sign, ip, fp = m.group(1), m.group(2) or '', m.group(3) or ''
    v = Fraction(int((ip + fp) or '0'), 10 ** len(fp))
    return -v if sign == '-' else v


def parse_double_lex(lex):
    """-> ('nan'|'inf'|'-inf'|'num', exact Fraction or None, negative?)"""
    s = ws_collapse(lex)
    if s == 'NaN':
        return ('nan', None, False)
    if s == 'INF':
        return ('inf', None, False)
    if s == '-INF':
        return ('-inf', None, True)
    if s == '+INF':
        raise LexicalError('+INF is XSD 1.1 only')   # callers avoid it
    m = _DBL.match(s)
    if not m:
        raise LexicalError(lex)
    sign, ip, fp, fp2, ex = m.groups()
    if ip is None:
        ip, fp = '', fp2
    fp = fp or ''
    v = Fraction(int((ip + fp) or '0'), 10 ** len(fp))
    if ex:
        e = int(ex)
        if abs(e) > 400:
            raise LexicalError('exponent out of model range')
        v = v * Fraction(10) ** e
    neg = sign == '-'
    return ('num', -v if neg else v, neg)


def make_float(kind, lex):
    k, fr, neg = parse_double_lex(lex)
    if k == 'nan':
        x = math.nan
    elif k == 'inf':
        x = math.inf
    elif k == '-inf':
        x = -math.inf
    else:
        x = f32_round(fr) if kind == 'float' else to_double(fr)
        if x == 0 and neg:
            x = -0.0
    return Val(kind, 'num', (kind, x), lex=lex)


def days_from_civil(y, m, d):
    """days since 0001-01-01 (proleptic Gregorian, astronomical year numbering for y <= 0)"""
    y -= m <= 2
    era = y // 400
    yoe = y - era * 400
    doy = (153 * (m + (-3 if m > 2 else 9)) + 2) // 5 + d - 1
    doe = yoe * 365 + yoe // 4 - yoe // 100 + doy
    return era * 146097 + doe


def _leap(y):
    return y % 4 == 0 and (y % 100 != 0 or y % 400 == 0)


def _mdays(y, m):
    if m == 2:
        return 29 if _leap(y) else 28
    return 30 if m in (4, 6, 9, 11) else 31


_TZ = r'(Z|[+-]\d\d:\d\d)?'
_YEAR = r'(-?\d{4,})'
_RX = {
    'dateTime': re.compile(r'^' + _YEAR + r'-(\d\d)-(\d\d)T(\d\d):(\d\d):(\d\d)(\.\d+)?' + _TZ + '$'),
    'date': re.compile(r'^' + _YEAR + r'-(\d\d)-(\d\d)' + _TZ + '$'),
    'time': re.compile(r'^(\d\d):(\d\d):(\d\d)(\.\d+)?' + _TZ + '$'),
    'gYear': re.compile(r'^' + _YEAR + _TZ + '$'),
    'gYearMonth': re.compile(r'^' + _YEAR + r'-(\d\d)' + _TZ + '$'),
    'gMonth': re.compile(r'^--(\d\d)' + _TZ + '$'),
    'gMonthDay': re.compile(r'^--(\d\d)-(\d\d)' + _TZ + '$'),
    'gDay': re.compile(r'^---(\d\d)' + _TZ + '$'),
}


def _tz_minutes(t):
    if t is None:
        return None
    if t == 'Z':
        return 0
    h, m = int(t[1:3]), int(t[4:6])
    if h > 14 or m > 59 or (h == 14 and m):
        raise LexicalError('timezone')
    v = h * 60 + m
    return -v if t[0] == '-' else v


def _year(s):
    """XSD 1.0 year: no year zero; -0001 is 1 BCE -> astronomical 0. Year 0000 is rejected here
    (XSD 1.0/1.1 disagree), callers avoid it."""
    if len(s.lstrip('-')) > 4 and s.lstrip('-')[0] == '0':
        raise LexicalError('year leading zero')
    y = int(s)
    if y == 0:
        raise LexicalError('year zero: XSD version dependent')
    return y + 1 if y < 0 else y


def parse_datetime(cls, lex):
    s = ws_collapse(lex)
    m = _RX[cls].match(s)
    if not m:
        raise LexicalError(lex)
    g = m.groups()
    tz = _tz_minutes(g[-1])
    y, mo, d, hh, mi, ss = 1972, 12, 31, 0, 0, Fraction(0)
    if cls == 'dateTime':
        y, mo, d, hh, mi = _year(g[0]), int(g[1]), int(g[2]), int(g[3]), int(g[4])
        ss = Fraction(g[5] + (g[6] or ''))
    elif cls == 'date':
        y, mo, d = _year(g[0]), int(g[1]), int(g[2])
    elif cls == 'time':
        hh, mi = int(g[0]), int(g[1])
        ss = Fraction(g[2] + (g[3] or ''))
    elif cls == 'gYear':
        y, mo, d = _year(g[0]), 1, 1
    elif cls == 'gYearMonth':
        y, mo, d = _year(g[0]), int(g[1]), 1
    elif cls == 'gMonth':
        y, mo, d = 1972, int(g[0]), 1
    elif cls == 'gMonthDay':
        y, mo, d = 1972, int(g[0]), int(g[1])
    elif cls == 'gDay':
        y, mo, d = 1972, 12, int(g[0])
    if not 1 <= mo <= 12:
        raise LexicalError(lex)
    if cls == 'gMonthDay':
        if not 1 <= d <= _mdays(1972, mo):
            raise LexicalError(lex)
    elif cls == 'gDay':
        if not 1 <= d <= 31:
            raise LexicalError(lex)
    elif not 1 <= d <= _mdays(y, mo):
        raise LexicalError(lex)
    extra_day = 0
    if hh == 24:
        if mi or ss:
            raise LexicalError(lex)
        hh = 0
        # xs:time 24:00:00 is 00:00:00 (same day of the reference date); dateTime rolls to next day
        extra_day = 1 if cls == 'dateTime' else 0
    if hh > 23 or mi > 59 or ss >= 60:
        raise LexicalError(lex)
    inst = Fraction((days_from_civil(y, mo, d) + extra_day) * 86400 + hh * 3600 + mi * 60) + ss
    if tz is not None:
        inst -= tz * 60
    return Val(cls, cls, inst, tz=tz, lex=lex)


_DUR = re.compile(r'^(-?)P(?:(\d+)Y)?(?:(\d+)M)?(?:(\d+)D)?(?:T(?:(\d+)H)?(?:(\d+)M)?(?:(\d+(?:\.\d+)?)S)?)?$')


def parse_duration(tname, lex):
    s = ws_collapse(lex)
    m = _DUR.match(s)
    if not m or s.endswith('T') or s in ('P', '-P'):
        raise LexicalError(lex)
    sign, y, mo, d, h, mi, sec = m.groups()
    if all(x is None for x in (y, mo, d, h, mi, sec)):
        raise LexicalError(lex)
    if tname == 'yearMonthDuration' and any(x is not None for x in (d, h, mi, sec)):
        raise LexicalError(lex)
    if tname == 'dayTimeDuration' and any(x is not None for x in (y, mo)):
        raise LexicalError(lex)
    months = int(y or 0) * 12 + int(mo or 0)
    seconds = Fraction(int(d or 0) * 86400 + int(h or 0) * 3600 + int(mi or 0) * 60) + Fraction(sec or '0')
    if sign:
        months, seconds = -months, -seconds
    return Val(tname, 'duration', (months, seconds), lex=lex)


_NCNAME = re.compile(r'^[A-Za-z_][A-Za-z0-9_.\-]*$')   # ASCII subset is enough for the pools used
_B64CHARS = set('ABCDEFGHIJKLMNOPQRSTUVWXYZabcdefghijklmnopqrstuvwxyz0123456789+/=')


def parse_atomic(tname, lex, namespaces=None):
    """lexical representation -> Val; raises LexicalError when `lex` is not in the lexical space
    (or outside what this model covers)."""
    if tname in INT_TYPES:
        s = ws_collapse(lex)
        if not _INT.match(s):
            raise LexicalError(lex)
        v = int(s)
        lo, hi = INT_TYPES[tname]
        if (lo is not None and v < lo) or (hi is not None and v > hi):
            raise LexicalError(lex)
        return Val(tname, 'num', ('integer', Fraction(v)), lex=lex)
    if tname == 'decimal':
        return Val(tname, 'num', ('decimal', parse_decimal(lex)), lex=lex)
    if tname in ('float', 'double'):
        return make_float(tname, lex)
    if tname == 'string':
        return Val(tname, 'string', lex, lex=lex)
    if tname == 'normalizedString':
        return Val(tname, 'string', ws_replace(lex), lex=lex)
    if tname in ('token', 'NCName', 'language', 'Name', 'NMTOKEN'):
        s = ws_collapse(lex)
        if tname == 'NCName' and not _NCNAME.match(s):
            raise LexicalError(lex)
        if tname == 'language' and not re.match(r'^[a-zA-Z]{1,8}(-[a-zA-Z0-9]{1,8})*$', s):
            raise LexicalError(lex)
        return Val(tname, 'string', s, lex=lex)
    if tname == 'anyURI':
        return Val(tname, 'string', ws_collapse(lex), lex=lex)
    if tname == 'untypedAtomic':
        return Val(tname, 'untyped', lex, lex=lex)
    if tname == 'boolean':
        s = ws_collapse(lex)
        if s in ('true', '1'):
            return Val(tname, 'boolean', True, lex=lex)
        if s in ('false', '0'):
            return Val(tname, 'boolean', False, lex=lex)
        raise LexicalError(lex)
    if tname == 'QName':
        s = ws_collapse(lex)
        if ':' in s:
            p, l = s.split(':', 1)
            if not _NCNAME.match(p) or not _NCNAME.match(l):
                raise LexicalError(lex)
            ns = (namespaces or {}).get(p)
            if ns is None:
                raise LexicalError('unbound prefix')
            return Val(tname, 'QName', (ns, l), lex=lex)
        if not _NCNAME.match(s):
            raise LexicalError(lex)
        return Val(tname, 'QName', ('', s), lex=lex)
    if tname in DATETIME_CLASSES:
        return parse_datetime(tname, lex)
    if tname in DURATION_TYPES:
        return parse_duration(tname, lex)
    if tname == 'hexBinary':
        s = ws_collapse(lex)
        if len(s) % 2 or not re.match(r'^[0-9a-fA-F]*$', s):
            raise LexicalError(lex)
        return Val(tname, 'hexBinary', bytes.fromhex(s), lex=lex)
    if tname == 'base64Binary':
        s = ws_replace(lex).replace(' ', '')
        if len(s) % 4 or any(c not in _B64CHARS for c in s):
            raise LexicalError(lex)
        try:
            b = base64.b64decode(s, validate=True)
        except Exception:
            raise LexicalError(lex)
        if base64.b64encode(b).decode() != s:       # non-canonical padding bits: keep out of the model
            raise LexicalError('non canonical base64')
        return Val(tname, 'base64Binary', b, lex=lex)
    raise LexicalError('type %s not modelled' % tname)


# ----------------------------------------------------------------- value comparison
def key_class(v):
    """coarse class used in mechanism keys and the type-pair matrix"""
    if v.cls == 'num':
        return 'num'
    if v.cls == 'string':
        return 'anyURI' if v.tname == 'anyURI' else 'string'
    if v.cls in GREGORIAN:
        return 'gregorian'
    if v.cls == 'duration':
        return {'duration': 'duration', 'yearMonthDuration': 'ymd', 'dayTimeDuration': 'dtd'}[v.tname]
    return v.cls


def promote(a, b):
    """numeric promotion of two 'num' payloads -> comparable python numbers (float or Fraction)"""
    ka, xa = a
    kb, xb = b
    if 'double' in (ka, kb):
        fa = xa if ka in ('float', 'double') else to_double(xa)
        fb = xb if kb in ('float', 'double') else to_double(xb)
        return fa, fb
    if 'float' in (ka, kb):
        fa = xa if ka == 'float' else f32_round(xa)
        fb = xb if kb == 'float' else f32_round(xb)
        return fa, fb
    return xa, xb


def _rel(op, c):
    """c = -1/0/1"""
    return {'eq': c == 0, 'ne': c != 0, 'lt': c < 0, 'le': c <= 0, 'gt': c > 0, 'ge': c >= 0}[op]


def _cmp(x, y):
    return (x > y) - (x < y)


def value_compare(a, b, op, version='3.1'):
    """`a op b` for single atomic values (op in VALUE_OPS)."""
    if a.cls == 'untyped':
        a = Val('string', 'string', a.v)
    if b.cls == 'untyped':
        b = Val('string', 'string', b.v)
    ordered = op in ('lt', 'le', 'gt', 'ge')
    if a.cls != b.cls:
        return 'XPTY0004'
    cls = a.cls
    if cls == 'num':
        x, y = promote(a.v, b.v)
        if (isinstance(x, float) and x != x) or (isinstance(y, float) and y != y):
            return op == 'ne'
        return _rel(op, _cmp(x, y))
    if cls == 'string':
        return _rel(op, _cmp(a.v, b.v))           # Unicode code point collation
    if cls == 'boolean':
        return _rel(op, _cmp(a.v, b.v))
    if cls == 'QName':
        if ordered:
            return 'XPTY0004'
        return _rel(op, 0 if a.v == b.v else 1)
    if cls in DATETIME_CLASSES:
        if (a.tz is None) != (b.tz is None):
            return UNDECIDED                      # implicit timezone: other property
        if cls in GREGORIAN:
            if ordered:
                return 'XPTY0004'
            return _rel(op, 0 if a.v == b.v else 1)
        return _rel(op, _cmp(a.v, b.v))
    if cls == 'duration':
        if ordered:
            if a.tname == b.tname and a.tname in ('yearMonthDuration', 'dayTimeDuration'):
                return _rel(op, _cmp(a.v, b.v))   # one of the two components is always 0
            return 'XPTY0004'
        return _rel(op, 0 if a.v == b.v else 1)
    if cls in ('hexBinary', 'base64Binary'):
        if ordered:
            if version == '3.1':
                return _rel(op, _cmp(a.v, b.v))   # octet-wise, shorter prefix first
            return 'XPTY0004'
        return _rel(op, 0 if a.v == b.v else 1)
    return UNDECIDED


def general_convert(a, b, namespaces=None):
    """untypedAtomic conversion rules of a general comparison (XPath 2.0/3.1 section 3.5.2).
    -> (a2, b2) | 'FORG0001' | UNDECIDED"""
    def conv(u, other):
        if other.cls == 'untyped' or (other.cls == 'string' and other.tname != 'anyURI'):
            return Val('string', 'string', u.v, lex=u.lex)     # instance of xs:string (incl. derived) or untyped
        if other.cls == 'num':
            return make_float('double', u.v)
        if other.cls == 'QName':
            return None
        if other.tname in DURATION_TYPES:
            return parse_duration(other.tname, u.v)
        return parse_atomic(other.tname, u.v, namespaces)

    try:
        if a.cls == 'untyped' and b.cls == 'untyped':
            a2, b2 = Val('string', 'string', a.v, lex=a.lex), Val('string', 'string', b.v, lex=b.lex)
        elif a.cls == 'untyped':
            a2, b2 = conv(a, b), b
        elif b.cls == 'untyped':
            a2, b2 = a, conv(b, a)
        else:
            a2, b2 = a, b
    except LexicalError:
        return 'FORG0001'
    if a2 is None or b2 is None:
        return UNDECIDED                          # untypedAtomic -> QName cast: version dependent
    return a2, b2


def general_pair(a, b, gop, version='3.1', namespaces=None):
    """one pair of a general comparison (non-compatibility mode): untypedAtomic conversion + value comparison"""
    c = general_convert(a, b, namespaces)
    if isinstance(c, str):
        return c
    return value_compare(c[0], c[1], G2V[gop], version)


def general_compare(left, right, gop, version='3.1', namespaces=None):
    """-> True / False / error code / EITHER / UNDECIDED ; also the set of per-pair outcomes"""
    outs = [general_pair(a, b, gop, version, namespaces) for a in left for b in right]
    if any(o == UNDECIDED for o in outs):
        return UNDECIDED, outs
    errs = sorted({o for o in outs if isinstance(o, str)})
    if any(o is True for o in outs):
        return (EITHER if errs else True), outs
    if errs:
        return ('|'.join(errs)), outs             # any of the listed codes
    return False, outs


# ----------------------------------------------------------------- EBV
def ebv(items):
    """items: list of ('node',) | ('atomic', Val) | ('other', label) -> bool or 'FORG0006'"""
    if not items:
        return False
    if items[0][0] == 'node':
        return True
    if len(items) > 1:
        return 'FORG0006'
    it = items[0]
    if it[0] != 'atomic':
        return 'FORG0006'
    v = it[1]
    if v.cls == 'boolean':
        return v.v
    if v.cls in ('string', 'untyped'):
        return len(v.v) > 0
    if v.cls == 'num':
        x = v.v[1]
        if isinstance(x, float) and x != x:
            return False
        return x != 0
    return 'FORG0006'


# ----------------------------------------------------------------- XPath 1.0 comparisons
_NUM10 = re.compile(r'^-?(\d+(\.\d*)?|\.\d+)$')
XML_WS = ' \t\r\n'


def number10(s):
    """XPath 1.0 number(string)"""
    t = s.strip(XML_WS)
    if not _NUM10.match(t):
        return math.nan
    return to_double(parse_decimal(t if not t.startswith('-.') else '-0' + t[1:]))


def number20(s):
    """fn:number(string): cast to xs:double, NaN when not castable"""
    try:
        return make_float('double', s).v[1]
    except LexicalError:
        return math.nan


def _num_rel(op, x, y):
    if x != x or y != y:
        return op == '!='
    return {'=': x == y, '!=': x != y, '<': x < y, '<=': x <= y, '>': x > y, '>=': x >= y}[op]


def compat_compare(left, right, op, number=number10, boolean_first=False):
    """XPath 1.0 section 3.4.  With boolean_first=True: XPath 2.0 section 3.5.2 in compatibility mode restricted
    to the four 1.0 types - identical except rule 1: a boolean operand converts the other operand to its
    effective boolean value for *every* operator (XPath 1.0 converts both to numbers for < <= > >= when
    neither operand is a node-set).
    Operands: ('nodeset', [string-values]) | ('string', s) | ('number', float) | ('boolean', bool)"""
    lk, lv = left
    rk, rv = right
    if boolean_first and (lk == 'boolean' or rk == 'boolean'):
        def tb(k, v):
            if k in ('nodeset', 'string'):
                return len(v) > 0
            if k == 'number':
                return not (v != v or v == 0)
            return v
        x, y = tb(lk, lv), tb(rk, rv)
        if op in ('<', '<=', '>', '>='):
            return _num_rel(op, float(x), float(y))
        return (x == y) if op == '=' else (x != y)

    def to_bool(k, v):
        if k == 'nodeset':
            return len(v) > 0
        if k == 'string':
            return len(v) > 0
        if k == 'number':
            return not (v != v or v == 0)
        return v

    def to_num(k, v):
        if k == 'string':
            return number(v)
        if k == 'boolean':
            return 1.0 if v else 0.0
        return v

    relational = op in ('<', '<=', '>', '>=')
    if lk == 'nodeset' and rk == 'nodeset':
        if relational:
            return any(_num_rel(op, number(x), number(y)) for x in lv for y in rv)
        return any((x == y) if op == '=' else (x != y) for x in lv for y in rv)
    if lk == 'nodeset' or rk == 'nodeset':
        ns, (ok, ov) = (lv, right) if lk == 'nodeset' else (rv, left)
        swap = lk != 'nodeset'
        if ok == 'boolean':
            x, y = to_bool('nodeset', ns), ov
            if swap:
                x, y = y, x
            if relational:
                return _num_rel(op, float(x), float(y))
            return (x == y) if op == '=' else (x != y)
        if ok == 'number' or relational:
            y = to_num(ok, ov)
            for s in ns:
                x = number(s)
                if _num_rel(op, *((y, x) if swap else (x, y))):
                    return True
            return False
        # string, = or !=
        return any((s == ov) if op == '=' else (s != ov) for s in ns)
    # neither is a node-set
    if relational:
        return _num_rel(op, to_num(lk, lv), to_num(rk, rv))
    if lk == 'boolean' or rk == 'boolean':
        x, y = to_bool(lk, lv), to_bool(rk, rv)
        return (x == y) if op == '=' else (x != y)
    if lk == 'number' or rk == 'number':
        return _num_rel(op, to_num(lk, lv), to_num(rk, rv))
    return (lv == rv) if op == '=' else (lv != rv)
