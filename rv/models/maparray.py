"""Reference model of XPath 3.1 maps and arrays (F&O 3.1 section 17) as plain Python values.

Shares no code with elementpath.  Transcribed from the W3C text:

* op:same-key (17.1.1): string/anyURI/untypedAtomic by code points; decimal/double/float by exact
  mathematical value (NaN = NaN, +-INF, +0 = -0, xs:float 0.1 != xs:double 0.1); the eight date/time
  types need the same type, "both or neither have a timezone" and eq; boolean / hexBinary /
  base64Binary / duration / QName need eq (which is undefined, hence false, across hexBinary and
  base64Binary, and defined across the duration subtypes).
* map:* (17.3) and array:* (17.3') function definitions with their error conditions.

Model values
    sequence  = tuple of items
    item      = ('A', src)            atomic, src is the XPath literal (index into ATOMS)
              | ('N', name)           node of the fixed document (index into NODES)
              | ('R', (seq, ...))     array
              | ('M', {canon: (ksrc, seq)})   map; canon is the same-key class of the key
Nothing here mutates a value in place.
"""
import struct
from decimal import Decimal
from fractions import Fraction


def f32(x):
    """nearest IEEE single of a Python float (as a Python float)"""
    try:
        return struct.unpack('f', struct.pack('f', x))[0]
    except OverflowError:
        return float('inf') if x > 0 else float('-inf')


def fmt_double(x):
    if x != x:
        return 'NaN'
    if x == float('inf'):
        return 'INF'
    if x == float('-inf'):
        return '-INF'
    if x == 0:
        return '-0' if str(x).startswith('-') else '0'
    return repr(float(x))


class Atom:
    __slots__ = ('src', 'family', 'kc', 'canon', 'label', 'text', 'tags')

    def __init__(self, src, family, kc, canon, label, text, tags=()):
        self.src, self.family, self.kc, self.canon = src, family, kc, canon
        self.label, self.text, self.tags = label, text, frozenset(tags)


ATOMS = {}
ORDER = []          # deterministic order of sources
FAMILIES = {}


def _add(a):
    assert a.src not in ATOMS, a.src
    ATOMS[a.src] = a
    ORDER.append(a.src)
    FAMILIES.setdefault(a.family, []).append(a.src)


def _num_canon(fr):
    return ('n', fr.numerator, fr.denominator)


def _int(src, fam, label='integer'):
    v = int(src.split("'")[1]) if "'" in src else int(src)
    _add(Atom(src, fam, 'integer', _num_canon(Fraction(v)), label, str(v)))


def _dec(src, fam):
    lex = src.split("'")[1] if "'" in src else src
    d = Decimal(lex)
    fr = Fraction(d)
    if fr.denominator == 1:
        text = str(fr.numerator)
    else:
        text = format(d.normalize(), 'f')
    _add(Atom(src, fam, 'decimal', _num_canon(fr), 'decimal', text))


def _dbl(src, fam, single=False):
    lex = src.split("'")[1] if "'" in src else src
    special = {'NaN': 'nan', 'INF': 'inf', '-INF': '-inf'}
    x = float(special.get(lex, lex))
    exact = True
    if single:
        y = f32(x)
        exact = (y == x) or x != x
        x = y
    tags = set()
    if x != x:
        canon = ('n', 'NaN')
        tags.add('nan')
    elif x in (float('inf'), float('-inf')):
        canon = ('n', 'INF' if x > 0 else '-INF')
        tags.add('inf')
    else:
        canon = _num_canon(Fraction(x))
        if x == 0 and str(x).startswith('-'):
            tags.add('negzero')
        if not exact:
            tags.add('float-inexact')
    _add(Atom(src, fam, 'float' if single else 'double', canon,
              'float' if single else 'double', fmt_double(x), tags))


def _str(src, fam, kc='string', label=None):
    lex = src.split("'")[1]
    _add(Atom(src, fam, kc, ('s', lex), label or kc, lex))


def _other(src, fam, kc, canon, label, text, tags=()):
    _add(Atom(src, fam, kc, canon, label, text, tags))


# ---- the key / atomic value pool ---------------------------------------------------------------
# family = group of literals that are the same key or are easily confused with one another
_int('1', 'one'); _dec("xs:decimal('1.0')", 'one'); _dbl('1e0', 'one'); _dbl("xs:float('1')", 'one', True)
_other('true()', 'one', 'boolean', ('b', True), 'boolean', 'true')
_str("'1'", 'one'); _str("xs:untypedAtomic('1')", 'one', 'untypedAtomic'); _int("xs:byte('1')", 'one', 'byte')
_int('0', 'zero'); _dec('0.0', 'zero'); _dbl('0e0', 'zero'); _dbl('-0e0', 'zero'); _dbl("xs:float('-0')", 'zero', True)
_other('false()', 'zero', 'boolean', ('b', False), 'boolean', 'false')
_dec('0.1', 'tenth'); _dbl('0.1e0', 'tenth'); _dbl("xs:float('0.1')", 'tenth', True)
_dec('0.5', 'half'); _dbl('0.5e0', 'half'); _dbl("xs:float('0.5')", 'half', True)
_int('9007199254740993', 'big'); _int('9007199254740992', 'big'); _dbl('9007199254740992e0', 'big')
_dbl("xs:float('9007199254740992')", 'big', True)
_dbl("xs:double('NaN')", 'nan'); _dbl("xs:float('NaN')", 'nan', True)
_dbl("xs:double('INF')", 'inf'); _dbl("xs:float('INF')", 'inf', True); _dbl("xs:double('-INF')", 'inf')
_int('2', 'two'); _dbl('2e0', 'two'); _int('3', 'three'); _int('-1', 'minus'); _dec('-1.0', 'minus')
_str("'a'", 'a'); _str("xs:anyURI('a')", 'a', 'anyURI', 'AnyURI'); _str("xs:untypedAtomic('a')", 'a', 'untypedAtomic')
_str("xs:NCName('a')", 'a', 'string', 'NCName')
_other("xs:QName('a')", 'a', 'QName', ('q', '', 'a'), 'QName', 'a')
_str("'b'", 'b'); _str("xs:anyURI('b')", 'b', 'anyURI', 'AnyURI'); _str("'B'", 'b')
_str("'c'", 'c'); _str("'key'", 'key')
_str("''", 'empty'); _str("xs:untypedAtomic('')", 'empty', 'untypedAtomic'); _str("xs:anyURI('')", 'empty', 'anyURI', 'AnyURI')
_str("'true'", 'true'); _str("xs:untypedAtomic('true')", 'true', 'untypedAtomic')
_other("fn:QName('u','p:a')", 'qn', 'QName', ('q', 'u', 'a'), 'QName', 'p:a@u')
_other("fn:QName('u','q:a')", 'qn', 'QName', ('q', 'u', 'a'), 'QName', 'q:a@u')
_other("fn:QName('w','p:a')", 'qn', 'QName', ('q', 'w', 'a'), 'QName', 'p:a@w')
# dates: canon = (type, has-timezone, instant normalised to UTC or local fields)
_other("xs:date('2020-01-01')", 'date', 'date', ('date', False, '2020-01-01'), 'Date10', '2020-01-01')
_other("xs:date('2020-01-01Z')", 'date', 'date', ('date', True, '2020-01-01T00:00Z'), 'Date10', '2020-01-01Z', ['tz'])
_other("xs:date('2020-01-01+00:00')", 'date', 'date', ('date', True, '2020-01-01T00:00Z'), 'Date10', '2020-01-01Z', ['tz'])
_other("xs:date('2020-01-01+01:00')", 'date', 'date', ('date', True, '2019-12-31T23:00Z'), 'Date10', '2020-01-01+01:00', ['tz'])
_other("xs:dateTime('2020-01-01T00:00:00')", 'date', 'dateTime', ('dateTime', False, '2020-01-01T00:00:00'),
       'DateTime10', '2020-01-01T00:00:00')
_other("xs:dateTime('2020-01-01T00:00:00Z')", 'date', 'dateTime', ('dateTime', True, '2020-01-01T00:00:00Z'),
       'DateTime10', '2020-01-01T00:00:00Z', ['tz'])
_other("xs:dateTime('2020-01-01T01:00:00+01:00')", 'date', 'dateTime', ('dateTime', True, '2020-01-01T00:00:00Z'),
       'DateTime10', '2020-01-01T01:00:00+01:00', ['tz'])
_other("xs:time('12:00:00')", 'time', 'time', ('time', False, '12:00:00'), 'Time', '12:00:00')
_other("xs:time('12:00:00Z')", 'time', 'time', ('time', True, '12:00:00Z'), 'Time', '12:00:00Z', ['tz'])
_other("xs:time('13:00:00+01:00')", 'time', 'time', ('time', True, '12:00:00Z'), 'Time', '13:00:00+01:00', ['tz'])
_other("xs:gYear('2020')", 'gyear', 'gYear', ('gYear', False, '2020'), 'GregorianYear10', '2020')
_other("xs:gYear('2020Z')", 'gyear', 'gYear', ('gYear', True, '2020Z'), 'GregorianYear10', '2020Z', ['tz'])
# durations: canon = (months, seconds); eq is defined across xs:duration and its two subtypes
_other("xs:yearMonthDuration('P0M')", 'dur0', 'duration', ('dur', 0, 0), 'YearMonthDuration', 'P0M')
_other("xs:dayTimeDuration('PT0S')", 'dur0', 'duration', ('dur', 0, 0), 'DayTimeDuration', 'PT0S')
_other("xs:duration('PT0S')", 'dur0', 'duration', ('dur', 0, 0), 'Duration', 'PT0S')
_other("xs:duration('P1Y')", 'dur1', 'duration', ('dur', 12, 0), 'Duration', 'P1Y')
_other("xs:yearMonthDuration('P12M')", 'dur1', 'duration', ('dur', 12, 0), 'YearMonthDuration', 'P1Y')
_other("xs:yearMonthDuration('P1M')", 'dur1', 'duration', ('dur', 1, 0), 'YearMonthDuration', 'P1M')
_other("xs:dayTimeDuration('PT1H')", 'dur2', 'duration', ('dur', 0, 3600), 'DayTimeDuration', 'PT1H')
_other("xs:dayTimeDuration('PT60M')", 'dur2', 'duration', ('dur', 0, 3600), 'DayTimeDuration', 'PT1H')
_other("xs:hexBinary('00')", 'bin', 'hexBinary', ('hex', '00'), 'HexBinary', '00')
_other("xs:base64Binary('AA==')", 'bin', 'base64Binary', ('b64', '00'), 'Base64Binary', 'AA==')
_other("xs:hexBinary('0A')", 'bin', 'hexBinary', ('hex', '0a'), 'HexBinary', '0A')
_other("xs:hexBinary('0a')", 'bin', 'hexBinary', ('hex', '0a'), 'HexBinary', '0A')

NUMERIC_KC = ('integer', 'decimal', 'double', 'float')
STRING_KC = ('string', 'anyURI', 'untypedAtomic')
TEMPORAL_KC = ('date', 'dateTime', 'time', 'gYear')
NCNAME_KEYS = ["'a'", "'b'", "'c'", "'key'", "'true'", "'B'"]       # usable as  ?name
LIT_INT_KEYS = ['0', '1', '2', '3', '9007199254740993']              # usable as  ?1

# fixed document  <r><a>1</a><b x="2">two</b></r>
NODES = {
    'a': ('/r/a', 'EtreeElementNode:a'),
    'b': ('/r/b', 'EtreeElementNode:b'),
    'x': ('/r/b/@x', 'TextAttributeNode:x'),
    't': ('/r/b/text()', 'TextNode:None'),
}

# (label, text) as observed -> canon must be a function (sanity of the hand-written table)
_seen = {}
for _s in ORDER:
    _a = ATOMS[_s]
    _k = (_a.label, _a.text)
    assert _seen.setdefault(_k, _a.canon) == _a.canon, _k


def canon(src):
    return ATOMS[src].canon


def same_key(s1, s2):
    return ATOMS[s1].canon == ATOMS[s2].canon


def pair_label(s1, s2):
    """mechanism label of a pair of keys (for the classifier)"""
    a, b = ATOMS[s1], ATOMS[s2]
    na, nb = a.kc in NUMERIC_KC, b.kc in NUMERIC_KC
    if na and nb:
        if 'nan' in a.tags or 'nan' in b.tags:
            return 'nan'
        if 'inf' in a.tags or 'inf' in b.tags:
            return 'inf'
        if ('negzero' in a.tags) != ('negzero' in b.tags) and a.canon == b.canon:
            return 'zero-sign'
        if a.canon != b.canon:
            if 'float-inexact' in a.tags or 'float-inexact' in b.tags:
                return 'float-inexact~numeric'
            return 'numeric-inexact'
        return 'numeric-types'
    if (a.kc == 'untypedAtomic') != (b.kc == 'untypedAtomic') and \
            not (a.kc in STRING_KC and b.kc in STRING_KC):
        return 'untypedAtomic~other'
    both_str = a.kc in STRING_KC and b.kc in STRING_KC
    ca = 'numeric' if na else a.kc if both_str or a.kc not in STRING_KC else 'string-like'
    cb = 'numeric' if nb else b.kc if both_str or b.kc not in STRING_KC else 'string-like'
    lab = '~'.join(sorted([ca, cb]))
    if a.kc in TEMPORAL_KC and b.kc in TEMPORAL_KC and a.kc != b.kc:
        return 'temporal/cross-type'
    if a.kc == b.kc and a.kc in TEMPORAL_KC:
        if ('tz' in a.tags) != ('tz' in b.tags):
            return 'temporal/tz~notz'
        return 'temporal/tz-shift'
    return lab


# ---- values ------------------------------------------------------------------------------------
EMPTY = ()


def is_map(seq):
    return len(seq) == 1 and seq[0][0] == 'M'


def is_array(seq):
    return len(seq) == 1 and seq[0][0] == 'R'


def weight(seq):
    n = 0
    for it in seq:
        n += 1
        if it[0] == 'R':
            for m in it[1]:
                n += weight(m)
        elif it[0] == 'M':
            for k, (ks, v) in it[1].items():
                n += 1 + weight(v)
    return n


def depth(seq):
    d = 0
    for it in seq:
        if it[0] == 'R':
            d = max(d, 1 + max([depth(m) for m in it[1]] or [0]))
        elif it[0] == 'M':
            d = max(d, 1 + max([depth(v) for ks, v in it[1].values()] or [0]))
    return d


class XErr(Exception):
    def __init__(self, *codes):
        self.codes = frozenset(codes)


def mk_map(entries):
    """map constructor: entries = [(ksrc, seq)]; duplicate keys -> XQDY0137"""
    d = {}
    for ks, v in entries:
        c = canon(ks)
        if c in d:
            raise XErr('XQDY0137')
        d[c] = (ks, tuple(v))
    return (('M', d),)


def mk_array(members):
    return (('R', tuple(tuple(m) for m in members)),)


def _m(seq):
    assert is_map(seq)
    return seq[0][1]


def _r(seq):
    assert is_array(seq)
    return seq[0][1]


def integer(n):
    return (('I', int(n)),)     # computed xs:integer (size, count); described like a literal integer


def boolean(b):
    return (('A', 'true()' if b else 'false()'),)


# ---- map functions -----------------------------------------------------------------------------
def map_size(m):
    return integer(len(_m(m)))


def map_keys(m):
    return tuple(('A', ks) for ks, v in _m(m).values())


def map_contains(m, k):
    return boolean(canon(k) in _m(m))


def map_get(m, k):
    e = _m(m).get(canon(k))
    return e[1] if e is not None else EMPTY


def map_put(m, k, v):
    d = dict(_m(m))
    c = canon(k)
    d.pop(c, None)
    d[c] = (k, tuple(v))      # "a new entry whose key is $key"
    return (('M', d),)


def map_remove(m, ks):
    d = dict(_m(m))
    for k in ks:
        d.pop(canon(k), None)
    return (('M', d),)


def map_entry(k, v):
    return (('M', {canon(k): (k, tuple(v))}),)


def map_merge(maps, policy):
    """policy in use-first (default) use-last combine reject use-any; returns (value, ambiguous)
    ambiguous = set of canons whose surviving key *type* the 3.1 text does not pin down, and for
    use-any also the set of admissible values"""
    if policy not in ('use-first', 'use-last', 'combine', 'reject', 'use-any'):
        raise XErr('FOJS0005')
    d = {}
    amb = {}
    for m in maps:
        for c, (ks, v) in _m(m).items():
            if c not in d:
                d[c] = (ks, v)
                continue
            if policy == 'reject':
                raise XErr('FOJS0003')
            old_ks, old_v = d[c]
            if ATOMS[old_ks].label != ATOMS[ks].label or ATOMS[old_ks].text != ATOMS[ks].text:
                amb.setdefault(c, {'keys': True})
            if policy == 'use-first':
                pass
            elif policy == 'use-last':
                d.pop(c)
                d[c] = (ks, v)
            elif policy == 'combine':
                d[c] = (old_ks, tuple(old_v) + tuple(v))
            else:
                amb.setdefault(c, {}).setdefault('values', [old_v]).append(v)
    return (('M', d),), amb


def map_find(inp, k):
    c = canon(k)
    found = []

    def walk(seq):
        for it in seq:
            if it[0] == 'R':
                for mem in it[1]:
                    walk(mem)
            elif it[0] == 'M':
                for c2, (ks, v) in it[1].items():
                    if c2 == c:
                        found.append(v)
                    walk(v)
    walk(inp)
    return mk_array(found)


def map_for_each_pairs(m):
    """map:for-each($m, function($k,$v){[$k,$v]}) - order is implementation-dependent"""
    return tuple(('R', ((('A', ks),), v)) for ks, v in _m(m).values())


def map_values_flat(m):
    out = ()
    for ks, v in _m(m).values():
        out += tuple(v)
    return out


# ---- array functions ---------------------------------------------------------------------------
def array_size(a):
    return integer(len(_r(a)))


def array_get(a, i):
    r = _r(a)
    if i < 1 or i > len(r):
        raise XErr('FOAY0001')
    return r[i - 1]


def array_put(a, i, v):
    r = _r(a)
    if i < 1 or i > len(r):
        raise XErr('FOAY0001')
    return (('R', r[:i - 1] + (tuple(v),) + r[i:]),)


def array_append(a, v):
    return (('R', _r(a) + (tuple(v),)),)


def array_subarray(a, start, length=None):
    r = _r(a)
    codes = set()
    if start < 1 or start > len(r) + 1:
        codes.add('FOAY0001')
    if length is not None:
        if length < 0:
            codes.add('FOAY0002')
        if start + length > len(r) + 1:
            codes.add('FOAY0001')
    if codes:
        raise XErr(*codes)
    if length is None:
        return (('R', r[start - 1:]),)
    return (('R', r[start - 1:start - 1 + length]),)


def array_remove(a, positions):
    r = _r(a)
    for p in positions:
        if p < 1 or p > len(r):
            raise XErr('FOAY0001')
    ps = set(positions)
    return (('R', tuple(m for n, m in enumerate(r, 1) if n not in ps)),)


def array_insert_before(a, i, v):
    r = _r(a)
    if i < 1 or i > len(r) + 1:
        raise XErr('FOAY0001')
    return (('R', r[:i - 1] + (tuple(v),) + r[i - 1:]),)


def array_head(a):
    r = _r(a)
    if not r:
        raise XErr('FOAY0001')
    return r[0]


def array_tail(a):
    r = _r(a)
    if not r:
        raise XErr('FOAY0001')
    return (('R', r[1:]),)


def array_reverse(a):
    return (('R', tuple(reversed(_r(a)))),)


def array_join(arrays):
    out = ()
    for a in arrays:
        out += _r(a)
    return (('R', out),)


def array_flatten(seq):
    out = []

    def walk(s):
        for it in s:
            if it[0] == 'R':
                for mem in it[1]:
                    walk(mem)
            else:
                out.append(it)
    walk(seq)
    return tuple(out)


def array_members_flat(a):
    out = ()
    for m in _r(a):
        out += m
    return out


# the fixed function items used with the higher-order array functions: name -> (XPath text, model)
FOR_EACH_FUNCS = {
    'wrap': ('function($x){[$x]}', lambda m: mk_array([m])),
    'dup': ('function($x){($x, $x)}', lambda m: tuple(m) + tuple(m)),
    'count': ('function($x){count($x)}', lambda m: integer(len(m))),
    'empty': ('function($x){()}', lambda m: EMPTY),
}
FILTER_FUNCS = {
    'nonempty': ('function($x){exists($x)}', lambda m: len(m) > 0),
    'single': ('function($x){count($x) eq 1}', lambda m: len(m) == 1),
    'none': ('function($x){false()}', lambda m: False),
}


def array_for_each(a, fname):
    f = FOR_EACH_FUNCS[fname][1]
    return (('R', tuple(f(m) for m in _r(a))),)


def array_filter(a, fname):
    f = FILTER_FUNCS[fname][1]
    return (('R', tuple(m for m in _r(a) if f(m))),)


def array_fold_left(a):
    """array:fold-left($a, (), function($z,$x){($z, [$x])})"""
    out = ()
    for m in _r(a):
        out = out + mk_array([m])
    return out


def array_fold_right(a):
    """array:fold-right($a, (), function($x,$z){($z, [$x])})"""
    out = ()
    for m in reversed(_r(a)):
        out = out + mk_array([m])
    return out


def array_for_each_pair(a, b):
    """array:for-each-pair($a, $b, function($x,$y){[$x,$y]})"""
    return (('R', tuple(mk_array([x, y]) for x, y in zip(_r(a), _r(b)))),)
