"""JSON value model for C17 (shares no code with elementpath).

A *value spec* is the neutral, JSON-serialisable description of a JSON-representable XDM value:

    ['s', text] string            ['b', bool] boolean         ['e'] empty sequence / JSON null
    ['i', 'digits'] xs:integer    ['d', repr] xs:double       ['dec', 'lexical'] xs:decimal
    ['a', [spec, ...]] array      ['m', [[key, spec], ...]] map with distinct string keys

The *model value* of a spec is the plain Python value an RFC 8259 reader assigns to the
corresponding JSON text, with every number taken as an IEEE double (a JSON number is an
xs:double for fn:parse-json and for fn:xml-to-json): dict / list / str / bool / None / float.
"""
import json
import math
from decimal import Decimal
from fractions import Fraction

MAXD = Fraction(1.7976931348623157e308) + Fraction(2) ** 969  # rounds to INF from here on


# --------------------------------------------------------------------------- numbers
def to_double(x):
    """nearest double of an int / Decimal / Fraction / float / numeric lexical (round-half-even);
    +-inf when out of range"""
    if isinstance(x, bool):
        raise TypeError('boolean is not a number')
    if isinstance(x, float):
        return x
    if isinstance(x, str):
        x = Decimal(x)
    if isinstance(x, Decimal):
        if not x.is_finite():
            return float(x)
        x = Fraction(x)
    if isinstance(x, int):
        x = Fraction(x)
    if abs(x) >= MAXD:
        return math.inf if x > 0 else -math.inf
    return x.numerator / x.denominator   # int / int true division is correctly rounded


def number_class(spec):
    t = spec[0]
    if t == 'num':
        try:
            d = to_double(spec[1])
        except Exception:
            return 'number/unreadable'
        if d == 0:
            return 'number/zero'
        return 'number/' + ('exponent-repr' if 'e' in repr(d) else 'fixed-repr')
    if t == 'i':
        return 'integer/' + ('beyond-2^53' if abs(int(spec[1])) > 2 ** 53 else 'small')
    if t == 'dec':
        d = Decimal(spec[1])
        exp = d.normalize().as_tuple().exponent
        nd = -exp if exp < 0 else 0
        return 'decimal/fraction-digits' + ('<=2' if nd <= 2 else '>2')
    r = repr(float(spec[1]))
    return 'double/' + ('exponent-repr' if 'e' in r else 'fixed-repr')


# --------------------------------------------------------------------------- strings
NAMED_WS = '\n\r\t'


def is_xml_char(cp):
    return cp in (0x9, 0xA, 0xD) or 0x20 <= cp <= 0xD7FF or 0xE000 <= cp <= 0xFFFD or 0x10000 <= cp <= 0x10FFFF


def char_class(ch):
    cp = ord(ch)
    if ch == '"':
        return 'quote'
    if ch == '\\':
        return 'backslash'
    if ch == '/':
        return 'solidus'
    if ch in '<>&':
        return 'xml-markup'
    if ch == "'":
        return 'apos'
    if cp == 0:
        return 'nul'
    if ch in NAMED_WS:
        return 'tab-lf-cr'
    if ch in '\b\f':
        return 'bs-ff'
    if cp < 0x20:
        return 'c0-other'
    if ch == ' ':
        return 'space'
    if cp < 0x7F:
        return 'ascii'
    if cp <= 0x9F:
        return 'del-c1'
    if 0xD800 <= cp <= 0xDFFF:
        return 'lone-surrogate'
    if cp in (0xFFFE, 0xFFFF):
        return 'nonchar-fffe-ffff'
    if cp > 0xFFFF:
        return 'astral'
    if cp < 0x100:
        return 'latin1'
    return 'bmp'


PLAIN = {'ascii', 'space', 'latin1', 'bmp', 'apos'}


def string_classes(s):
    """sorted set of the non-plain character classes of a string (plus structural markers)"""
    cs = {char_class(c) for c in s}
    special = cs - PLAIN
    if not s:
        special.add('empty')
    elif s != s.strip(' '):
        special.add('edge-space')
    if 'backslash' in cs:
        for i, c in enumerate(s[:-1]):
            if c == '\\' and s[i + 1] in 'ubfnrt"/\\':
                special.add('escape-lookalike')
                break
    return sorted(special)


def string_label(s):
    cs = string_classes(s)
    if not cs:
        cs = sorted({char_class(c) for c in s} & {'latin1', 'bmp'}) or ['plain']
    return '+'.join(cs[:3])


# --------------------------------------------------------------------------- spec -> model
def model_of(spec, replace_nonxml=False):
    t = spec[0]
    if t == 's':
        return fffd(spec[1]) if replace_nonxml else spec[1]
    if t == 'b':
        return bool(spec[1])
    if t == 'e':
        return None
    if t == 'i':
        return to_double(int(spec[1]))
    if t == 'd':
        return float(spec[1])
    if t in ('dec', 'num'):
        return to_double(Decimal(spec[1]))
    if t == 'a':
        return [model_of(x, replace_nonxml) for x in spec[1]]
    if t == 'm':
        return {(fffd(k) if replace_nonxml else k): model_of(v, replace_nonxml) for k, v in spec[1]}
    raise ValueError('bad spec %r' % (spec,))


def fffd(s):
    return ''.join(c if is_xml_char(ord(c)) else '\ufffd' for c in s)


def spec_of_python(v):
    """spec of a value produced by json.loads(..., parse_float=Decimal-ish): numbers are kept as
    ['num', lexical-ish] and modelled as doubles"""
    if v is None:
        return ['e']
    if isinstance(v, bool):
        return ['b', v]
    if isinstance(v, str):
        return ['s', v]
    if isinstance(v, int):
        return ['i', str(v)]
    if isinstance(v, float):
        return ['d', repr(v)]
    if isinstance(v, Decimal):
        return ['dec', str(v)]
    if isinstance(v, list):
        return ['a', [spec_of_python(x) for x in v]]
    if isinstance(v, dict):
        return ['m', [[k, spec_of_python(x)] for k, x in v.items()]]
    raise ValueError('not a JSON value: %r' % (v,))


# --------------------------------------------------------------------------- independent reader
class NotJSON(Exception):
    pass


def _reject_constant(name):
    raise NotJSON('constant %s is not JSON' % name)


def _pairs(pairs):
    d = {}
    for k, v in pairs:
        if k in d:
            raise DuplicateKey(k)
        d[k] = v
    return d


class DuplicateKey(Exception):
    pass


def _num(s):
    try:
        return to_double(Decimal(s))
    except Exception:
        return float(s)


def loads(text):
    """RFC 8259 reading of a text with numbers as doubles -> model value.
    raises NotJSON / DuplicateKey"""
    try:
        return json.loads(text, parse_constant=_reject_constant, object_pairs_hook=_pairs,
                          parse_float=_num, parse_int=_num)
    except (NotJSON, DuplicateKey):
        raise
    except (ValueError, RecursionError) as e:
        raise NotJSON(str(e)[:120])


# --------------------------------------------------------------------------- comparison
def same_number(a, b):
    if a != a or b != b:
        return False
    return a == b


def diff(spec, got, where='top', replace_nonxml=False):
    """first difference between the model of `spec` and the model value `got`
    -> None | (mechanism class, expected, got).  Traversal order is the spec's order."""
    t = spec[0]
    if t == 's':
        exp = fffd(spec[1]) if replace_nonxml else spec[1]
        if isinstance(got, str) and got == exp:
            return None
        return ('string/' + string_label(spec[1]), exp, got)
    if t == 'b':
        if isinstance(got, bool) and got == bool(spec[1]):
            return None
        return ('boolean', spec[1], got)
    if t == 'e':
        if got is None:
            return None
        return ('empty-sequence/' + where, None, got)
    if t in ('i', 'd', 'dec', 'num'):
        exp = model_of(spec)
        if isinstance(got, float) and not isinstance(got, bool) and same_number(exp, got):
            return None
        return (number_class(spec), exp, got)
    if t == 'a':
        if not isinstance(got, list):
            return ('array/not-an-array' if spec[1] else 'array/empty', 'array', got)
        if len(got) != len(spec[1]):
            return ('array/length', len(spec[1]), len(got))
        for s, g in zip(spec[1], got):
            d = diff(s, g, 'array-member', replace_nonxml)
            if d is not None:
                return d
        return None
    if t == 'm':
        if not isinstance(got, dict):
            return ('map/not-a-map' if spec[1] else 'map/empty', 'map', got)
        keys = [(fffd(k) if replace_nonxml else k) for k, _ in spec[1]]
        for k0, k in zip([k for k, _ in spec[1]], keys):
            if k not in got:
                return ('key/' + string_label(k0), k, sorted(got)[:6])
        if len(got) != len(set(keys)):
            return ('map/extra-keys', sorted(keys)[:6], sorted(got)[:6])
        for (k0, s), k in zip(spec[1], keys):
            d = diff(s, got[k], 'map-value', replace_nonxml)
            if d is not None:
                return d
        return None
    raise ValueError('bad spec %r' % (spec,))


# --------------------------------------------------------------------------- JSON text writer
SHORT = {'"': '\\"', '\\': '\\\\', '\b': '\\b', '\f': '\\f', '\n': '\\n', '\r': '\\r', '\t': '\\t'}


def spell_char(ch, r, counts=None):
    """one of the RFC 8259 spellings of a character inside a string"""
    cp = ord(ch)
    must = ch in '"\\' or cp < 0x20 or 0xD800 <= cp <= 0xDFFF
    x = r.random()
    if not must and x < 0.75:
        if ch == '/' and r.random() < 0.5:
            how, out = 'solidus-escaped', '\\/'
        else:
            how, out = 'raw', ch
    elif ch in SHORT and x < 0.9:
        how, out = 'short', SHORT[ch]
    elif cp > 0xFFFF:
        v = cp - 0x10000
        hi, lo = 0xD800 + (v >> 10), 0xDC00 + (v & 0x3FF)
        fmt = r.choice(('\\u%04x\\u%04x', '\\u%04X\\u%04X', '\\u%04X\\u%04x'))
        how, out = 'u-surrogate-pair', fmt % (hi, lo)
    else:
        fmt = r.choice(('\\u%04x', '\\u%04X'))
        how, out = 'u-escape', fmt % cp
    if counts is not None:
        counts[how] = counts.get(how, 0) + 1
    return out


def spell_string(s, r, counts=None):
    return '"' + ''.join(spell_char(c, r, counts) for c in s) + '"'


def ws(r, p):
    if r.random() >= p:
        return ''
    return ''.join(r.choice(' \t\n\r ') for _ in range(r.randint(1, 3)))


def spell(spec, r, p_ws=0.3, counts=None):
    """JSON text of a spec; numbers of kind ['num', lexical] are written verbatim"""
    t = spec[0]
    if t == 's':
        return spell_string(spec[1], r, counts)
    if t == 'b':
        return 'true' if spec[1] else 'false'
    if t == 'e':
        return 'null'
    if t in ('i', 'dec', 'num'):
        return spec[1]
    if t == 'd':
        return repr(float(spec[1]))
    if t == 'a':
        return '[' + ws(r, p_ws) + (ws(r, p_ws) + ',' + ws(r, p_ws)).join(
            spell(x, r, p_ws, counts) for x in spec[1]) + ws(r, p_ws) + ']'
    if t == 'm':
        return '{' + ws(r, p_ws) + (ws(r, p_ws) + ',' + ws(r, p_ws)).join(
            spell_string(k, r, counts) + ws(r, p_ws) + ':' + ws(r, p_ws) + spell(v, r, p_ws, counts)
            for k, v in spec[1]) + ws(r, p_ws) + '}'
    raise ValueError('bad spec %r' % (spec,))


# --------------------------------------------------------------------------- escaped-form reader
HEX = '0123456789abcdefABCDEF'


def unescape_fragment(s):
    """value of a string in the 'escaped' representation of fn:json-to-xml(escape=true): JSON
    backslash escapes are interpreted, every other character (including a bare quote) stands for
    itself.  -> str | None when an escape is malformed"""
    out = []
    i, n = 0, len(s)
    rev = {'b': '\b', 'f': '\f', 'n': '\n', 'r': '\r', 't': '\t', '"': '"', '/': '/', '\\': '\\'}
    while i < n:
        c = s[i]
        if c != '\\':
            out.append(c)
            i += 1
            continue
        if i + 1 >= n:
            return None
        e = s[i + 1]
        if e in rev:
            out.append(rev[e])
            i += 2
        elif e == 'u':
            h = s[i + 2:i + 6]
            if len(h) < 4 or any(x not in HEX for x in h):
                return None
            out.append(chr(int(h, 16)))
            i += 6
        else:
            return None
    # join surrogate pairs the way a JSON reader does
    res = []
    k = 0
    while k < len(out):
        c = out[k]
        if 0xD800 <= ord(c) <= 0xDBFF and k + 1 < len(out) and 0xDC00 <= ord(out[k + 1]) <= 0xDFFF:
            res.append(chr(0x10000 + ((ord(c) - 0xD800) << 10) + (ord(out[k + 1]) - 0xDC00)))
            k += 2
        else:
            res.append(c)
            k += 1
    return ''.join(res)
