"""Reference model of the XPath string functions, transcribed from the specifications
(XPath 1.0 section 4.2, XPath and XQuery Functions and Operators 3.1 sections 5.2-5.6,
19.1.2 (casting to xs:string), RFC 3986 for the escaping functions).

Shares no code with the repository: strings are handled as sequences of code points and
every function is written from its definition, not optimised.
"""
import math
import re
from decimal import Decimal
from fractions import Fraction

INF = math.inf
XML_S = ' \t\n\r'          # XML production S: #x20 | #x9 | #xD | #xA

CODEPOINT = 'http://www.w3.org/2005/xpath-functions/collation/codepoint'
HACI = 'http://www.w3.org/2005/xpath-functions/collation/html-ascii-case-insensitive'


# ------------------------------------------------------------------ characters
def is_xml10_char(cp):
    """XML 1.0 production [2] Char"""
    return cp in (0x9, 0xA, 0xD) or 0x20 <= cp <= 0xD7FF or 0xE000 <= cp <= 0xFFFD or 0x10000 <= cp <= 0x10FFFF


def is_xml11_char(cp):
    """XML 1.1 production [2] Char: [#x1-#xD7FF] | [#xE000-#xFFFD] | [#x10000-#x10FFFF]"""
    return 0x1 <= cp <= 0xD7FF or 0xE000 <= cp <= 0xFFFD or 0x10000 <= cp <= 0x10FFFF


def all_xml10(s):
    return all(is_xml10_char(ord(c)) for c in s)


# ------------------------------------------------------------------ numbers
def fround(x):
    """fn:round / XPath 1.0 round() on a double: the integer closest to x, ties towards
    positive infinity; NaN and the infinities are returned unchanged."""
    if x != x or x == INF or x == -INF:
        return x
    if abs(x) >= 2.0 ** 52:      # every such double is already an integer
        return x
    return float(math.floor(Fraction(x) + Fraction(1, 2)))


def substring(s, start, length=None):
    """F&O 5.4.3: characters at positions p (1-based) with round(start) <= p [ < round(start) + round(length) ],
    all arithmetic and comparisons in xs:double (NaN compares false)."""
    rs = fround(start)
    if length is None:
        return ''.join(c for p, c in enumerate(s, 1) if rs <= p)
    end = rs + fround(length)    # double addition: -INF + INF = NaN
    return ''.join(c for p, c in enumerate(s, 1) if rs <= p and p < end)


_XP1_NUMBER = re.compile(r'^[ \t\r\n]*-?([0-9]+(\.[0-9]*)?|\.[0-9]+)[ \t\r\n]*$')


def xp1_number(v):
    """XPath 1.0 number(): string -> double (production Number with optional sign and
    surrounding whitespace, anything else NaN), boolean -> 1/0"""
    if isinstance(v, bool):
        return 1.0 if v else 0.0
    if isinstance(v, float):
        return v
    if isinstance(v, str):
        if _XP1_NUMBER.match(v) is None:
            return math.nan
        return float(v.strip(XML_S))
    raise TypeError(v)


def _plain_digits(x):
    """shortest round-trip decimal expansion of a finite non-zero double: (sign, digits, exponent10)
    meaning 0.d1d2d3... x 10^exponent10"""
    d = Decimal(repr(abs(x)))
    sign, digits, exp = d.as_tuple()
    digits = list(digits)
    while len(digits) > 1 and digits[-1] == 0:
        digits.pop()
        exp += 1
    while len(digits) > 1 and digits[0] == 0:
        digits.pop(0)
    return ('-' if x < 0 else ''), digits, exp     # value = int(digits) * 10^exp


def _positional(sign, digits, exp):
    ds = ''.join(str(d) for d in digits)
    if exp >= 0:
        return sign + ds + '0' * exp
    k = len(ds) + exp
    if k > 0:
        return sign + ds[:k] + '.' + ds[k:]
    return sign + '0.' + '0' * (-k) + ds


def xp1_string_of_number(x):
    """XPath 1.0 string(): NaN, 0 for both zeros, [-]Infinity, integers without decimal point,
    otherwise positional notation (never an exponent) with the digits needed to identify the double."""
    if x != x:
        return 'NaN'
    if x == 0:
        return '0'
    if x == INF:
        return 'Infinity'
    if x == -INF:
        return '-Infinity'
    return _positional(*_plain_digits(x))


def xp2_string_of_double(x):
    """F&O 19.1.2.2 casting xs:double to xs:string"""
    if x != x:
        return 'NaN'
    if x == INF:
        return 'INF'
    if x == -INF:
        return '-INF'
    if x == 0:
        return '-0' if math.copysign(1.0, x) < 0 else '0'
    sign, digits, exp = _plain_digits(x)
    if 0.000001 <= abs(x) < 1000000:
        return _positional(sign, digits, exp)
    ds = ''.join(str(d) for d in digits)
    e10 = exp + len(ds) - 1
    frac = ds[1:] or '0'
    return '%s%s.%sE%d' % (sign, ds[0], frac, e10)


def string_of_decimal(d):
    """F&O 19.1.2.2: integer-valued -> as xs:integer; else canonical decimal, no exponent,
    no trailing zeros, at least one digit before the point"""
    if d == d.to_integral_value():
        return str(int(d))
    sign, digits, exp = d.as_tuple()
    digits = list(digits)
    while digits and digits[-1] == 0 and exp < 0:
        digits.pop()
        exp += 1
    while len(digits) > 1 and digits[0] == 0:
        digits.pop(0)
    return _positional('-' if sign else '', digits, exp)


# ------------------------------------------------------------------ collations as code-point keys
def key_codepoint(s):
    return [ord(c) for c in s]


def key_haci(s):
    """F&O 3.1 5.3.4: A-Z match a-z, everything else code point for code point; one collation unit per code point"""
    return [cp + 32 if 0x41 <= cp <= 0x5A else cp for cp in (ord(c) for c in s)]


def find(s, t, key=key_codepoint):
    """index of the first occurrence of t in s (in collation units = code points), -1 if none"""
    ks, kt = key(s), key(t)
    n = len(kt)
    for i in range(len(ks) - n + 1):
        if ks[i:i + n] == kt:
            return i
    return -1


def contains(s, t, key=key_codepoint):
    return t == '' or find(s, t, key) >= 0


def starts_with(s, t, key=key_codepoint):
    return t == '' or key(s)[:len(t)] == key(t)


def ends_with(s, t, key=key_codepoint):
    if t == '':
        return True
    return len(s) >= len(t) and key(s)[len(s) - len(t):] == key(t)


def substring_before(s, t, key=key_codepoint):
    if t == '':
        return ''
    i = find(s, t, key)
    return '' if i < 0 else s[:i]


def substring_after(s, t, key=key_codepoint):
    if t == '':
        return s
    i = find(s, t, key)
    return '' if i < 0 else s[i + len(t):]


def compare(a, b, key=key_codepoint):
    ka, kb = key(a), key(b)
    for x, y in zip(ka, kb):
        if x != y:
            return -1 if x < y else 1
    if len(ka) == len(kb):
        return 0
    return -1 if len(ka) < len(kb) else 1


def codepoint_equal(a, b):
    return [ord(c) for c in a] == [ord(c) for c in b]


# ------------------------------------------------------------------ simple functions
def normalize_space(s):
    out = []
    word = []
    for c in s:
        if c in XML_S:
            if word:
                out.append(''.join(word))
                word = []
        else:
            word.append(c)
    if word:
        out.append(''.join(word))
    return ' '.join(out)


def translate(s, map_string, trans_string):
    """F&O 5.4.9: the first occurrence of a character in map_string decides; characters of
    map_string beyond the length of trans_string are removed; extra trans_string characters ignored"""
    out = []
    for c in s:
        for i, m in enumerate(map_string):
            if m == c:
                if i < len(trans_string):
                    out.append(trans_string[i])
                break
        else:
            out.append(c)
    return ''.join(out)


def string_length(s):
    return sum(1 for _ in s)


def string_to_codepoints(s):
    return [ord(c) for c in s]


def codepoints_to_string(cps):
    """-> ('ok', s) | ('err', 'FOCH0001') | ('either', s): code points that are Char only in XML 1.1
    may be accepted or rejected (the implementation chooses the XML version)"""
    either = False
    for cp in cps:
        if not (0 <= cp <= 0x10FFFF) or not is_xml11_char(cp):
            return ('err', 'FOCH0001')
        if not is_xml10_char(cp):
            either = True
    s = ''.join(chr(cp) for cp in cps)
    return ('either', s) if either else ('ok', s)


# ------------------------------------------------------------------ URI escaping
def _pct(c):
    return ''.join('%%%02X' % b for b in c.encode('utf-8'))


_ALNUM = set('ABCDEFGHIJKLMNOPQRSTUVWXYZabcdefghijklmnopqrstuvwxyz0123456789')
_UNRESERVED = _ALNUM | set('-_.~')                      # RFC 3986 2.3
_IRI_INVALID_ASCII = set('<>" {}|\\^`')                 # F&O 6.3


def encode_for_uri(s):
    return ''.join(c if c in _UNRESERVED else _pct(c) for c in s)


def iri_to_uri(s):
    return ''.join(c if (0x21 <= ord(c) <= 0x7E and c not in _IRI_INVALID_ASCII) else _pct(c) for c in s)


def escape_html_uri(s):
    return ''.join(c if 0x20 <= ord(c) <= 0x7E else _pct(c) for c in s)


# ------------------------------------------------------------------ case mapping
def upper_case(s):
    # Unicode default (locale-independent, full) case mapping of the interpreter's Unicode version
    return s.upper()


def lower_case(s):
    return s.lower()
