"""Reference model of the XSD / XPath regular-expression language.

Transcribed from XML Schema Part 2 (1.0 2nd ed. appendix F, 1.1 appendix G) and
XPath F&O 3.1 section 5.6.1 (additions: ^ $ anchors, reluctant quantifiers, (?: ),
back-references, \\$, flags s m i x q).  Shares no code with elementpath.

    parse(pattern, mode, version, flags) -> Regex       (raises Invalid / Undecided)
    Regex.search(s) / Regex.fullmatch(s) -> bool        (raises Undecided)

Three-valued on purpose: where the two XSD editions (or the prose and the grammar of one
edition) disagree, or the text does not settle the point, `Undecided` is raised and the
check counts the case instead of judging it.

The matcher is a plain backtracking matcher over code points (continuation passing);
it explores every path, so its boolean answer is the language-membership answer.
"""
import unicodedata

WS = ' \t\n\r'
SINGLE_ESC = {'n': '\n', 'r': '\r', 't': '\t'}
for _c in '\\|.?*+(){}-[]^':
    SINGLE_ESC[_c] = _c
MULTI_ESC = 'sSdDwWiIcC'

CATEGORIES = {
    'L', 'Lu', 'Ll', 'Lt', 'Lm', 'Lo', 'M', 'Mn', 'Mc', 'Me', 'N', 'Nd', 'Nl', 'No',
    'P', 'Pc', 'Pd', 'Ps', 'Pe', 'Pi', 'Pf', 'Po', 'Z', 'Zs', 'Zl', 'Zp',
    'S', 'Sm', 'Sc', 'Sk', 'So', 'C', 'Cc', 'Cf', 'Co', 'Cn',
}
# the few blocks whose extent is certain without a data file (Unicode Blocks.txt, unchanged since 3.0)
BLOCKS = {
    'IsBasicLatin': (0x0000, 0x007F),
    'IsLatin-1Supplement': (0x0080, 0x00FF),
    'IsGreek': (0x0370, 0x03FF),
    'IsArabic': (0x0600, 0x06FF),
}

# XML 1.0 (5th edition) / XML 1.1 NameStartChar and the additional NameChar ranges (inclusive)
NAME_START = [(0x3A, 0x3A), (0x41, 0x5A), (0x5F, 0x5F), (0x61, 0x7A), (0xC0, 0xD6), (0xD8, 0xF6),
              (0xF8, 0x2FF), (0x370, 0x37D), (0x37F, 0x1FFF), (0x200C, 0x200D), (0x2070, 0x218F),
              (0x2C00, 0x2FEF), (0x3001, 0xD7FF), (0xF900, 0xFDCF), (0xFDF0, 0xFFFD),
              (0x10000, 0xEFFFF)]
NAME_EXTRA = [(0x2D, 0x2E), (0x30, 0x39), (0xB7, 0xB7), (0x300, 0x36F), (0x203F, 0x2040)]

# Code points for which the name-character escapes are settled: XML 1.0 4th edition
# (Letter/Digit/CombiningChar/Extender, referenced by XSD 1.0) and 5th edition (NameStartChar)
# give the same answer.  Everything else is Undecided for \i \I \c \C.
NAME_SETTLED = set(range(0x00, 0x80)) | {0xA0, 0xB7, 0xC9, 0xE9}
NAME_SETTLED_C_ONLY = {0x663}      # Arabic-Indic digit: Digit in 4th ed., NameStartChar range in 5th: \c agrees, \i does not


class Invalid(Exception):
    """the pattern is not in the language of the grammar"""
    def __init__(self, reason, pos=None):
        Exception.__init__(self, reason)
        self.reason = reason
        self.pos = pos


class Undecided(Exception):
    """the specifications do not settle the question (or the model's budget ran out)"""
    def __init__(self, reason):
        Exception.__init__(self, reason)
        self.reason = reason


def _in_ranges(cp, ranges):
    for a, b in ranges:
        if a <= cp <= b:
            return True
    return False


def esc_contains(letter, cp):
    """membership of a multi-character escape (lower-case letters)"""
    if letter == 's':
        return cp in (0x20, 0x9, 0xA, 0xD)
    if letter == 'd':
        return unicodedata.category(chr(cp)) == 'Nd'
    if letter == 'w':
        return unicodedata.category(chr(cp))[0] not in 'PZC'
    if letter == 'i':
        if cp not in NAME_SETTLED:
            raise Undecided('name-escape-edition')
        return _in_ranges(cp, NAME_START)
    if letter == 'c':
        if cp not in NAME_SETTLED and cp not in NAME_SETTLED_C_ONLY:
            raise Undecided('name-escape-edition')
        return _in_ranges(cp, NAME_START) or _in_ranges(cp, NAME_EXTRA)
    raise KeyError(letter)


def cat_contains(name, cp):
    if name in BLOCKS:
        a, b = BLOCKS[name]
        return a <= cp <= b
    cat = unicodedata.category(chr(cp))
    if cat == 'Cs':
        raise Undecided('surrogate')
    return cat == name if len(name) == 2 else cat[0] == name


def case_variant(c1, c2):
    """F&O 5.6.1.1: C2 is a case-variant of C1"""
    return c1 == c2 or c1.lower() == c2.lower() or c1.upper() == c2.upper()


# ---------------------------------------------------------------------------- AST
# pieces:  ('char', ch) ('any',) ('bol',) ('eol',) ('esc', letter, negated) ('cat', name, negated)
#          ('class', neg, parts, sub) ('group', idx|None, alt) ('backref', n)
#          ('rep', node, lo, hi|None, greedy)   ('alt', [seq...])   ('seq', [piece...])
# class parts: ('c', ch, escaped) ('r', lo_ch, hi_ch, any_escaped, start_escaped) ('esc', letter, negated) ('cat', name, negated)

class Atom:
    """source extent of a one-character atom, for diagnosis"""
    __slots__ = ('kind', 'src', 'node')

    def __init__(self, kind, src, node):
        self.kind, self.src, self.node = kind, src, node


def strip_x(p):
    """flag x: remove whitespace except within character class expressions"""
    out = []
    depth = 0
    i, n = 0, len(p)
    while i < n:
        c = p[i]
        if c == '\\':
            out.append(c)
            i += 1
            if depth == 0:
                while i < n and p[i] in WS:
                    i += 1
            if i < n:
                out.append(p[i])
                i += 1
            continue
        if c == '[':
            depth += 1
        elif c == ']' and depth > 0:
            depth -= 1
        elif depth == 0 and c in WS:
            i += 1
            continue
        out.append(c)
        i += 1
    return ''.join(out)


class _Parser:
    def __init__(self, p, mode, version):
        self.p = p
        self.n = len(p)
        self.i = 0
        self.xpath = mode == 'xpath'
        self.v11 = version == '1.1'
        self.opened = 0          # capturing groups opened so far
        self.closed = set()
        self.noncap = 0
        self.parent = {}         # capturing group -> enclosing capturing group (or None)
        self.stack = []
        self.features = set()
        self.atoms = []

    # braces are meta-characters in the XPath grammar and in XSD 1.1; in XSD 1.0 the Char
    # production admits them while the prose calls them meta-characters
    def _brace(self, reason, pos):
        if self.v11 or (self.xpath and reason != 'brace-char'):
            raise Invalid(reason, pos)
        # a lone '{' or '}' is a normal character under the XSD 1.0 Char production, on which the XPath
        # regex syntax may be based: not decided
        raise Undecided('xsd10-' + reason)

    def peek(self, k=0):
        j = self.i + k
        return self.p[j] if j < self.n else ''

    def regexp(self, depth):
        branches = [self.branch(depth)]
        while self.peek() == '|':
            self.i += 1
            self.features.add('alt')
            branches.append(self.branch(depth))
        return ('alt', branches)

    def branch(self, depth):
        pieces = []
        while self.i < self.n:
            c = self.p[self.i]
            if c == '|':
                break
            if c == ')':
                if depth == 0:
                    raise Invalid('unbalanced-paren', self.i)
                break
            pieces.append(self.piece(depth))
        return ('seq', pieces)

    def piece(self, depth):
        atom = self.atom(depth)
        c = self.peek()
        if c and c in '?*+{':
            if atom[0] in ('bol', 'eol'):
                raise Undecided('quantified-anchor')
            if c == '{':
                lo, hi = self.quantity()
                self.features.add('quantity')
            else:
                self.i += 1
                lo, hi = {'?': (0, 1), '*': (0, None), '+': (1, None)}[c]
                self.features.add('quant')
            greedy = True
            if self.xpath and self.peek() == '?':
                self.i += 1
                greedy = False
                self.features.add('lazy')
            nxt = self.peek()
            if nxt and nxt in '?*+':
                raise Invalid('double-quantifier', self.i)
            if nxt == '{':
                self._brace('double-quantifier', self.i)
            if hi is not None and lo > hi:
                raise Undecided('quantity-min-gt-max')
            return ('rep', atom, lo, hi, greedy)
        return atom

    def quantity(self):
        start = self.i
        j = self.i + 1
        a = j
        while j < self.n and self.p[j].isdigit() and self.p[j].isascii():
            j += 1
        if j == a:
            self._brace('bad-quantity', start)
        lo = int(self.p[a:j])
        hi = lo
        if j < self.n and self.p[j] == ',':
            j += 1
            b = j
            while j < self.n and self.p[j].isdigit() and self.p[j].isascii():
                j += 1
            hi = int(self.p[b:j]) if j > b else None
        if j >= self.n or self.p[j] != '}':
            self._brace('bad-quantity', start)
        self.i = j + 1
        return lo, hi

    def atom(self, depth):
        start = self.i
        c = self.p[self.i]
        if c in '?*+':
            raise Invalid('quantifier-without-atom', self.i)
        if c == '{':
            self._brace('quantifier-without-atom', self.i)
        if c == '}':
            self._brace('brace-char', self.i)
        if c == ']':
            raise Invalid('unexpected-bracket', self.i)
        if c == '[':
            node = self.char_class(0)
            self.features.add('class')
            self.atoms.append(Atom('class', self.p[start:self.i], node))
            return node
        if c == '(':
            return self.group(depth)
        if c == '.':
            self.i += 1
            self.features.add('dot')
            self.atoms.append(Atom('dot', '.', ('any',)))
            return ('any',)
        if c == '\\':
            return self.escape()
        if self.xpath and c in '^$':
            self.i += 1
            self.features.add('anchor')
            return ('bol',) if c == '^' else ('eol',)
        self.i += 1
        node = ('char', c)
        self.atoms.append(Atom('char', c, node))
        return node

    def group(self, depth):
        self.i += 1
        idx = None
        if self.peek() == '?':
            if self.xpath and self.peek(1) == ':':
                self.i += 2
                self.noncap += 1
                self.features.add('noncap')
            else:
                raise Invalid('quantifier-without-atom', self.i)
        else:
            self.opened += 1
            idx = self.opened
            self.parent[idx] = self.stack[-1] if self.stack else None
            self.stack.append(idx)
            self.features.add('group')
        alt = self.regexp(depth + 1)
        if self.peek() != ')':
            raise Invalid('unterminated-group', self.i)
        self.i += 1
        if idx is not None:
            self.stack.pop()
            self.closed.add(idx)
        return ('group', idx, alt)

    def cat_escape(self, start, where=''):
        """at p / P (self.i points at it)"""
        negated = self.p[self.i] == 'P'
        if self.peek(1) != '{':
            raise Invalid('bad-category-escape' + where, start)
        j = self.p.find('}', self.i + 2)
        if j < 0:
            raise Invalid('bad-category-escape' + where, start)
        name = self.p[self.i + 2:j]
        self.i = j + 1
        if name in CATEGORIES or name in BLOCKS:
            return ('cat', name, negated)
        if name == 'Cs':
            raise Undecided('category-Cs')
        if name.startswith('Is') and len(name) > 2 and all(ch.isascii() and (ch.isalnum() or ch == '-') for ch in name[2:]):
            if name in ('IsFoo', 'IsNoSuchBlock') and not self.v11:
                raise Invalid('unknown-block', start)
            raise Undecided('block-not-modelled')
        raise Invalid(('bad-category-escape' + where) if where else 'unknown-category', start)

    def escape(self):
        start = self.i
        self.i += 1
        e = self.peek()
        if e == '':
            raise Invalid('trailing-backslash', start)
        if e in SINGLE_ESC:
            self.i += 1
            node = ('char', SINGLE_ESC[e])
            self.atoms.append(Atom('single-escape', self.p[start:self.i], node))
            return node
        if e == '$':
            if not self.xpath:
                raise Invalid('bad-escape', start)
            self.i += 1
            node = ('char', '$')
            self.atoms.append(Atom('single-escape', '\\$', node))
            return node
        if e in MULTI_ESC:
            self.i += 1
            node = ('esc', e.lower(), e.isupper())
            self.features.add('multi-escape')
            self.atoms.append(Atom('toplevel-escape/' + e.lower(), self.p[start:self.i], node))
            return node
        if e in 'pP':
            node = self.cat_escape(start)
            self.features.add('cat-escape')
            self.atoms.append(Atom('toplevel-category', self.p[start:self.i], node))
            return node
        if e.isdigit() and e.isascii():
            if not self.xpath:
                raise Invalid('backref-in-xsd', start)
            if e == '0':
                raise Invalid('backref-zero', start)
            n = int(e)
            self.i += 1
            while self.peek().isdigit() and self.peek().isascii():
                if self.noncap:
                    raise Undecided('multi-digit-backref-with-noncapturing')
                nn = n * 10 + int(self.peek())
                if nn <= self.opened:
                    n = nn
                    self.i += 1
                else:
                    break
            if n > self.opened:
                raise Invalid('backref-nonexistent', start)
            if n not in self.closed:
                raise Invalid('backref-open-group', start)
            self.features.add('backref')
            return ('backref', n)
        raise Invalid('bad-escape', start)

    # ---- character class expressions
    def class_item(self):
        """one singleChar / charClassEsc inside a class; returns a part tuple"""
        start = self.i
        c = self.p[self.i]
        if c == '\\':
            e = self.peek(1)
            if e == '':
                raise Invalid('unterminated-class', start)
            if e in SINGLE_ESC:
                self.i += 2
                return ('c', SINGLE_ESC[e], True)
            if e == '$':
                if not self.xpath:
                    raise Invalid('bad-escape-in-class', start)
                self.i += 2
                return ('c', '$', True)
            if e in MULTI_ESC:
                self.i += 2
                return ('esc', e.lower(), e.isupper())
            if e in 'pP':
                self.i += 1
                return self.cat_escape(start, '-in-class')
            if e.isdigit() and e.isascii():
                raise Invalid('backref-in-class', start)
            raise Invalid('bad-escape-in-class', start)
        self.i += 1
        return ('c', c, False)

    def char_class(self, nest):
        self.i += 1                      # '['
        neg = False
        if self.peek() == '^':
            neg = True
            self.i += 1
        parts = []
        sub = None
        while True:
            if self.i >= self.n:
                raise Invalid('unterminated-class', self.i)
            c = self.p[self.i]
            if c == ']':
                if not parts:
                    raise Invalid('empty-class', self.i)
                self.i += 1
                break
            if c == '-' and self.peek(1) == '[':
                if not parts:
                    raise Invalid('empty-class', self.i)
                self.i += 1
                self.features.add('subtraction')
                sub = self.char_class(nest + 1)
                if self.peek() != ']':
                    raise Invalid('subtraction-not-closed', self.i)
                self.i += 1
                break
            if c == '[':
                raise Invalid('bracket-in-class', self.i)
            if c == '-' and self.peek(1) == '-':
                raise Undecided('adjacent-hyphens')
            item = self.class_item()
            if item[0] == 'c':
                hyphen = item[1] == '-' and not item[2]
                nxt, nxt2 = self.peek(), self.peek(1)
                if nxt == '-' and nxt2 not in ('', ']', '['):
                    # a range  s-e
                    if hyphen:
                        raise Undecided('hyphen-range-endpoint')
                    if nxt2 == '-':
                        raise Undecided('hyphen-range-endpoint')
                    self.i += 1
                    end = self.class_item()
                    if end[0] != 'c':
                        raise Invalid('range-to-class-escape', self.i)
                    if ord(item[1]) > ord(end[1]):
                        raise Undecided('reversed-range')
                    parts.append(('r', item[1], end[1], item[2] or end[2], item[2]))
                    self.features.add('range')
                    continue
                if hyphen:
                    if parts and nxt != ']':
                        raise Undecided('hyphen-middle')
                    parts.append(('c', '-', False))
                    continue
            parts.append(item)
        return ('class', neg, parts, sub)


class Regex:
    def __init__(self, root, ngroups, flags, parent=None, features=(), atoms=(), source=''):
        self.root = root
        self.ngroups = ngroups
        self.icase = 'i' in flags
        self.dotall = 's' in flags
        self.multiline = 'm' in flags
        self.parent = parent or {}
        self.features = set(features)
        self.atoms = list(atoms)
        self.source = source          # pattern after flag x stripping (None under q)
        self.budget = 200000
        self.unset_backref_used = False

    # ---- set membership
    def part_contains(self, part, ch):
        k = part[0]
        if k == 'c':
            return case_variant(part[1], ch) if self.icase else part[1] == ch
        if k == 'r':
            lo, hi = ord(part[1]), ord(part[2])
            if lo <= ord(ch) <= hi:
                return True
            if self.icase:
                if hi - lo > 0x400:
                    raise Undecided('icase-large-range')
                for cp in range(lo, hi + 1):
                    if case_variant(chr(cp), ch):
                        return True
            return False
        if k == 'esc':
            return esc_contains(part[1], ord(ch)) != part[2]
        if k == 'cat':
            return cat_contains(part[1], ord(ch)) != part[2]
        raise AssertionError(k)

    def class_contains(self, node, ch):
        _, neg, parts, sub = node
        r = False
        for part in parts:
            if self.part_contains(part, ch):
                r = True
                break
        if neg:
            r = not r
        if r and sub is not None and self.class_contains(sub, ch):
            r = False
        return r

    def atom_contains(self, node, ch):
        k = node[0]
        if k == 'char':
            return case_variant(node[1], ch) if self.icase else node[1] == ch
        if k == 'any':
            return True if self.dotall else ch not in '\n\r'
        if k == 'esc':
            return esc_contains(node[1], ord(ch)) != node[2]
        if k == 'cat':
            return cat_contains(node[1], ord(ch)) != node[2]
        if k == 'class':
            return self.class_contains(node, ch)
        raise AssertionError(k)

    # ---- matcher
    def _m(self, node, i, caps, k):
        self.steps += 1
        if self.steps > self.budget:
            raise Undecided('model-budget')
        s = self.s
        kind = node[0]
        if kind in ('char', 'any', 'esc', 'cat', 'class'):
            if i < len(s) and self.atom_contains(node, s[i]):
                return k(i + 1, caps)
            return False
        if kind == 'seq':
            return self._seq(node[1], 0, i, caps, k)
        if kind == 'alt':
            for br in node[1]:
                if self._m(br, i, caps, k):
                    return True
            return False
        if kind == 'group':
            idx = node[1]
            if idx is None:
                return self._m(node[2], i, caps, k)

            def after(j, c2, idx=idx, i=i):
                c3 = list(c2)
                c3[idx] = (i, j)
                return k(j, tuple(c3))
            return self._m(node[2], i, caps, after)
        if kind == 'rep':
            return self._rep(node, 0, i, caps, k)
        if kind == 'bol':
            if i == 0 or (self.multiline and s[i - 1] == '\n' and i != len(s)):
                return k(i, caps)
            return False
        if kind == 'eol':
            if i == len(s) or (self.multiline and s[i] == '\n'):
                return k(i, caps)
            return False
        if kind == 'backref':
            cap = caps[node[1]]
            if cap is None:
                self.unset_backref_used = True
                return k(i, caps)
            t = s[cap[0]:cap[1]]
            j = i + len(t)
            if j > len(s):
                return False
            u = s[i:j]
            if self.icase:
                ok = all(case_variant(a, b) for a, b in zip(t, u))
            else:
                ok = t == u
            return k(j, caps) if ok else False
        raise AssertionError(kind)

    def _seq(self, pieces, n, i, caps, k):
        if n == len(pieces):
            return k(i, caps)
        return self._m(pieces[n], i, caps, lambda j, c2: self._seq(pieces, n + 1, j, c2, k))

    def _rep(self, node, count, i, caps, k):
        _, body, lo, hi, greedy = node

        def more():
            if hi is not None and count >= hi:
                return False

            def after(j, c2):
                if j == i and count >= lo:
                    return False          # an empty iteration beyond the minimum makes no progress
                return self._rep(node, count + 1, j, c2, k)
            return self._m(body, i, caps, after)

        if greedy:
            return more() or (count >= lo and k(i, caps))
        return (count >= lo and k(i, caps)) or more()

    def _run(self, s, full):
        self.s = s
        self.steps = 0
        caps = (None,) * (self.ngroups + 1)
        n = len(s)
        if full:
            return bool(self._m(self.root, 0, caps, lambda j, c: j == n))
        for start in range(n + 1):
            if self._m(self.root, start, caps, lambda j, c: True):
                return True
        return False

    def search(self, s):
        return self._run(s, False)

    def fullmatch(self, s):
        return self._run(s, True)


def nullable(node):
    k = node[0]
    if k in ('char', 'any', 'esc', 'cat', 'class'):
        return False
    if k in ('bol', 'eol', 'backref'):
        return True
    if k == 'seq':
        return all(nullable(x) for x in node[1])
    if k == 'alt':
        return any(nullable(x) for x in node[1])
    if k == 'group':
        return nullable(node[2])
    if k == 'rep':
        return node[2] == 0 or nullable(node[1])
    raise AssertionError(k)


def _groups_in_nullable_loops(node, inside, acc):
    k = node[0]
    if k in ('seq', 'alt'):
        for x in node[1]:
            _groups_in_nullable_loops(x, inside, acc)
    elif k == 'group':
        if inside and node[1] is not None:
            acc.add(node[1])
        _groups_in_nullable_loops(node[2], inside, acc)
    elif k == 'rep':
        loop = (node[3] is None or node[3] > 1) and nullable(node[1])
        _groups_in_nullable_loops(node[1], inside or loop, acc)


def _backrefs(node, acc):
    k = node[0]
    if k in ('seq', 'alt'):
        for x in node[1]:
            _backrefs(x, acc)
    elif k == 'group':
        _backrefs(node[2], acc)
    elif k == 'rep':
        _backrefs(node[1], acc)
    elif k == 'backref':
        acc.add(node[1])


def parse(pattern, mode='xpath', version='1.0', flags=''):
    """mode 'xpath' (F&O grammar, search semantics) or 'xsd' (XSD grammar); flags only in xpath mode"""
    if mode != 'xpath':
        flags = ''
    if 'q' in flags:
        # the pattern is a literal string; m, s, x have no effect
        root = ('seq', [('char', ch) for ch in pattern])
        return Regex(root, 0, 'i' if 'i' in flags else '', features={'literal'}, source=None)
    src = strip_x(pattern) if 'x' in flags else pattern
    ps = _Parser(src, mode, version)
    root = ps.regexp(0)
    if ps.i < ps.n:
        # only an unmatched ')' stops the top level
        raise Invalid('unbalanced-paren', ps.i)
    rx = Regex(root, ps.opened, flags, ps.parent, ps.features, ps.atoms, src)
    refs = set()
    _backrefs(root, refs)
    if refs:
        loops = set()
        _groups_in_nullable_loops(root, False, loops)
        if refs & loops:
            raise Undecided('backref-to-group-in-nullable-loop')
    return rx
