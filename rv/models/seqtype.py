"""Reference model of XPath 3.1 SequenceType matching and of the subtype relation
(XPath 3.1 sections 2.5.5 and 2.5.6, XDM 3.1 type hierarchy, XSD 1.1 part 2 built-in types).

Shares no code with the library under test.  Everything is JSON-able:

  sequence type   ['empty']  |  ['seq', ITEM, occ]            occ in '', '?', '*', '+'
  ITEM            ['item'] | ['atomic', local-name] | ['node'] | ['text'] | ['comment'] |
                  ['namespace-node'] | ['pi', target|None] | ['document', ITEM(element)|None] |
                  ['element', name|None, type|None, nillable] | ['attribute', name|None, type|None] |
                  ['function', None] | ['function', [seqtype...], seqtype] |
                  ['map', None] | ['map', atomic-local-name, seqtype] |
                  ['array', None] | ['array', seqtype]
  names are expanded ('{uri}local' or 'local'); type names are local names in the XSD namespace
  ('numeric' is the xs:numeric union).

  value           list of items
  item            ['a', type-label]            atomic value with its dynamic type label
                  ['n', kind, name]            node (kind: document element attribute text comment pi
                                               namespace); for a document `name` is the name of its
                                               single element child; nodes are untyped (no schema)
                  ['f', [seqtype...], seqtype] function item with its signature (None, None = unknown)
                  ['m', [[key-item, value], ...]]   map
                  ['r', [value, ...]]          array
  (extra trailing fields such as the XPath source text are ignored)

Three-valued results: True / False / None (None = the model does not decide).
"""

# --------------------------------------------------------------------------- atomic hierarchy
# XSD 1.1 part 2 section 3 (built-in datatypes) + XDM 3.1 section 2.7 (xs:anyAtomicType,
# xs:untypedAtomic, xs:dayTimeDuration, xs:yearMonthDuration)
PARENT = {
    'string': 'anyAtomicType', 'boolean': 'anyAtomicType', 'decimal': 'anyAtomicType',
    'float': 'anyAtomicType', 'double': 'anyAtomicType', 'duration': 'anyAtomicType',
    'dateTime': 'anyAtomicType', 'time': 'anyAtomicType', 'date': 'anyAtomicType',
    'gYearMonth': 'anyAtomicType', 'gYear': 'anyAtomicType', 'gMonthDay': 'anyAtomicType',
    'gDay': 'anyAtomicType', 'gMonth': 'anyAtomicType', 'hexBinary': 'anyAtomicType',
    'base64Binary': 'anyAtomicType', 'anyURI': 'anyAtomicType', 'QName': 'anyAtomicType',
    'NOTATION': 'anyAtomicType', 'untypedAtomic': 'anyAtomicType',
    'normalizedString': 'string', 'token': 'normalizedString', 'language': 'token',
    'NMTOKEN': 'token', 'Name': 'token', 'NCName': 'Name', 'ID': 'NCName', 'IDREF': 'NCName',
    'ENTITY': 'NCName',
    'integer': 'decimal', 'nonPositiveInteger': 'integer', 'negativeInteger': 'nonPositiveInteger',
    'long': 'integer', 'int': 'long', 'short': 'int', 'byte': 'short',
    'nonNegativeInteger': 'integer', 'unsignedLong': 'nonNegativeInteger',
    'unsignedInt': 'unsignedLong', 'unsignedShort': 'unsignedInt', 'unsignedByte': 'unsignedShort',
    'positiveInteger': 'nonNegativeInteger',
    'yearMonthDuration': 'duration', 'dayTimeDuration': 'duration',
    'dateTimeStamp': 'dateTime',
    # above the atomic types (used for element(N, T) / attribute(N, T) only)
    'anyAtomicType': 'anySimpleType', 'anySimpleType': 'anyType', 'untyped': 'anyType',
    'anyType': None,
}
UNIONS = {'numeric': ('double', 'float', 'decimal')}
ATOMIC_TYPES = sorted(k for k in PARENT if k not in ('anySimpleType', 'anyType', 'untyped'))
NON_ATOMIC = ('anySimpleType', 'anyType', 'untyped')


def is_atomic_name(t):
    return (t in PARENT and t not in NON_ATOMIC) or t in UNIONS


def ancestors(t):
    """t and its base types, nearest first"""
    out = []
    while t is not None and t in PARENT:
        out.append(t)
        t = PARENT[t]
    return out


def children(t):
    return sorted(k for k, p in PARENT.items() if p == t)


def derives(t, base):
    """derives-from(t, base) for a concrete type label t (never a union)"""
    if t not in PARENT:
        return None
    if base in UNIONS:
        return any(derives(t, m) for m in UNIONS[base])
    if base not in PARENT:
        return None
    return base in ancestors(t)


# --------------------------------------------------------------------------- constructors
def seq(item, occ=''):
    return ['seq', item, occ]


EMPTY = ['empty']
ITEM = ['item']
ITEM_STAR = ['seq', ['item'], '*']


def atomic(name, occ=''):
    return ['seq', ['atomic', name], occ]


# --------------------------------------------------------------------------- matching
def and3(values):
    res = True
    for v in values:
        if v is False:
            return False
        if v is None:
            res = None
    return res


def match_seq(items, st):
    """SequenceType matching (XPath 3.1 2.5.5)"""
    if st[0] == 'empty':
        return len(items) == 0
    _, it, occ = st
    n = len(items)
    if n == 0:
        return occ in ('?', '*')
    if n > 1 and occ in ('', '?'):
        return False
    return and3(match_item(x, it) for x in items)


def match_item(x, it):
    k = it[0]
    xk = x[0]
    if k == 'item':
        return True
    if k == 'atomic':
        if xk != 'a':
            return False
        return derives(x[1], it[1])
    if k == 'node':
        return xk == 'n'
    if k in ('text', 'comment', 'namespace-node'):
        return xk == 'n' and x[1] == {'namespace-node': 'namespace'}.get(k, k)
    if k == 'pi':
        if xk != 'n' or x[1] != 'pi':
            return False
        return it[1] is None or it[1] == x[2]
    if k == 'document':
        if xk != 'n' or x[1] != 'document':
            return False
        if it[1] is None:
            return True
        if x[2] is None:
            return None
        return match_item(['n', 'element', x[2]], it[1])
    if k == 'element':
        if xk != 'n' or x[1] != 'element':
            return False
        if it[1] is not None and it[1] != x[2]:
            return False
        if it[2] is None:
            return True
        # untyped tree: type annotation xs:untyped, never nilled
        return derives('untyped', it[2])
    if k == 'attribute':
        if xk != 'n' or x[1] != 'attribute':
            return False
        if it[1] is not None and it[1] != x[2]:
            return False
        if it[2] is None:
            return True
        return derives('untypedAtomic', it[2])
    if k == 'function':
        if xk not in ('f', 'm', 'r'):
            return False
        if it[1] is None:
            return True
        params, ret = it[1], it[2]
        if xk == 'f':
            if x[1] is None:
                return None
            if len(x[1]) != len(params):
                return False
            return and3([subtype(b, a) for a, b in zip(x[1], params)] + [subtype(x[2], ret)])
        # maps and arrays: signature function(xs:anyAtomicType) as item()* / function(xs:integer) as item()*
        if len(params) != 1:
            return False
        if xk == 'r' and ret != ITEM_STAR:
            # 2.5.6.2 rule 32: array(X) is a subtype of function(xs:integer) as X, and an array matches array(X)
            # when every MEMBER (a sequence) matches X: the members themselves, not their flattened items
            return and3([subtype(params[0], atomic('integer'))] + [match_seq(m, ret) for m in x[1]])
        if ret != ITEM_STAR:
            return None     # maps: the 3.1 text is not self-consistent here (2.5.5.8 vs subtype rule for V?)
        key = atomic('anyAtomicType') if xk == 'm' else atomic('integer')
        return subtype(params[0], key)
    if k == 'map':
        if xk != 'm':
            return False
        if it[1] is None:
            return True
        res = []
        for key, val in x[1]:
            res.append(match_item(key, ['atomic', it[1]]))
            res.append(match_seq(val, it[2]))
        return and3(res)
    if k == 'array':
        if xk != 'r':
            return False
        if it[1] is None:
            return True
        return and3(match_seq(m, it[1]) for m in x[1])
    return None


# --------------------------------------------------------------------------- subtype (2.5.6)
def subtype(a, b):
    """subtype(A, B): A is a subtype of B (2.5.6.1 table)"""
    if a[0] == 'empty':
        if b[0] == 'empty':
            return True
        return b[2] in ('?', '*')
    if b[0] == 'empty':
        return False
    ao, bo = a[2], b[2]
    ok = {'': ('', '?', '*', '+'), '?': ('?', '*'), '*': ('*',), '+': ('*', '+')}[ao]
    if bo not in ok:
        return False
    return subtype_item(a[1], b[1])


KIND_TESTS = ('node', 'text', 'comment', 'namespace-node', 'pi', 'document', 'element', 'attribute')


def subtype_item(a, b):
    ak, bk = a[0], b[0]
    if bk == 'item':
        return True
    if ak == 'item':
        return False
    if ak == 'atomic':
        if bk != 'atomic':
            return False
        if a[1] == b[1]:
            return True
        if a[1] in UNIONS:
            return and3(subtype_item(['atomic', m], b) for m in UNIONS[a[1]])
        return derives(a[1], b[1])
    if bk == 'atomic':
        return False
    if bk == 'node':
        return ak in KIND_TESTS
    if ak == 'node':
        return False
    if ak in ('text', 'comment', 'namespace-node'):
        return ak == bk
    if ak == 'pi':
        return bk == 'pi' and (b[1] is None or b[1] == a[1])
    if ak == 'document':
        if bk != 'document':
            return False
        if b[1] is None:
            return True
        if a[1] is None:
            return False
        return subtype_item(a[1], b[1])
    if ak == 'element':
        if bk != 'element':
            return False
        if b[1] is not None and b[1] != a[1]:
            return False
        if b[2] is None:
            return True
        at, anil = (a[2], bool(a[3])) if a[2] is not None else ('anyType', True)
        d = derives(at, b[2])
        if d is not True:
            return d
        return bool(b[3]) or not anil
    if ak == 'attribute':
        if bk != 'attribute':
            return False
        if b[1] is not None and b[1] != a[1]:
            return False
        if b[2] is None:
            return True
        at = a[2] if a[2] is not None else 'anySimpleType'
        return derives(at, b[2])
    if ak == 'function':
        if bk != 'function':
            return False
        if b[1] is None:
            return True
        if a[1] is None:
            return False
        if len(a[1]) != len(b[1]):
            return False
        return and3([subtype(y, x) for x, y in zip(a[1], b[1])] + [subtype(a[2], b[2])])
    if ak == 'map':
        if bk == 'function':
            if b[1] is None:
                return True
            if len(b[1]) == 1 and b[2] == ITEM_STAR and subtype(b[1][0], atomic('anyAtomicType')) is True:
                return True
            return None
        if bk != 'map':
            return False
        if b[1] is None:
            return True
        ka, va = (a[1], a[2]) if a[1] is not None else ('anyAtomicType', ITEM_STAR)
        return and3([subtype_item(['atomic', ka], ['atomic', b[1]]), subtype(va, b[2])])
    if ak == 'array':
        if bk == 'function':
            if b[1] is None:
                return True
            if len(b[1]) == 1 and b[2] == ITEM_STAR and subtype(b[1][0], atomic('integer')) is True:
                return True
            return None
        if bk != 'array':
            return False
        if b[1] is None:
            return True
        va = a[1] if a[1] is not None else ITEM_STAR
        return subtype(va, b[1])
    return None


# --------------------------------------------------------------------------- rendering
XSD_NS = 'http://www.w3.org/2001/XMLSchema'
FN_NS = 'http://www.w3.org/2005/xpath-functions'
OUTPUT_NS = 'http://www.w3.org/2010/xslt-xquery-serialization'


def no_space(_where=None):
    return ''


def render_name(name, prefixes):
    """expanded name -> prefixed lexical QName using the {uri: prefix} table"""
    if name.startswith('{'):
        uri, local = name[1:].split('}')
        return '%s:%s' % (prefixes[uri], local)
    return name


def render(st, prefixes=None, sp=no_space, pi_quote=False):
    """sequence type AST -> text; `sp()` supplies the optional whitespace at each free position"""
    prefixes = prefixes or {}

    def r_seq(t, nested):
        if t[0] == 'empty':
            return 'empty-sequence' + sp() + '(' + sp() + ')'
        s = r_item(t[1])
        occ = t[2]
        if occ and t[1][0] == 'function' and t[1][1] is not None:
            # an occurrence indicator after a typed function test binds to its return type:
            # the 3.0 grammar needs a parenthesized item type here
            return '(' + sp() + s + sp() + ')' + sp() + occ
        return s + (sp() + occ if occ else '')

    def r_item(it):
        k = it[0]
        if k == 'item':
            return 'item' + sp() + '(' + sp() + ')'
        if k == 'atomic':
            return 'xs:' + it[1]
        if k in ('node', 'text', 'comment', 'namespace-node'):
            return k + sp() + '(' + sp() + ')'
        if k == 'pi':
            if it[1] is None:
                arg = ''
            elif pi_quote:
                arg = "'%s'" % it[1]
            else:
                arg = it[1]
            return 'processing-instruction' + sp() + '(' + sp() + arg + sp() + ')'
        if k == 'document':
            inner = '' if it[1] is None else r_item(it[1])
            return 'document-node' + sp() + '(' + sp() + inner + sp() + ')'
        if k in ('element', 'attribute'):
            if it[1] is None and it[2] is None:
                args = sp()
            else:
                args = sp() + ('*' if it[1] is None else render_name(it[1], prefixes))
                if it[2] is not None:
                    args += sp() + ',' + sp() + 'xs:' + it[2]
                    if k == 'element' and it[3]:
                        args += sp() + '?'
                args += sp()
            return k + sp() + '(' + args + ')'
        if k == 'function':
            if it[1] is None:
                return 'function' + sp() + '(' + sp() + '*' + sp() + ')'
            params = (sp() + ',' + sp()).join(r_seq(p, True) for p in it[1])
            return 'function' + sp() + '(' + sp() + params + sp() + ')' + ' ' + sp() + 'as ' + sp() + r_seq(it[2], True)
        if k == 'map':
            if it[1] is None:
                return 'map' + sp() + '(' + sp() + '*' + sp() + ')'
            return 'map' + sp() + '(' + sp() + 'xs:' + it[1] + sp() + ',' + sp() + r_seq(it[2], True) + sp() + ')'
        if k == 'array':
            if it[1] is None:
                return 'array' + sp() + '(' + sp() + '*' + sp() + ')'
            return 'array' + sp() + '(' + sp() + r_seq(it[1], True) + sp() + ')'
        raise ValueError('unknown item type %r' % (it,))

    return r_seq(st, False)


# --------------------------------------------------------------------------- parsing
class ParseError(ValueError):
    pass


def tokenize(text):
    toks = []
    i, n = 0, len(text)
    while i < n:
        c = text[i]
        if c.isspace():
            i += 1
        elif text.startswith('...', i):
            toks.append('...')
            i += 3
        elif c in '(),*?+':
            toks.append(c)
            i += 1
        elif c in '\'"':
            j = text.index(c, i + 1)
            toks.append(text[i:j + 1])
            i = j + 1
        elif text.startswith('Q{', i):
            j = text.index('}', i)
            k = j + 1
            while k < n and (text[k].isalnum() or text[k] in '-_.'):
                k += 1
            toks.append('{' + text[i + 2:j] + '}' + text[j + 1:k])
            i = k
        elif c.isalpha() or c == '_':
            j = i
            while j < n and (text[j].isalnum() or text[j] in '-_.:'):
                j += 1
            toks.append(text[i:j])
            i = j
        else:
            raise ParseError('unexpected character %r in %r' % (c, text))
    return toks


DEFAULT_PREFIXES = {'xs': XSD_NS, 'fn': FN_NS, 'output': OUTPUT_NS}


class _P:
    def __init__(self, text, namespaces):
        self.toks = tokenize(text)
        self.i = 0
        self.ns = dict(DEFAULT_PREFIXES)
        self.ns.update(namespaces or {})
        self.variadic = False

    def peek(self, k=0):
        return self.toks[self.i + k] if self.i + k < len(self.toks) else None

    def take(self, expected=None):
        t = self.peek()
        if t is None or (expected is not None and t != expected):
            raise ParseError('expected %r, got %r' % (expected, t))
        self.i += 1
        return t

    def expand(self, qn):
        if qn.startswith('{'):
            return qn
        if ':' in qn:
            p, local = qn.split(':', 1)
            if p not in self.ns:
                raise ParseError('unknown prefix %r' % p)
            return '{%s}%s' % (self.ns[p], local)
        return qn

    def type_name(self, qn):
        e = self.expand(qn)
        if e.startswith('{' + XSD_NS + '}'):
            return e[len(XSD_NS) + 2:]
        if qn == 'numeric':
            return 'numeric'
        raise ParseError('unknown type %r' % qn)

    def seqtype(self):
        if self.peek() == 'empty-sequence' and self.peek(1) == '(':
            self.take(); self.take('('); self.take(')')
            return ['empty']
        if self.peek() == '(':
            self.take('(')
            it = self.item()
            self.take(')')
        else:
            it = self.item()
        occ = ''
        if self.peek() in ('?', '*', '+'):
            occ = self.take()
        return ['seq', it, occ]

    def item(self):
        t = self.take()
        if self.peek() != '(':
            return ['atomic', self.type_name(t)]
        self.take('(')
        if t in ('item', 'node', 'text', 'comment', 'namespace-node'):
            self.take(')')
            return [t]
        if t == 'processing-instruction':
            if self.peek() == ')':
                self.take()
                return ['pi', None]
            n = self.take()
            self.take(')')
            return ['pi', n.strip('\'"').strip()]
        if t == 'document-node':
            if self.peek() == ')':
                self.take()
                return ['document', None]
            inner = self.item()
            self.take(')')
            return ['document', inner]
        if t in ('element', 'attribute'):
            name = tname = None
            nil = False
            if self.peek() != ')':
                n = self.take()
                name = None if n == '*' else self.expand(n)
                if self.peek() == ',':
                    self.take()
                    tname = self.type_name(self.take())
                    if self.peek() == '?':
                        self.take()
                        nil = True
                elif n == '*':
                    pass
            self.take(')')
            if t == 'element':
                return ['element', name, tname, nil]
            return ['attribute', name, tname]
        if t == 'function':
            if self.peek() == '*':
                self.take(); self.take(')')
                return ['function', None]
            params = []
            while self.peek() != ')':
                if self.peek() == '...':
                    self.take()
                    self.variadic = True
                else:
                    params.append(self.seqtype())
                if self.peek() == ',':
                    self.take()
            self.take(')')
            self.take('as')
            ret = self.seqtype()
            return ['function', params, ret]
        if t == 'map':
            if self.peek() == '*':
                self.take(); self.take(')')
                return ['map', None]
            k = self.type_name(self.take())
            self.take(',')
            v = self.seqtype()
            self.take(')')
            return ['map', k, v]
        if t == 'array':
            if self.peek() == '*':
                self.take(); self.take(')')
                return ['array', None]
            v = self.seqtype()
            self.take(')')
            return ['array', v]
        raise ParseError('unknown item type %r' % t)


def parse(text, namespaces=None):
    p = _P(text, namespaces)
    st = p.seqtype()
    if p.peek() is not None:
        raise ParseError('trailing tokens in %r' % text)
    return st


def parse_signature(text, namespaces=None):
    """'function(A, B, ...) as R' -> (params, ret, variadic)"""
    p = _P(text, namespaces)
    it = p.item()
    if p.peek() is not None or it[0] != 'function' or it[1] is None:
        raise ParseError('not a function signature: %r' % text)
    return it[1], it[2], p.variadic


# --------------------------------------------------------------------------- shapes (for mechanism keys)
def item_shape(it):
    k = it[0]
    if k == 'atomic':
        return 'union' if it[1] in UNIONS else 'atomic'
    if k in ('element', 'attribute'):
        n = '' if it[1] is None and it[2] is None else ('*' if it[1] is None else 'N')
        if it[2] is not None:
            tcls = it[2] if it[2] in ('untyped', 'untypedAtomic', 'anyType', 'anySimpleType', 'anyAtomicType') \
                else 'T'
            n += ',' + tcls + ('?' if k == 'element' and it[3] else '')
        return '%s(%s)' % (k, n)
    if k == 'pi':
        return 'pi(N)' if it[1] is not None else 'pi()'
    if k == 'document':
        return 'document-node(E)' if it[1] is not None else 'document-node()'
    if k == 'function':
        return 'function(*)' if it[1] is None else 'function(typed)'
    if k == 'map':
        return 'map(*)' if it[1] is None else 'map(K,V)'
    if k == 'array':
        return 'array(*)' if it[1] is None else 'array(T)'
    return k + '()'


def shape(st):
    if st[0] == 'empty':
        return 'empty-sequence()'
    return item_shape(st[1])


def value_class(items):
    if not items:
        return 'empty'
    ks = []
    for x in items:
        k = {'a': 'atomic', 'f': 'function', 'm': 'map', 'r': 'array'}.get(x[0])
        if k is None:
            k = x[1]
        if k not in ks:
            ks.append(k)
    return ks[0] if len(ks) == 1 else 'mixed'
