"""Reference model of a set of Unicode code points: one Python int used as a bitmask
over [0, 0x10FFFF].  Shares nothing with elementpath's interval-list representation."""
import sys
import unicodedata

MAXCP = sys.maxunicode
FULL = (1 << (MAXCP + 1)) - 1


def mask_range(a, b):
    """bits a .. b-1"""
    return ((1 << (b - a)) - 1) << a


def mask_of(items):
    m = 0
    for it in items:
        if isinstance(it, int):
            m |= 1 << it
        else:
            m |= mask_range(it[0], it[1])
    return m


def intervals(m):
    """sorted maximal runs [(a, b)) of a mask"""
    out = []
    base = 0
    while m:
        low = (m & -m).bit_length() - 1
        m >>= low
        base += low
        run = (~m & (m + 1)).bit_length() - 1     # index of lowest zero bit
        out.append((base, base + run))
        m >>= run
        base += run
    return out


def popcount(m):
    return bin(m).count('1') if not hasattr(int, 'bit_count') else m.bit_count()


def members(m, limit=None):
    out = []
    for a, b in intervals(m):
        for cp in range(a, b):
            out.append(cp)
            if limit is not None and len(out) > limit:
                return out
    return out


def has(m, cp):
    return bool((m >> cp) & 1)


_CATS = None


def category_masks():
    """two-letter and one-letter category masks from the interpreter's unicodedata"""
    global _CATS
    if _CATS is None:
        runs = {}
        cat = unicodedata.category
        prev = cat(chr(0))
        start = 0
        for cp in range(1, MAXCP + 2):
            c = cat(chr(cp)) if cp <= MAXCP else None
            if c != prev:
                runs.setdefault(prev, []).append((start, cp))
                prev, start = c, cp
        cats = {k: mask_of(v) for k, v in runs.items()}
        majors = {}
        for k, m in cats.items():
            majors[k[0]] = majors.get(k[0], 0) | m
        cats.update(majors)
        _CATS = cats
    return _CATS


# XML 1.0 (5th edition) NameStartChar / NameChar, BMP part (see DESIGN: astral part excluded)
_NAME_START = [(0x3A, 0x3B), (0x41, 0x5B), (0x5F, 0x60), (0x61, 0x7B), (0xC0, 0xD7), (0xD8, 0xF7),
               (0xF8, 0x300), (0x370, 0x37E), (0x37F, 0x2000), (0x200C, 0x200E), (0x2070, 0x2190),
               (0x2C00, 0x2FF0), (0x3001, 0xD800), (0xF900, 0xFDD0), (0xFDF0, 0xFFFE)]
_NAME_EXTRA = [(0x2D, 0x2F), (0x30, 0x3A), (0xB7, 0xB8), (0x300, 0x370), (0x203F, 0x2041)]


def escape_mask(letter):
    """mask of a multi-character escape (lower-case letter); upper case = complement"""
    cats = category_masks()
    if letter == 's':
        return mask_of([0x20, 0x9, 0xA, 0xD])
    if letter == 'd':
        return cats['Nd']
    if letter == 'w':
        return FULL & ~(cats['P'] | cats['Z'] | cats['C'])
    if letter == 'i':
        return mask_of(_NAME_START)
    if letter == 'c':
        return mask_of(_NAME_START) | mask_of(_NAME_EXTRA)
    raise KeyError(letter)
