"""Reference model of XPath F&O arithmetic (section 4 of XPath Functions and Operators 2.0/3.1).

Transcribed from the specification text; shares no code with elementpath.

Values are ``Num(t, v)``:
    t = 'integer'  v = int
    t = 'decimal'  v = fractions.Fraction            (exact, xs:decimal has no negative zero)
    t = 'float'    v = Python float holding a binary32 value (or +-0.0, +-inf, nan)
    t = 'double'   v = Python float

An operation returns ``Expect``:
    accept    : list of acceptable outcomes, each ('val', Num) or ('err', code)
    undecided : None or the reason why the specification leaves the outcome open
    free_zero_sign : the sign of a zero result is not fixed by the text
    approx    : the value is only fixed to an implementation-defined number of digits (decimal division /
                results that need more than 18 significant digits)
"""
import math
from fractions import Fraction

RANK = {'integer': 0, 'decimal': 1, 'float': 2, 'double': 3}
TYPES = ('integer', 'decimal', 'float', 'double')

F32_MIN_NORMAL = Fraction(1, 2 ** 126)
F64_MIN_NORMAL = Fraction(1, 2 ** 1022)
F32_MAX = Fraction((2 ** 24 - 1) * 2 ** 104)


class Num:
    __slots__ = ('t', 'v')

    def __init__(self, t, v):
        self.t = t
        self.v = v

    def __repr__(self):
        return 'xs:%s(%s)' % (self.t, text(self))


class Expect:
    __slots__ = ('accept', 'undecided', 'free_zero_sign', 'approx')

    def __init__(self, accept=(), undecided=None, free_zero_sign=False, approx=False):
        self.accept = list(accept)
        self.undecided = undecided
        self.free_zero_sign = free_zero_sign
        self.approx = approx


def val(t, v, **kw):
    return Expect([('val', Num(t, v))], **kw)


def err(*codes):
    return Expect([('err', c) for c in codes])


def undecided(reason):
    return Expect([], undecided=reason)


# ---------------------------------------------------------------- conversions
def is_float_type(t):
    return t == 'float' or t == 'double'


def neg_zero(x):
    return x == 0 and math.copysign(1.0, x) < 0


def to_double(fr):
    """Fraction -> nearest binary64 (round half even); overflow -> +-inf"""
    fr = Fraction(fr)
    try:
        return fr.numerator / fr.denominator     # int/int true division is correctly rounded
    except OverflowError:
        return math.inf if fr > 0 else -math.inf


def to_single(fr):
    """Fraction -> nearest binary32 (round half even, gradual underflow) held in a Python float"""
    fr = Fraction(fr)
    if fr == 0:
        return 0.0
    sign = -1 if fr < 0 else 1
    m = abs(fr)
    # exponent e with 2**e <= m < 2**(e+1)
    e = m.numerator.bit_length() - m.denominator.bit_length()
    if Fraction(2) ** e > m:
        e -= 1
    elif Fraction(2) ** (e + 1) <= m:
        e += 1
    if e < -126:
        e = -126
    q = Fraction(2) ** (e - 23)
    n = m / q
    fl = n.numerator // n.denominator
    rem = n - fl
    if rem > Fraction(1, 2) or (rem == Fraction(1, 2) and fl % 2 == 1):
        fl += 1
    r = fl * q
    if r > F32_MAX:
        return sign * math.inf
    return sign * float(r)     # exact: r has <= 24 significant bits and is in double range


def single_of_double(x):
    if x != x or x in (math.inf, -math.inf) or x == 0:
        return x
    return to_single(Fraction(x))


def parse(t, lex):
    """typed lexical -> Num (the lexical forms used by the check's pools only)"""
    lex = lex.strip()
    if t == 'integer':
        return Num(t, int(lex))
    if t == 'decimal':
        return Num(t, Fraction(lex))
    if lex == 'NaN':
        return Num(t, math.nan)
    if lex in ('INF', '+INF'):
        return Num(t, math.inf)
    if lex == '-INF':
        return Num(t, -math.inf)
    fr = Fraction(lex)
    x = to_double(fr) if t == 'double' else to_single(fr)
    if x == 0 and lex.startswith('-'):
        x = -0.0
    return Num(t, x)


def exact(n):
    """finite Num -> Fraction"""
    if n.t == 'integer':
        return Fraction(n.v)
    if n.t == 'decimal':
        return n.v
    return Fraction(n.v)


def is_finite(n):
    return not is_float_type(n.t) or (n.v == n.v and n.v not in (math.inf, -math.inf))


def is_nan(n):
    return is_float_type(n.t) and n.v != n.v


def is_inf(n):
    return is_float_type(n.t) and n.v in (math.inf, -math.inf)


def is_zero(n):
    return n.v == 0


def sign_of(n):
    """-1 / 0 / +1 ; zeros give 0, NaN gives 0"""
    if is_nan(n):
        return 0
    return (n.v > 0) - (n.v < 0)


def promote(n, t):
    """numeric type promotion / subtype substitution to type t (rank(t) >= rank(n.t))"""
    if n.t == t:
        return n
    if t == 'decimal':
        return Num(t, Fraction(n.v))
    if n.t in ('integer', 'decimal'):
        fr = Fraction(n.v)
        return Num(t, to_double(fr) if t == 'double' else to_single(fr))
    # float -> double: exact
    return Num(t, n.v)


def common_type(a, b):
    return a.t if RANK[a.t] >= RANK[b.t] else b.t


def text(n):
    if n.t == 'integer':
        return str(n.v)
    if n.t == 'decimal':
        return frac_text(n.v)
    x = n.v
    if x != x:
        return 'NaN'
    if x == math.inf:
        return 'INF'
    if x == -math.inf:
        return '-INF'
    if x == 0:
        return '-0' if neg_zero(x) else '0'
    return repr(x)


def frac_text(fr, maxdigits=60):
    fr = Fraction(fr)
    d = fr.denominator
    k = 0
    while d % 10 == 0:
        d //= 10
        k += 1
    t = d
    twos = fives = 0
    while t % 2 == 0:
        t //= 2
        twos += 1
    while t % 5 == 0:
        t //= 5
        fives += 1
    if t != 1:
        return '%d/%d' % (fr.numerator, fr.denominator)
    scale = k + max(twos, fives)
    n = fr * 10 ** scale
    s = str(abs(n.numerator))
    if scale:
        s = s.rjust(scale + 1, '0')
        s = s[:-scale] + '.' + s[-scale:]
        s = s.rstrip('0').rstrip('.')
    return ('-' if fr < 0 else '') + s


def sig_digits(fr):
    """number of significant decimal digits needed to write the Fraction exactly (None: non-terminating)"""
    fr = Fraction(fr)
    if fr == 0:
        return 1
    d = fr.denominator
    twos = fives = 0
    while d % 2 == 0:
        d //= 2
        twos += 1
    while d % 5 == 0:
        d //= 5
        fives += 1
    if d != 1:
        return None
    n = abs(fr.numerator) * 10 ** max(twos, fives) // fr.denominator
    s = str(n).rstrip('0')
    return max(1, len(s))


def trunc(fr):
    fr = Fraction(fr)
    q = abs(fr.numerator) // fr.denominator
    return -q if fr < 0 else q


def floor_(fr):
    fr = Fraction(fr)
    return fr.numerator // fr.denominator


# ---------------------------------------------------------------- results of float/double arithmetic
def _from_exact(t, fr, zero_like=0.0):
    """exact mathematical result of an operation on finite operands -> Expect for float/double type t.
    F&O 4.2: overflow may raise FOAR0002 or return +-INF; underflow is implementation-defined."""
    if fr == 0:
        return val(t, zero_like)
    m = abs(fr)
    if m < (F32_MIN_NORMAL if t == 'float' else F64_MIN_NORMAL):
        return undecided('underflow')
    x = to_double(fr) if t == 'double' else to_single(fr)
    if x in (math.inf, -math.inf):
        return Expect([('val', Num(t, x)), ('err', 'FOAR0002')])
    return val(t, x)


def _ieee(op, t, x, y):
    """x, y Python floats of type t (already promoted)"""
    finite = x == x and y == y and abs(x) != math.inf and abs(y) != math.inf
    if op == 'div' and y == 0:
        if x != x or x == 0:
            return val(t, math.nan)
        s = (1 if x > 0 else -1) * (-1 if neg_zero(y) else 1)
        return val(t, math.inf * s)
    if not finite:
        # IEEE 754 rules for infinities / NaN: the host float arithmetic implements them
        if op == '+':
            r = x + y
        elif op == '-':
            r = x - y
        elif op == '*':
            r = x * y
        else:
            r = x / y
        return val(t, r)
    fx, fy = Fraction(x), Fraction(y)
    if op == '+':
        fr, z = fx + fy, x + y
    elif op == '-':
        fr, z = fx - fy, x - y
    elif op == '*':
        fr = fx * fy
        z = 0.0 if (neg_zero(x) or x < 0) == (neg_zero(y) or y < 0) else -0.0
    else:
        fr = fx / fy
        z = 0.0 if (neg_zero(x) or x < 0) == (neg_zero(y) or y < 0) else -0.0
    return _from_exact(t, fr, z)


# ---------------------------------------------------------------- binary operators
def binary(op, a, b):
    """op in + - * div idiv mod ; a, b Num -> Expect"""
    t = common_type(a, b)
    a2, b2 = promote(a, t), promote(b, t)
    if op in ('+', '-', '*'):
        if t == 'integer':
            v = a2.v + b2.v if op == '+' else a2.v - b2.v if op == '-' else a2.v * b2.v
            return val(t, v)
        if t == 'decimal':
            v = a2.v + b2.v if op == '+' else a2.v - b2.v if op == '-' else a2.v * b2.v
            return _decimal(v, a2.v, b2.v)
        return _ieee(op, t, a2.v, b2.v)
    if op == 'div':
        if t in ('integer', 'decimal'):
            if b2.v == 0:
                return err('FOAR0001')
            return _decimal(Fraction(a2.v) / Fraction(b2.v), a2.v, b2.v)
        return _ieee('div', t, a2.v, b2.v)
    if op == 'idiv':
        return _idiv(t, a2, b2)
    if op == 'mod':
        return _mod(t, a2, b2)
    raise ValueError(op)


DIGITS = 18     # significant decimal digits every implementation must support (F&O 4.2 / XSD)


def _decimal(fr, *operands):
    """xs:decimal result: exact when the result and the operands fit 18 significant digits (the minimum
    every implementation supports); otherwise the implementation may have rounded an operand or the result
    in an implementation-defined manner: the value is only fixed to a tolerance of one unit in the 18th
    digit of the largest magnitude involved.  `approx` is that absolute tolerance (a Fraction) or False."""
    mags = [abs(Fraction(fr))]
    loose = False
    n = sig_digits(fr)
    if n is None or n > DIGITS:
        loose = True
    for o in operands:
        n = sig_digits(o)
        if n is None or n > DIGITS:
            loose = True
            mags.append(abs(Fraction(o)))
    if not loose:
        return val('decimal', Fraction(fr))
    return val('decimal', Fraction(fr), approx=max(mags) / 10 ** (DIGITS - 1))


def _idiv(t, a, b):
    if t in ('integer', 'decimal'):
        if b.v == 0:
            return err('FOAR0001')
        return val('integer', trunc(Fraction(a.v) / Fraction(b.v)))
    codes = []
    if b.v == 0:
        codes.append('FOAR0001')
    if a.v != a.v or b.v != b.v or abs(a.v) == math.inf:
        codes.append('FOAR0002')
    if codes:
        return err(*codes)
    if abs(b.v) == math.inf:
        return val('integer', 0)
    fa, fb = Fraction(a.v), Fraction(b.v)
    # F&O 3.1: exact truncated quotient; F&O 2.0: ($a div $b) cast as xs:integer.  They can differ when
    # the floating-point quotient rounds up to an integer: only decide when both definitions agree.
    q31 = trunc(fa / fb)
    e = _from_exact(t, fa / fb)
    if e.undecided or len(e.accept) != 1:
        return undecided('idiv-quotient-' + (e.undecided or 'overflow'))
    q20 = trunc(Fraction(e.accept[0][1].v))
    if q20 != q31:
        # both candidates are kept (for diagnostics) but the outcome is not decided
        return Expect([('val', Num('integer', q31)), ('val', Num('integer', q20))],
                      undecided='idiv-quotient-rounding')
    return val('integer', q31)


def _mod(t, a, b):
    if t in ('integer', 'decimal'):
        if b.v == 0:
            return err('FOAR0001')
        fa, fb = Fraction(a.v), Fraction(b.v)
        r = fa - fb * trunc(fa / fb)
        if t == 'integer':
            return val('integer', int(r))
        return _decimal(r, fa, fb)
    x, y = a.v, b.v
    if x != x or y != y:
        return val(t, math.nan)
    if abs(x) == math.inf or y == 0:
        return val(t, math.nan)
    if abs(y) == math.inf:
        return val(t, x)
    if x == 0:
        return val(t, x)
    fa, fb = Fraction(x), Fraction(y)
    r = fa - fb * trunc(fa / fb)
    if r == 0:
        return val(t, 0.0, free_zero_sign=True)
    return val(t, to_double(r))     # exact: a remainder of two floats of a format is representable in it


# ---------------------------------------------------------------- unary operators and rounding functions
def _round_half_up(fr):
    """nearest integer, ties toward positive infinity"""
    return floor_(Fraction(fr) + Fraction(1, 2))


def _round_half_even(fr):
    fr = Fraction(fr)
    fl = floor_(fr)
    rem = fr - fl
    if rem > Fraction(1, 2) or (rem == Fraction(1, 2) and fl % 2 == 1):
        return fl + 1
    return fl


def _scaled(fn, fr, p):
    s = Fraction(10) ** p
    return Fraction(fn(Fraction(fr) * s)) / s


def unary(fn, a, p=None):
    """fn in neg pos abs floor ceiling round rhe (round-half-to-even); p precision or None"""
    t = a.t
    if fn in ('pos', 'neg', 'abs'):
        if is_float_type(t) and a.v != a.v:
            return val(t, a.v)
        v = a.v if fn == 'pos' else -a.v if fn == 'neg' else abs(a.v)
        return _decimal(v, a.v) if t == 'decimal' else val(t, v)
    if is_float_type(t):
        x = a.v
        if x != x or abs(x) == math.inf or x == 0:
            return val(t, x)
        fr = Fraction(x)
    else:
        fr = Fraction(a.v)
    if fn == 'floor':
        r = Fraction(floor_(fr))
    elif fn == 'ceiling':
        r = Fraction(-floor_(-fr))
    elif fn == 'round':
        r = _scaled(_round_half_up, fr, p or 0)
    elif fn == 'rhe':
        r = _scaled(_round_half_even, fr, p or 0)
    else:
        raise ValueError(fn)
    if t == 'integer':
        return val(t, int(r))     # a multiple of 10**-p with p < 0, or the value itself
    if t == 'decimal':
        return _decimal(r, fr)
    if r == 0:
        return val(t, -0.0 if fr < 0 else 0.0)
    x = to_double(r) if t == 'double' else to_single(r)
    if abs(x) == math.inf:
        return undecided('round-overflow')
    return val(t, x)
