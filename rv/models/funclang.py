"""funclang - a small function-item language for C16: JSON-able program AST, renderer to
XPath 3.0/3.1 text and a reference evaluator in which function items are Python closures
over an explicit lexical environment.  Shares no code with elementpath (and with no other
model of the harness); semantics transcribed from XPath 3.1 (3.1.5-3.1.7, 3.2.2, 3.12, 3.15)
and F&O 3.1 chapter 16.

AST (lists, first element is the tag):
  ['int', n] ['str', s] ['bool', b] ['dec', text] ['dbl', text] ['flt', text]
  ['seq', e...]            (e1, e2, ...)          ['range', a, b]     (a to b)
  ['var', name]  ['ctx']   .                      ['paren', e]        (e)
  ['op', o, a, b]          o in + - * mod ||      ['neg', e]
  ['cmp', o, a, b]         value comparison       ['gcmp', o, a, b]   general comparison
  ['and', a, b] ['or', a, b]
  ['if', c, t, e]
  ['for', v, s, body] ['let', v, e, body]   ('forc'/'letc': same, rendered comma-joined with a
                                              directly nested for/let body)
  ['fn', [[name, type|None]...], body, rettype|None]       inline function expression
  ['call', f, [args]]      dynamic call f(args)
  ['pcall', f, [arg|None]] partial application of a dynamic function (None = '?')
  ['ref', name, arity]     named function reference name#arity
  ['scall', name, [arg|None]]   static call of a built-in (None = '?': partial application)
  ['idx', e, k]            e[k]  (k an expression not depending on the focus)
  ['map', a, b]            a ! b
  ['arr', [members]]       square array constructor (3.1)
  ['inst', e, T]           e instance of T   (T one of xs:integer xs:decimal xs:double xs:float xs:string xs:boolean)
  ['raw', text]            unmodelled XPath text (engine-only equivalences)
"""
import math
from decimal import Decimal
from fractions import Fraction
from functools import cmp_to_key


FOCUS_REFS = ('string', 'string-length', 'position', 'last')


class ModelError(Exception):
    """the program is outside the modelled well-typed fragment: the model does not decide"""


class SortTypeError(ModelError):
    """sort keys not comparable with 'lt' (XPTY0004 in the specification)"""


class Func:
    __slots__ = ('arity', 'impl', 'kind')

    def __init__(self, arity, impl, kind):
        self.arity = arity
        self.impl = impl      # list of argument sequences -> sequence
        self.kind = kind      # 'inline' | 'named' | 'partial'


class Arr:
    __slots__ = ('members',)

    def __init__(self, members):
        self.members = members    # list of sequences


class Flt(float):
    """xs:float value (only exactly representable values are generated)"""
    __slots__ = ()


# --------------------------------------------------------------------------- rendering
def _q(s):
    return "'" + s.replace("'", "''") + "'"


POSTFIX_OK = ('var', 'ref', 'call', 'pcall', 'paren', 'ctx', 'idx', 'arr')


def _pf(e):
    """render e so that a predicate / argument list can follow"""
    if e[0] in POSTFIX_OK or (e[0] == 'scall'):
        return render(e)
    if e[0] == 'seq':
        return render(e)
    return '(' + render(e) + ')'


def _args(args):
    return '(' + ', '.join('?' if a is None else render(a) for a in args) + ')'


def render(e):
    t = e[0]
    if t == 'int':
        return str(e[1]) if e[1] >= 0 else '(%d)' % e[1]
    if t == 'str':
        return _q(e[1])
    if t == 'bool':
        return 'true()' if e[1] else 'false()'
    if t == 'dec':
        return e[1] if not e[1].startswith('-') else '(%s)' % e[1]
    if t == 'dbl':
        if e[1] in ('NaN', 'INF', '-INF'):
            return "xs:double('%s')" % e[1]
        return e[1] if not e[1].startswith('-') else '(%s)' % e[1]
    if t == 'flt':
        return "xs:float('%s')" % e[1]
    if t == 'seq':
        return '(' + ', '.join(render(x) for x in e[1:]) + ')'
    if t == 'range':
        return '(%s to %s)' % (render(e[1]), render(e[2]))
    if t == 'var':
        return '$' + e[1]
    if t == 'ctx':
        return '.'
    if t == 'paren':
        return '(' + render(e[1]) + ')'
    if t in ('op', 'cmp', 'gcmp'):
        return '(%s %s %s)' % (render(e[2]), e[1], render(e[3]))
    if t == 'neg':
        return '(- %s)' % render(e[1])
    if t in ('and', 'or'):
        return '(%s %s %s)' % (render(e[1]), t, render(e[2]))
    if t == 'if':
        return '(if (%s) then %s else %s)' % (render(e[1]), render(e[2]), render(e[3]))
    if t in ('for', 'let', 'forc', 'letc'):
        kw = t[:3]
        sep = ' in ' if kw == 'for' else ' := '
        binds = ['$%s%s%s' % (e[1], sep, render(e[2]))]
        body = e[3]
        while t.endswith('c') and body[0] in (kw, kw + 'c'):
            binds.append('$%s%s%s' % (body[1], sep, render(body[2])))
            t = body[0]
            body = body[3]
        return '(%s %s return %s)' % (kw, ', '.join(binds), render(body))
    if t == 'fn':
        ps = ', '.join('$%s' % n if ty is None else '$%s as %s' % (n, ty) for n, ty in e[1])
        ret = '' if len(e) < 4 or e[3] is None else ' as %s' % e[3]
        return 'function(%s)%s { %s }' % (ps, ret, render(e[2]))
    if t in ('call', 'pcall'):
        return _pf(e[1]) + _args(e[2])
    if t == 'ref':
        return '%s#%d' % (e[1], e[2])
    if t == 'scall':
        return e[1] + _args(e[2])
    if t == 'idx':
        return '%s[%s]' % (_pf(e[1]), render(e[2]))
    if t == 'map':
        return '(%s ! %s)' % (render(e[1]), render(e[2]))
    if t == 'arr':
        return '[' + ', '.join(render(m) for m in e[1]) + ']'
    if t == 'inst':
        return '(%s instance of %s)' % (render(e[1]), e[2])
    if t == 'raw':
        return e[1]
    raise ValueError('unknown node %r' % (t,))


# --------------------------------------------------------------------------- values
def is_num(v):
    return isinstance(v, (int, float, Decimal)) and not isinstance(v, bool)


def fmt_double(x):
    if x != x:
        return 'NaN'
    if x == math.inf:
        return 'INF'
    if x == -math.inf:
        return '-INF'
    if x == 0:
        return '-0' if math.copysign(1, x) < 0 else '0'
    return repr(float(x))


def describe(v):
    """same shape as rv.engine.describe, function items reduced to ['function']"""
    if isinstance(v, list):
        return [describe(x) for x in v]
    if isinstance(v, bool):
        return ['boolean', 'true' if v else 'false']
    if isinstance(v, int):
        return ['integer', str(v)]
    if isinstance(v, Flt):
        return ['float', fmt_double(v)]
    if isinstance(v, float):
        return ['double', fmt_double(v)]
    if isinstance(v, Decimal):
        if v == v.to_integral_value():
            return ['decimal', str(int(v))]
        return ['decimal', format(v.normalize(), 'f')]
    if isinstance(v, str):
        return ['string', v]
    if isinstance(v, Func):
        return ['function']
    if isinstance(v, Arr):
        return ['array', [describe(m) for m in v.members]]
    raise ModelError('undescribable %r' % (v,))


def xstring(v):
    """fn:string of an atomic value (only the types used here)"""
    if isinstance(v, bool):
        return 'true' if v else 'false'
    if isinstance(v, int):
        return str(v)
    if isinstance(v, str):
        return v
    raise ModelError('string() of %r not modelled' % (type(v).__name__,))


def _exact(v):
    """exact rational of a number; refuses values whose promotion to double is inexact"""
    if isinstance(v, float):
        if v != v or v in (math.inf, -math.inf):
            return v
        return Fraction(v)
    if isinstance(v, int):
        if abs(v) > 2 ** 52:
            raise ModelError('integer too large for exact promotion')
        return Fraction(v)
    f = Fraction(v)
    if Fraction(float(v)) != f:
        raise ModelError('decimal not exactly representable as double')
    return f


def atom_cmp(x, y):
    """three-way comparison of two atomic sort-key items as in fn:sort (deep-equal, NaN first,
    strings under the code-point collation, otherwise 'lt')"""
    if is_num(x) and is_num(y):
        xn = isinstance(x, float) and x != x
        yn = isinstance(y, float) and y != y
        if xn or yn:
            return 0 if (xn and yn) else (-1 if xn else 1)
        a, b = _exact(x), _exact(y)
        return -1 if a < b else (1 if a > b else 0)
    if isinstance(x, bool) and isinstance(y, bool):
        return (x > y) - (x < y)
    if isinstance(x, str) and isinstance(y, str):
        return (x > y) - (x < y)      # Python compares str by code point
    raise SortTypeError('keys %s / %s not comparable' % (type(x).__name__, type(y).__name__))


def key_cmp(a, b):
    """deep-less-than of F&O 3.1 16.2.? (fn:sort): lexicographic, shorter prefix first"""
    for x, y in zip(a, b):
        c = atom_cmp(x, y)
        if c:
            return c
    return (len(a) > len(b)) - (len(a) < len(b))


def atomize(seq):
    out = []
    for v in seq:
        if isinstance(v, Arr):
            for m in v.members:
                out.extend(atomize(m))
        elif isinstance(v, Func):
            raise ModelError('atomization of a function item (FOTY0013)')
        else:
            out.append(v)
    return out


def stable_sort(items, keys):
    """-> list of positions (0-based) of the stable ordering of items under keys"""
    order = sorted(range(len(items)), key=cmp_to_key(lambda i, j: key_cmp(keys[i], keys[j])))
    return order


# --------------------------------------------------------------------------- built-ins
def _one(seq, what):
    if len(seq) != 1:
        raise ModelError('%s: singleton required' % what)
    return seq[0]


def _int(seq, what='integer'):
    v = _one(seq, what)
    if isinstance(v, bool) or not isinstance(v, int):
        raise ModelError('%s: xs:integer required' % what)
    return v


def _str(seq, what='string'):
    v = _one(seq, what)
    if not isinstance(v, str):
        raise ModelError('%s: xs:string required' % what)
    return v


def _bool(seq, what='boolean'):
    v = _one(seq, what)
    if not isinstance(v, bool):
        raise ModelError('%s: xs:boolean required' % what)
    return v


def _ints(seq):
    for v in seq:
        if isinstance(v, bool) or not isinstance(v, int):
            raise ModelError('xs:integer* required')
    return seq


def _strs(seq):
    for v in seq:
        if not isinstance(v, str):
            raise ModelError('xs:string* required')
    return seq


def _atomic_opt(seq):
    if len(seq) > 1:
        raise ModelError('xs:anyAtomicType? required')
    if seq and isinstance(seq[0], (Func, Arr)):
        raise ModelError('atomic required')
    return xstring(seq[0]) if seq else ''


def _func(seq, arity, what):
    v = _one(seq, what)
    if not isinstance(v, Func):
        raise ModelError('%s: function item required' % what)
    if v.arity != arity:
        raise ModelError('%s: arity %d required' % (what, arity))
    return v


def _arr(seq):
    v = _one(seq, 'array')
    if not isinstance(v, Arr):
        raise ModelError('array required')
    return v


def _substring(s, start, length=None):
    # integer arguments only: positions p with start <= p (< start + length)
    out = []
    for p, ch in enumerate(s, 1):
        if p >= start and (length is None or p < start + length):
            out.append(ch)
    return ''.join(out)


def b_abs(ip, a):
    return [abs(_int(a[0]))]


def b_concat(ip, a):
    return [''.join(_atomic_opt(x) for x in a)]


def b_for_each(ip, a):
    f = _func(a[1], 1, 'for-each')
    out = []
    for item in a[0]:
        out.extend(ip.apply(f, [[item]]))
    return out


def b_filter(ip, a):
    f = _func(a[1], 1, 'filter')
    out = []
    for item in a[0]:
        if _bool(ip.apply(f, [[item]]), 'filter predicate'):
            out.append(item)
    return out


def b_fold_left(ip, a):
    f = _func(a[2], 2, 'fold-left')
    acc = a[1]
    ip.features.add('fold-zero-multi' if len(acc) > 1 else 'fold-zero-empty' if not acc else 'fold-zero-single')
    for item in a[0]:
        acc = ip.apply(f, [acc, [item]])
    return acc


def b_fold_right(ip, a):
    f = _func(a[2], 2, 'fold-right')
    acc = a[1]
    ip.features.add('fold-zero-multi' if len(acc) > 1 else 'fold-zero-empty' if not acc else 'fold-zero-single')
    for item in reversed(a[0]):
        acc = ip.apply(f, [[item], acc])
    return acc


def b_for_each_pair(ip, a):
    f = _func(a[2], 2, 'for-each-pair')
    out = []
    for x, y in zip(a[0], a[1]):
        out.extend(ip.apply(f, [[x], [y]]))
    return out


def b_apply(ip, a):
    f = _one(a[0], 'apply')
    arr = _one(a[1], 'apply')
    if not isinstance(f, Func) or not isinstance(arr, Arr):
        raise ModelError('apply: function and array required')
    if f.arity != len(arr.members):
        raise ModelError('apply: FOAP0001')
    return ip.apply(f, [list(m) for m in arr.members])


def b_sort(ip, a):
    items = a[0]
    if len(a) >= 2 and a[1]:
        if a[1] != ['http://www.w3.org/2005/xpath-functions/collation/codepoint']:
            raise ModelError('collation not modelled')
    if len(a) == 3:
        f = _func(a[2], 1, 'sort key')
        keys = [atomize(ip.apply(f, [[it]])) for it in items]
    else:
        keys = [atomize([it]) for it in items]
    for k in keys:
        for x in k:
            if not (is_num(x) or isinstance(x, (bool, str))):
                raise ModelError('sort key type not modelled')
    return [items[i] for i in stable_sort(items, keys)]


def _subsequence(ip, a):
    s, start = a[0], _int(a[1])
    if len(a) == 3:
        n = _int(a[2])
        return [v for p, v in enumerate(s, 1) if start <= p < start + n]
    return [v for p, v in enumerate(s, 1) if start <= p]


def _remove(ip, a):
    k = _int(a[1])
    return [v for p, v in enumerate(a[0], 1) if p != k]


def _index_of(ip, a):
    k = _int(a[1])
    return [p for p, v in enumerate(_ints(a[0]), 1) if v == k]


# name -> (allowed arities, implementation, first version)
BUILTINS = {
    'abs': ((1,), b_abs, '3.0'),
    'concat': ((2, 3, 4, 5), b_concat, '3.0'),
    'string-length': ((1,), lambda ip, a: [len(_str(a[0]))], '3.0'),
    'upper-case': ((1,), lambda ip, a: [_upper(_str(a[0]))], '3.0'),
    'string': ((1,), lambda ip, a: [_atomic_opt(a[0])], '3.0'),
    'string-join': ((1, 2), lambda ip, a: [(_str(a[1]) if len(a) > 1 else '').join(_strs(a[0]))], '3.0'),
    'substring': ((2, 3), lambda ip, a: [_substring(_str(a[0]), *[_int(x) for x in a[1:]])], '3.0'),
    'starts-with': ((2,), lambda ip, a: [_str(a[0]).startswith(_str(a[1]))], '3.0'),
    'contains': ((2,), lambda ip, a: [_str(a[1]) in _str(a[0])], '3.0'),
    'count': ((1,), lambda ip, a: [len(a[0])], '3.0'),
    'sum': ((1,), lambda ip, a: [sum(_ints(a[0]))], '3.0'),
    'reverse': ((1,), lambda ip, a: list(reversed(a[0])), '3.0'),
    'head': ((1,), lambda ip, a: a[0][:1], '3.0'),
    'tail': ((1,), lambda ip, a: a[0][1:], '3.0'),
    'empty': ((1,), lambda ip, a: [not a[0]], '3.0'),
    'exists': ((1,), lambda ip, a: [bool(a[0])], '3.0'),
    'not': ((1,), lambda ip, a: [not _bool(a[0])], '3.0'),
    'subsequence': ((2, 3), _subsequence, '3.0'),
    'remove': ((2,), _remove, '3.0'),
    'index-of': ((2,), _index_of, '3.0'),
    'for-each': ((2,), b_for_each, '3.0'),
    'filter': ((2,), b_filter, '3.0'),
    'fold-left': ((3,), b_fold_left, '3.0'),
    'fold-right': ((3,), b_fold_right, '3.0'),
    'for-each-pair': ((3,), b_for_each_pair, '3.0'),
    'apply': ((2,), b_apply, '3.1'),
    'array:get': ((2,), lambda ip, a: ip.apply(_arr(a[0]), [a[1]]), '3.1'),
    'sort': ((1, 2, 3), b_sort, '3.1'),
}


def _upper(s):
    if not s.isascii():
        raise ModelError('upper-case: ASCII only in the model')
    return s.upper()


PARAM_TYPES = {
    'xs:integer': lambda s: len(s) == 1 and isinstance(s[0], int) and not isinstance(s[0], bool),
    'xs:string': lambda s: len(s) == 1 and isinstance(s[0], str),
    'xs:boolean': lambda s: len(s) == 1 and isinstance(s[0], bool),
    'xs:integer*': lambda s: all(isinstance(v, int) and not isinstance(v, bool) for v in s),
    'xs:string*': lambda s: all(isinstance(v, str) for v in s),
    'item()*': lambda s: True,
    'item()': lambda s: len(s) == 1,
    'function(*)': lambda s: len(s) == 1 and isinstance(s[0], (Func, Arr)),
}


# --------------------------------------------------------------------------- evaluator
class Interp:
    def __init__(self, version='3.1', max_steps=40000, max_depth=60):
        self.version = version
        self.steps = 0
        self.max_steps = max_steps
        self.depth = 0
        self.max_depth = max_depth
        self.features = set()
        self.created = {}      # id(fn node) -> number of function items created from it
        self.active = {}       # id(fn node) -> calls in progress
        self.calls = 0

    def run(self, ast, focus=1):
        return self.ev(ast, {'.': focus})

    def tick(self):
        self.steps += 1
        if self.steps > self.max_steps:
            raise ModelError('step budget')

    def apply(self, f, args):
        if isinstance(f, Arr):
            if len(args) != 1:
                raise ModelError('array lookup arity')
            k = _int(args[0], 'array index')
            if not 1 <= k <= len(f.members):
                raise ModelError('array index out of bounds')
            self.features.add('array-call')
            return list(f.members[k - 1])
        if not isinstance(f, Func):
            raise ModelError('not a function item')
        if f.arity != len(args):
            raise ModelError('wrong number of arguments')
        self.tick()
        self.calls += 1
        res = f.impl(args)
        if len(res) > 300:
            raise ModelError('sequence too long for the model budget')
        return res

    def ev(self, e, env):
        self.tick()
        self.depth += 1
        if self.depth > self.max_depth:
            self.depth -= 1
            raise ModelError('depth budget')
        try:
            h = getattr(self, 'e_' + str(e[0]), None)
            if h is None:
                raise ModelError('unknown node %r' % (e[0],))
            res = h(e, env)
            if len(res) > 300:
                raise ModelError('sequence too long for the model budget')
            for x in res:
                if isinstance(x, str) and len(x) > 400:
                    raise ModelError('string too long for the model budget')
                if isinstance(x, int) and not -10 ** 12 < x < 10 ** 12:
                    raise ModelError('integer too large for the model budget')
            return res
        finally:
            self.depth -= 1

    # literals
    def e_int(self, e, env):
        return [e[1]]

    def e_str(self, e, env):
        return [e[1]]

    def e_bool(self, e, env):
        return [bool(e[1])]

    def e_dec(self, e, env):
        return [Decimal(e[1])]

    def e_dbl(self, e, env):
        t = e[1]
        return [float({'NaN': 'nan', 'INF': 'inf', '-INF': '-inf'}.get(t, t))]

    def e_flt(self, e, env):
        return [Flt(float(e[1]))]

    def e_raw(self, e, env):
        raise ModelError('unmodelled raw text')

    def e_seq(self, e, env):
        out = []
        for x in e[1:]:
            out.extend(self.ev(x, env))
        return out

    def e_range(self, e, env):
        a, b = _int(self.ev(e[1], env)), _int(self.ev(e[2], env))
        if b - a > 200:
            raise ModelError('range too long')
        return list(range(a, b + 1))

    def e_var(self, e, env):
        if e[1] not in env or e[1] == '.':
            raise ModelError('unbound variable $%s' % e[1])
        return env[e[1]]

    def e_ctx(self, e, env):
        if '.' not in env:
            raise ModelError('absent focus')
        return [env['.']]

    def e_paren(self, e, env):
        return self.ev(e[1], env)

    def e_op(self, e, env):
        o = e[1]
        a, b = self.ev(e[2], env), self.ev(e[3], env)
        if o == '||':
            return [_atomic_opt(a) + _atomic_opt(b)]
        x, y = _int(a), _int(b)
        if o == '+':
            return [x + y]
        if o == '-':
            return [x - y]
        if o == '*':
            return [x * y]
        if o == 'mod':
            if x < 0 or y <= 0:
                raise ModelError('mod: only non-negative / positive operands modelled')
            return [x % y]
        raise ModelError('operator %r' % o)

    def e_neg(self, e, env):
        return [-_int(self.ev(e[1], env))]

    @staticmethod
    def _cmp(o, x, y):
        ok = (isinstance(x, str) and isinstance(y, str)) or \
             (isinstance(x, int) and isinstance(y, int) and not isinstance(x, bool) and not isinstance(y, bool))
        if not ok:
            raise ModelError('comparison operands')
        return {'eq': x == y, 'ne': x != y, 'lt': x < y, 'le': x <= y, 'gt': x > y, 'ge': x >= y,
                '=': x == y, '!=': x != y, '<': x < y, '<=': x <= y, '>': x > y, '>=': x >= y}[o]

    def e_cmp(self, e, env):
        a, b = self.ev(e[2], env), self.ev(e[3], env)
        return [self._cmp(e[1], _one(a, 'cmp'), _one(b, 'cmp'))]

    def e_gcmp(self, e, env):
        a, b = self.ev(e[2], env), self.ev(e[3], env)
        return [any(self._cmp(e[1], x, y) for x in a for y in b)]

    def e_and(self, e, env):
        a = _bool(self.ev(e[1], env))
        b = _bool(self.ev(e[2], env))
        return [a and b]

    def e_or(self, e, env):
        a = _bool(self.ev(e[1], env))
        b = _bool(self.ev(e[2], env))
        return [a or b]

    def e_if(self, e, env):
        c = _bool(self.ev(e[1], env), 'if condition')
        return self.ev(e[2] if c else e[3], env)

    def e_for(self, e, env):
        out = []
        if e[1] in env:
            self.features.add('rebind')
        for item in self.ev(e[2], env):
            env2 = dict(env)
            env2[e[1]] = [item]
            out.extend(self.ev(e[3], env2))
        return out

    e_forc = e_for

    def e_let(self, e, env):
        if e[1] in env:
            self.features.add('rebind')
        env2 = dict(env)
        env2[e[1]] = self.ev(e[2], env)
        return self.ev(e[3], env2)

    e_letc = e_let

    def e_fn(self, e, env):
        params, body = e[1], e[2]
        rettype = e[3] if len(e) > 3 else None
        captured = {k: v for k, v in env.items() if k != '.'}    # focus is absent in the body
        nid = id(e)
        self.created[nid] = self.created.get(nid, 0) + 1
        if self.created[nid] > 1:
            self.features.add('closure-multi')
        self.features.add('inline')
        names = [p[0] for p in params]
        if len(set(names)) != len(names):
            raise ModelError('duplicate parameter')

        def impl(args):
            env2 = dict(captured)
            for (name, ty), a in zip(params, args):
                if ty is not None:
                    self.features.add('typed-param')
                    if ty not in PARAM_TYPES or not PARAM_TYPES[ty](a):
                        raise ModelError('argument does not match declared type')
                if name in captured:
                    self.features.add('rebind')
                env2[name] = a
            self.active[nid] = self.active.get(nid, 0) + 1
            if self.active[nid] > 1:
                self.features.add('recursion')
            try:
                res = self.ev(body, env2)
            finally:
                self.active[nid] -= 1
            if rettype is not None and (rettype not in PARAM_TYPES or not PARAM_TYPES[rettype](res)):
                raise ModelError('result does not match declared type')
            return res

        return [Func(len(params), impl, 'inline')]

    def _callee(self, e, env):
        f = self.ev(e, env)
        if len(f) != 1 or not isinstance(f[0], (Func, Arr)):
            raise ModelError('dynamic call on a non-function')
        return f[0]

    def e_call(self, e, env):
        f = self._callee(e[1], env)
        args = [self.ev(a, env) for a in e[2]]
        self.features.add('dynamic-call')
        if isinstance(f, Func) and f.kind == 'partial':
            self.features.add('call-partial')
        return self.apply(f, args)

    def _partial(self, f, fixed, feature):
        """fixed: list of evaluated sequences or None for placeholders"""
        if isinstance(f, Arr):
            raise ModelError('partial application of an array not modelled')
        if f.arity != len(fixed):
            raise ModelError('wrong number of arguments')
        n = sum(1 for x in fixed if x is None)
        self.features.add(feature)
        if f.kind == 'partial':
            self.features.add('partial-chained')
        pos = tuple(i for i, x in enumerate(fixed) if x is None)
        self.features.add('placeholders:%s/%d' % (','.join(str(p + 1) for p in pos), len(fixed)))

        def impl(args):
            it = iter(args)
            full = [next(it) if x is None else x for x in fixed]
            return self.apply(f, full)

        return [Func(n, impl, 'partial')]

    def e_pcall(self, e, env):
        f = self._callee(e[1], env)
        fixed = [None if a is None else self.ev(a, env) for a in e[2]]
        if all(x is not None for x in fixed):
            raise ModelError('pcall without placeholder')
        return self._partial(f, fixed, 'partial-dynamic')

    def _builtin(self, name, arity):
        b = BUILTINS.get(name)
        if b is None or arity not in b[0]:
            raise ModelError('unmodelled function %s#%d' % (name, arity))
        if b[2] > self.version:
            raise ModelError('%s not in XPath %s' % (name, self.version))
        impl = b[1]
        return Func(arity, lambda args: impl(self, args), 'named')

    def e_ref(self, e, env):
        self.features.add('named-ref')
        if e[2] == 0 and e[1] in FOCUS_REFS:
            # XPath 3.1 3.1.6: a reference to a focus-dependent function captures the focus of the
            # reference expression itself, not the focus in force when the item is called later
            if '.' not in env:
                raise ModelError('focus-dependent reference without a focus')
            self.features.add('focus-ref')
            item, pos, last = env['.'], env.get('.pos'), env.get('.last')
            if e[1] == 'string':
                return [Func(0, lambda args: [_atomic_opt([item])], 'named')]
            if e[1] == 'string-length':
                return [Func(0, lambda args: [len(_atomic_opt([item]))], 'named')]
            if pos is None:
                raise ModelError('position/last outside a simple map')
            return [Func(0, lambda args: [pos if e[1] == 'position' else last], 'named')]
        return [self._builtin(e[1], e[2])]

    def e_scall(self, e, env):
        f = self._builtin(e[1], len(e[2]))
        self.features.add('fn:' + e[1])
        if any(a is None for a in e[2]):
            fixed = [None if a is None else self.ev(a, env) for a in e[2]]
            return self._partial(f, fixed, 'partial-static')
        args = [self.ev(a, env) for a in e[2]]
        self.tick()
        return f.impl(args)

    def e_idx(self, e, env):
        s = self.ev(e[1], env)
        k = _int(self.ev(e[2], env), 'positional predicate')
        self.features.add('positional')
        return s[k - 1:k] if k >= 1 else []

    def e_map(self, e, env):
        out = []
        self.features.add('simple-map')
        src = self.ev(e[1], env)
        for k, item in enumerate(src):
            env2 = dict(env)
            env2['.'] = item
            env2['.pos'] = k + 1
            env2['.last'] = len(src)
            out.extend(self.ev(e[2], env2))
        return out

    def e_inst(self, e, env):
        v = self.ev(e[1], env)
        self.features.add('instance-of')
        if len(v) != 1:
            return [False]
        x = v[0]
        if isinstance(x, (Func, Arr)):
            return [False]
        t = e[2]
        if isinstance(x, bool):
            return [t == 'xs:boolean']
        if isinstance(x, str):
            return [t == 'xs:string']
        if isinstance(x, Flt):
            return [t == 'xs:float']
        if isinstance(x, float):
            return [t == 'xs:double']
        if isinstance(x, int):
            return [t in ('xs:integer', 'xs:decimal')]
        if isinstance(x, Decimal):
            return [t == 'xs:decimal']
        raise ModelError('instance of: unmodelled value')

    def e_arr(self, e, env):
        if self.version < '3.1':
            raise ModelError('arrays need 3.1')
        return [Arr([self.ev(m, env) for m in e[1]])]


# --------------------------------------------------------------------------- AST utilities
def children(e):
    """-> list of (path, child) for expression children; path is a tuple of indexes"""
    t = e[0]
    out = []
    if t in ('seq',):
        out = [((i,), e[i]) for i in range(1, len(e))]
    elif t in ('range', 'and', 'or', 'map', 'idx'):
        out = [((1,), e[1]), ((2,), e[2])]
    elif t in ('paren', 'neg', 'inst'):
        out = [((1,), e[1])]
    elif t in ('op', 'cmp', 'gcmp'):
        out = [((2,), e[2]), ((3,), e[3])]
    elif t == 'if':
        out = [((1,), e[1]), ((2,), e[2]), ((3,), e[3])]
    elif t in ('for', 'let', 'forc', 'letc'):
        out = [((2,), e[2]), ((3,), e[3])]
    elif t == 'fn':
        out = [((2,), e[2])]
    elif t in ('call', 'pcall'):
        out = [((1,), e[1])] + [((2, i), a) for i, a in enumerate(e[2]) if a is not None]
    elif t == 'scall':
        out = [((2, i), a) for i, a in enumerate(e[2]) if a is not None]
    elif t == 'arr':
        out = [((1, i), a) for i, a in enumerate(e[1])]
    return out


def subterms(e, path=()):
    yield path, e
    for p, c in children(e):
        yield from subterms(c, path + p)


def size(e):
    return sum(1 for _ in subterms(e))


def get_at(e, path):
    for i in path:
        e = e[i]
    return e


def replace_at(e, path, new):
    if not path:
        return new
    e2 = list(e)
    e2[path[0]] = replace_at(e[path[0]], path[1:], new)
    return e2
