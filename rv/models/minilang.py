"""minilang - a small typed expression language: JSON-able AST, renderer to XPath text and a reference
evaluator over Python lists (the definitional "list model" of XPath 2.0/3.1 and F&O).

Shares no code with elementpath.  Everything is dispatched through tables keyed by node kind /
function name so that another check can add node kinds (inline functions, dynamic calls, maps ...):

    RENDER[kind](node, R)              -> XPath text (self-delimiting: usable as an operand anywhere)
    EVAL[kind](ev, node, env, focus)   -> list of V
    FUNCS[name] = Func(fn, minver, lo, hi)   with fn(ev, args, node, env, focus) -> list of V
    CHILDREN[kind](node)               -> list of (child ast, role) used by the generic walkers

AST nodes are lists ``[kind, ...]``:

    ['lit', type, lexical]             type: integer decimal double float string boolean
    ['seq', e1, ..., en]               comma operator, () when empty
    ['to', a, b]
    ['filter', E, P]                   E[P]
    ['ctx'] ['pos'] ['last']           .  position()  last()
    ['var', name]
    ['for'|'some'|'every', [[name, E], ...], body]
    ['map', A, B]                      A ! B   (3.0+)
    ['if', c, t, e]
    ['call', name, arg, ...]
    ['arith', op, a, b]  op: + - * div idiv mod        ['neg', a]
    ['vcmp', op, a, b]   op: eq ne lt le gt ge         ['gcmp', op, a, b]  op: = != < <= > >=
    ['and', a, b] ['or', a, b]
    ['nodes', path]                    a path over the model document (doc['paths'][path] -> node ids)

Values are ``V(t, v)``: t in integer (int) / decimal (Fraction) / double (float) / float (float holding a
binary32 value) / string / boolean / untypedAtomic (str) / node (node id).  ``approx`` marks a number that
the specification fixes only up to an implementation-defined precision (non-terminating decimal division,
floating point sums whose value depends on the order of addition).

Outcomes the specification leaves open raise ``Undecided``; dynamic/type errors raise ``XErr`` with the set
of acceptable codes and the AST node where the error originated.
"""
import math
import re
import struct
from fractions import Fraction

NUMERIC = ('integer', 'decimal', 'float', 'double')
RANK = {'integer': 0, 'decimal': 1, 'float': 2, 'double': 3}
MAX_SEQ = 20000


class XErr(Exception):
    def __init__(self, *codes):
        Exception.__init__(self, '|'.join(codes))
        self.codes = set(codes)
        self.origin = None


class Undecided(Exception):
    pass


class V:
    __slots__ = ('t', 'v', 'approx')

    def __init__(self, t, v, approx=False):
        self.t = t
        self.v = v
        self.approx = approx

    def __repr__(self):
        return '%s(%r%s)' % (self.t, self.v, '~' if self.approx else '')


class Focus:
    __slots__ = ('item', 'pos', 'size')

    def __init__(self, item, pos, size):
        self.item = item
        self.pos = pos
        self.size = size


TRUE = V('boolean', True)
FALSE = V('boolean', False)


def boolean(b):
    return [TRUE if b else FALSE]


def integer(i):
    return V('integer', int(i))


# ------------------------------------------------------------------ numbers
# classification aid only: the engine keeps xs:float values in double precision (a listed, test-pinned deviation);
# with this flag the model does the same, which tells whether a mismatch is explained by that deviation alone
FLOAT_AS_DOUBLE = [False]


def f32(x):
    """round a Python float to the nearest binary32 value"""
    if FLOAT_AS_DOUBLE[0]:
        return x
    if x != x or x in (math.inf, -math.inf):
        return x
    try:
        return struct.unpack('<f', struct.pack('<f', x))[0]
    except OverflowError:
        return math.copysign(math.inf, x)


def terminating(fr):
    d = fr.denominator
    for p in (2, 5):
        while d % p == 0:
            d //= p
    return d == 1


def decimal_text(fr):
    """exact decimal expansion of a terminating Fraction (no exponent, no trailing zeros)"""
    if fr.denominator == 1:
        return str(fr.numerator)
    sign = '-' if fr < 0 else ''
    fr = abs(fr)
    ip = fr.numerator // fr.denominator
    rest = fr - ip
    digits = []
    n = 0
    while rest and n < 400:
        rest *= 10
        d = rest.numerator // rest.denominator
        digits.append(str(d))
        rest -= d
        n += 1
    return '%s%d.%s' % (sign, ip, ''.join(digits))


def mk_decimal(fr, approx=False):
    fr = Fraction(fr)
    if not terminating(fr) or len(str(abs(fr.numerator))) > 18 or len(str(fr.denominator)) > 18:
        approx = True
    return V('decimal', fr, approx)


def parse_double_lexical(s):
    """xs:double lexical mapping (XSD 1.0); None if not in the lexical space"""
    s = s.strip(' \t\n\r')
    if s == 'NaN':
        return math.nan
    if s == 'INF':
        return math.inf
    if s == '-INF':
        return -math.inf
    if re.fullmatch(r'[+-]?(\d+(\.\d*)?|\.\d+)([eE][+-]?\d+)?', s):
        try:
            return float(s)
        except (ValueError, OverflowError):
            return None
    return None


def lit_value(t, lex):
    if t == 'integer':
        return V('integer', int(lex))
    if t == 'decimal':
        return mk_decimal(Fraction(lex))
    if t in ('double', 'float'):
        x = parse_double_lexical(lex)
        if x is None:
            raise ValueError('bad %s literal %r' % (t, lex))
        return V(t, f32(x) if t == 'float' else x)
    if t == 'string':
        return V('string', lex)
    if t == 'boolean':
        return V('boolean', lex == 'true')
    if t == 'untypedAtomic':
        return V('untypedAtomic', lex)
    raise ValueError('unknown literal type %r' % (t,))


def to_float_value(x):
    """numeric V -> Python float (correctly rounded)"""
    if x.t in ('double', 'float'):
        return x.v
    try:
        return float(x.v)          # int and Fraction: correctly rounded
    except OverflowError:
        return math.copysign(math.inf, x.v)


def promote(x, t):
    """numeric promotion / subtype substitution of V x to numeric type t (rank(t) >= rank(x.t))"""
    if x.t == t:
        return x
    if t == 'decimal':
        return V('decimal', Fraction(x.v), x.approx)
    if t == 'float':
        v = f32(to_float_value(x))
        inexact = v == v and v not in (math.inf, -math.inf) and Fraction(v) != Fraction(x.v)
        return V('float', v, x.approx or inexact)
    if t == 'double':
        return V('double', to_float_value(x), x.approx)
    raise ValueError((x, t))


def common(a, b):
    return a.t if RANK[a.t] >= RANK[b.t] else b.t


def is_nan(x):
    return x.t in ('double', 'float') and x.v != x.v


def trunc_fr(fr):
    n = abs(fr.numerator) // fr.denominator
    return -n if fr < 0 else n


def round_double(x):
    """fn:round on a double: nearest integral value, ties toward +INF; -0 for results in (-0.5, -0]"""
    if x != x or x in (math.inf, -math.inf) or abs(x) >= 2.0 ** 52:
        return x
    f = math.floor(x)
    r = f + 1.0 if (x - f) >= 0.5 else float(f)
    if r == 0:
        return -0.0 if (x < 0 or math.copysign(1, x) < 0) else 0.0
    return float(r)


def round_fr(fr):
    return math.floor(fr + Fraction(1, 2))


def _fdiv(a, b):
    try:
        return a / b
    except ZeroDivisionError:
        if a != a or a == 0:
            return math.nan
        s = math.copysign(1, a) * math.copysign(1, b)
        return math.copysign(math.inf, s)


def _fmod(a, b):
    try:
        return math.fmod(a, b)
    except ValueError:
        return math.nan


def arith(op, a, b):
    """binary arithmetic on two numeric V (F&O 4.2 / 6.2)"""
    t = common(a, b)
    a = promote(a, t)
    b = promote(b, t)
    approx = a.approx or b.approx
    if t in ('integer', 'decimal'):
        x, y = a.v, b.v
        if op == '+':
            r = x + y
        elif op == '-':
            r = x - y
        elif op == '*':
            r = x * y
        elif op == 'div':
            if y == 0:
                raise XErr('FOAR0001')
            return mk_decimal(Fraction(x) / Fraction(y), approx)
        elif op == 'idiv':
            if y == 0:
                raise XErr('FOAR0001')
            if approx:
                raise Undecided('idiv of an imprecise decimal')
            return V('integer', trunc_fr(Fraction(x) / Fraction(y)))
        elif op == 'mod':
            if y == 0:
                raise XErr('FOAR0001')
            if approx:
                raise Undecided('mod of an imprecise value')
            q = trunc_fr(Fraction(x) / Fraction(y))
            r = x - y * q
        else:
            raise ValueError(op)
        if t == 'integer':
            return V('integer', int(r))
        return mk_decimal(r, approx)
    x, y = a.v, b.v
    if op == '+':
        r = x + y
    elif op == '-':
        r = x - y
    elif op == '*':
        r = x * y
    elif op == 'div':
        r = _fdiv(x, y)
    elif op == 'mod':
        r = _fmod(x, y)
    elif op == 'idiv':
        bad = x != x or y != y or x in (math.inf, -math.inf)
        if y == 0:
            if bad:
                raise XErr('FOAR0001', 'FOAR0002')      # both rules of F&O 4.2.5 apply
            raise XErr('FOAR0001')
        if bad:
            raise XErr('FOAR0002')
        if y in (math.inf, -math.inf):
            return V('integer', 0)
        if approx:
            raise Undecided('idiv of an imprecise value')
        exact = trunc_fr(Fraction(x) / Fraction(y))
        q = _fdiv(x, y)
        if q in (math.inf, -math.inf) or q != q or math.trunc(q) != exact:
            raise Undecided('idiv: rounding of the floating point quotient matters')
        return V('integer', exact)
    else:
        raise ValueError(op)
    if op == 'mod' and approx:
        raise Undecided('mod of an imprecise value')
    if t == 'float':
        r32 = f32(r)
        if r32 != r and r == r:
            approx = True       # implementations that keep xs:float in double precision differ here (see C06)
        r = r32
    return V(t, r, approx)


def negate(a):
    if a.t == 'integer':
        return V('integer', -a.v)
    if a.t == 'decimal':
        return V('decimal', -a.v, a.approx)
    return V(a.t, -a.v, a.approx)


# ------------------------------------------------------------------ comparisons
def _close(x, y):
    try:
        x = float(x)
        y = float(y)
    except OverflowError:
        return True
    if x != x or y != y:
        return False
    if x == y:
        return True
    if x in (math.inf, -math.inf) or y in (math.inf, -math.inf):
        return False
    return abs(x - y) <= 1e-6 * max(abs(x), abs(y), 1e-300)


def compare_atomic(a, b):
    """-> -1/0/1, or None when unordered (NaN); raises XErr XPTY0004 for incomparable types"""
    ta, tb = a.t, b.t
    if ta == 'untypedAtomic':
        ta = 'string'
    if tb == 'untypedAtomic':
        tb = 'string'
    if ta in RANK and tb in RANK:
        t = ta if RANK[ta] >= RANK[tb] else tb
        x = promote(a, t).v
        y = promote(b, t).v
        if (a.approx or b.approx) and _close(x, y):
            raise Undecided('comparison of an imprecise number with a close value')
        if x != x or y != y:
            return None
        return -1 if x < y else (1 if x > y else 0)
    if ta == tb == 'string':
        x = [ord(c) for c in a.v]
        y = [ord(c) for c in b.v]
        return -1 if x < y else (1 if x > y else 0)
    if ta == tb == 'boolean':
        return -1 if a.v < b.v else (1 if a.v > b.v else 0)
    raise XErr('XPTY0004')


def rel(op, c):
    if c is None:
        return op == 'ne'
    return {'eq': c == 0, 'ne': c != 0, 'lt': c < 0, 'le': c <= 0, 'gt': c > 0, 'ge': c >= 0}[op]


GOPS = {'=': 'eq', '!=': 'ne', '<': 'lt', '<=': 'le', '>': 'gt', '>=': 'ge'}


def cast_untyped(x, target):
    """cast of an xs:untypedAtomic V as demanded by general comparisons / arithmetic"""
    if target in RANK:
        d = parse_double_lexical(x.v)
        if d is None:
            raise XErr('FORG0001')
        return V('double', d)
    if target == 'boolean':
        s = x.v.strip(' \t\n\r')
        if s in ('true', '1'):
            return TRUE
        if s in ('false', '0'):
            return FALSE
        raise XErr('FORG0001')
    return V('string', x.v)


def general_pair(op, a, b):
    if a.t == 'untypedAtomic' and b.t != 'untypedAtomic':
        a = cast_untyped(a, b.t)
    elif b.t == 'untypedAtomic' and a.t != 'untypedAtomic':
        b = cast_untyped(b, a.t)
    return rel(GOPS[op], compare_atomic(a, b))


def deep_eq(a, b):
    """equality used by index-of / distinct-values: eq where defined, otherwise distinct"""
    try:
        return compare_atomic(a, b) == 0
    except XErr:
        return False


# ------------------------------------------------------------------ evaluator
class Func:
    __slots__ = ('fn', 'minver', 'lo', 'hi')

    def __init__(self, fn, minver='2.0', lo=1, hi=None):
        self.fn = fn
        self.minver = minver
        self.lo = lo
        self.hi = lo if hi is None else hi


EVAL = {}
FUNCS = {}
RENDER = {}
CHILDREN = {}


class Evaluator:
    """Reference evaluator.  `doc` = {'paths': {path: [node id, ...]}, 'sv': {node id: string value}}."""

    def __init__(self, version='3.1', doc=None, eager=False):
        self.version = version
        self.doc = doc or {'paths': {}, 'sv': {}}
        self.eager = eager           # evaluate both branches of if / and / or (to find errors in dead code)
        self.intdec_free = False     # a result's type may legitimately be xs:integer or xs:decimal
        self.zero_free = False       # the sign of a zero result is implementation-dependent
        self.order_free = False      # fn:distinct-values was used (order / representative are free)
        self.steps = 0
        self.max_steps = 40000

    def eval(self, node, env, focus=None):
        self.steps += 1
        if self.steps > self.max_steps:
            raise Undecided('evaluation budget')
        try:
            fn = EVAL[node[0]]
        except (KeyError, IndexError, TypeError):
            raise ValueError('unknown node %r' % (node,))
        try:
            res = fn(self, node, env, focus)
        except XErr as e:
            if e.origin is None:
                e.origin = node
            raise
        if len(res) > MAX_SEQ:
            raise Undecided('sequence too long')
        return res

    def run(self, node, env=None, focus=None):
        return self.eval(node, dict(env or {}), focus)

    # helpers used by the node/function implementations
    def atomize(self, seq):
        out = []
        for x in seq:
            if x.t == 'node':
                out.append(V('untypedAtomic', self.doc['sv'][x.v]))
            else:
                out.append(x)
        return out

    def ebv(self, seq):
        if not seq:
            return False
        x = seq[0]
        if x.t == 'node':
            return True
        if len(seq) > 1:
            raise XErr('FORG0006')
        if x.t == 'boolean':
            return x.v
        if x.t in ('string', 'untypedAtomic'):
            return len(x.v) > 0
        if x.t in RANK:
            if x.approx and _close(x.v, 0):
                raise Undecided('EBV of an imprecise number close to zero')
            return not (x.v == 0 or x.v != x.v)
        raise XErr('FORG0006')

    def numeric_operand(self, seq):
        """atomized arithmetic operand: None for empty, numeric V otherwise"""
        seq = self.atomize(seq)
        if not seq:
            return None
        if len(seq) > 1:
            raise XErr('XPTY0004')
        x = seq[0]
        if x.t == 'untypedAtomic':
            x = cast_untyped(x, 'double')
        if x.t not in RANK:
            raise XErr('XPTY0004')
        return x


def ev_kind(kind):
    def deco(fn):
        EVAL[kind] = fn
        return fn
    return deco


@ev_kind('lit')
def _e_lit(ev, node, env, focus):
    return [lit_value(node[1], node[2])]


@ev_kind('seq')
def _e_seq(ev, node, env, focus):
    out = []
    for sub in node[1:]:
        out.extend(ev.eval(sub, env, focus))
    return out


@ev_kind('nodes')
def _e_nodes(ev, node, env, focus):
    return [V('node', nid) for nid in ev.doc['paths'][node[1]]]


def single_integer(ev, seq):
    seq = ev.atomize(seq)
    if not seq:
        return None
    if len(seq) > 1:
        raise XErr('XPTY0004')
    x = seq[0]
    if x.t == 'untypedAtomic':
        raise Undecided('untypedAtomic where xs:integer is required')
    if x.t != 'integer':
        raise XErr('XPTY0004')
    return x.v


@ev_kind('to')
def _e_to(ev, node, env, focus):
    a = single_integer(ev, ev.eval(node[1], env, focus))
    b = single_integer(ev, ev.eval(node[2], env, focus))
    if a is None or b is None:
        return []
    if b - a > MAX_SEQ:
        raise Undecided('range too long')
    return [V('integer', i) for i in range(a, b + 1)]


@ev_kind('filter')
def _e_filter(ev, node, env, focus):
    base = ev.eval(node[1], env, focus)
    out = []
    n = len(base)
    for i, item in enumerate(base, 1):
        p = ev.eval(node[2], env, Focus(item, i, n))
        if len(p) == 1 and p[0].t in RANK:
            x = p[0]
            if x.approx:
                raise Undecided('imprecise numeric predicate')
            if x.v == x.v and x.v == i:
                out.append(item)
        elif ev.ebv(p):
            out.append(item)
    return out


@ev_kind('ctx')
def _e_ctx(ev, node, env, focus):
    if focus is None:
        raise XErr('XPDY0002')
    return [focus.item]


@ev_kind('pos')
def _e_pos(ev, node, env, focus):
    if focus is None:
        raise XErr('XPDY0002')
    return [V('integer', focus.pos)]


@ev_kind('last')
def _e_last(ev, node, env, focus):
    if focus is None:
        raise XErr('XPDY0002')
    return [V('integer', focus.size)]


@ev_kind('var')
def _e_var(ev, node, env, focus):
    try:
        return list(env[node[1]])
    except KeyError:
        raise XErr('XPST0008')


def iter_bindings(ev, bindings, env, focus, i=0):
    """all variable environments of a for/some/every clause list, in nested-loop order"""
    if i == len(bindings):
        yield env
        return
    name, expr = bindings[i]
    for item in ev.eval(expr, env, focus):
        env2 = dict(env)
        env2[name] = [item]
        for e in iter_bindings(ev, bindings, env2, focus, i + 1):
            yield e


@ev_kind('for')
def _e_for(ev, node, env, focus):
    out = []
    for e in iter_bindings(ev, node[1], env, focus):
        out.extend(ev.eval(node[2], e, focus))
        if len(out) > MAX_SEQ:
            raise Undecided('sequence too long')
    return out


def _quantified(ev, node, env, focus, some):
    errors = []
    decided = False
    for e in iter_bindings(ev, node[1], env, focus):
        try:
            b = ev.ebv(ev.eval(node[2], e, focus))
        except XErr as x:
            errors.append(x)
            continue
        if b == some:
            decided = True
    if errors:
        if decided:
            raise Undecided('quantified expression: an error and a deciding value (2.3.4 / 3.9)')
        err = XErr(*sorted(set(c for x in errors for c in x.codes)))
        err.origin = errors[0].origin
        raise err
    return boolean(decided if some else not decided)


@ev_kind('some')
def _e_some(ev, node, env, focus):
    return _quantified(ev, node, env, focus, True)


@ev_kind('every')
def _e_every(ev, node, env, focus):
    return _quantified(ev, node, env, focus, False)


@ev_kind('map')
def _e_map(ev, node, env, focus):
    base = ev.eval(node[1], env, focus)
    out = []
    n = len(base)
    for i, item in enumerate(base, 1):
        out.extend(ev.eval(node[2], env, Focus(item, i, n)))
        if len(out) > MAX_SEQ:
            raise Undecided('sequence too long')
    return out


@ev_kind('if')
def _e_if(ev, node, env, focus):
    c = ev.ebv(ev.eval(node[1], env, focus))
    if ev.eager:
        t = ev.eval(node[2], env, focus)
        e = ev.eval(node[3], env, focus)
        return t if c else e
    return ev.eval(node[2] if c else node[3], env, focus)


def _logic(ev, node, env, focus, is_and):
    vals = []
    errs = []
    for sub in (node[1], node[2]):
        try:
            vals.append(ev.ebv(ev.eval(sub, env, focus)))
        except XErr as x:
            errs.append(x)
    if errs:
        if ev.eager or not vals:
            err = XErr(*sorted(set(c for x in errs for c in x.codes)))
            err.origin = errs[0].origin
            raise err
        # one operand raised: the other may legitimately decide the result (XPath 3.6)
        if vals[0] == (not is_and):
            raise Undecided('and/or: error in one operand, other operand decides')
        err = XErr(*sorted(errs[0].codes))
        err.origin = errs[0].origin
        raise err
    return boolean(all(vals) if is_and else any(vals))


@ev_kind('and')
def _e_and(ev, node, env, focus):
    return _logic(ev, node, env, focus, True)


@ev_kind('or')
def _e_or(ev, node, env, focus):
    return _logic(ev, node, env, focus, False)


@ev_kind('arith')
def _e_arith(ev, node, env, focus):
    a = ev.numeric_operand(ev.eval(node[2], env, focus))
    b = ev.numeric_operand(ev.eval(node[3], env, focus))
    if a is None or b is None:
        return []
    return [arith(node[1], a, b)]


@ev_kind('neg')
def _e_neg(ev, node, env, focus):
    a = ev.numeric_operand(ev.eval(node[1], env, focus))
    if a is None:
        return []
    return [negate(a)]


@ev_kind('vcmp')
def _e_vcmp(ev, node, env, focus):
    a = ev.atomize(ev.eval(node[2], env, focus))
    b = ev.atomize(ev.eval(node[3], env, focus))
    if len(a) > 1 or len(b) > 1:
        raise XErr('XPTY0004')
    if not a or not b:
        return []
    return boolean(rel(node[1], compare_atomic(a[0], b[0])))


@ev_kind('gcmp')
def _e_gcmp(ev, node, env, focus):
    a = ev.atomize(ev.eval(node[2], env, focus))
    b = ev.atomize(ev.eval(node[3], env, focus))
    found = False
    errs = []
    for x in a:
        for y in b:
            try:
                if general_pair(node[1], x, y):
                    found = True
            except XErr as e:
                errs.append(e)
    if errs:
        if found:
            raise Undecided('general comparison: an error and a true pair')
        raise XErr(*sorted(set(c for e in errs for c in e.codes)))
    return boolean(found)


@ev_kind('call')
def _e_call(ev, node, env, focus):
    name = node[1]
    f = FUNCS.get(name)
    nargs = len(node) - 2
    if f is None or f.minver > ev.version or not (f.lo <= nargs <= f.hi):
        raise XErr('XPST0017')
    args = [ev.eval(a, env, focus) for a in node[2:]]
    return f.fn(ev, args, node, env, focus)


# ------------------------------------------------------------------ functions (F&O)
def func(name, minver='2.0', lo=1, hi=None):
    def deco(fn):
        FUNCS[name] = Func(fn, minver, lo, hi)
        return fn
    return deco


@func('count')
def _f_count(ev, a, *_):
    return [V('integer', len(a[0]))]


@func('empty')
def _f_empty(ev, a, *_):
    return boolean(not a[0])


@func('exists')
def _f_exists(ev, a, *_):
    return boolean(bool(a[0]))


@func('not')
def _f_not(ev, a, *_):
    return boolean(not ev.ebv(a[0]))


@func('boolean')
def _f_boolean(ev, a, *_):
    return boolean(ev.ebv(a[0]))


@func('head', '3.0')
def _f_head(ev, a, *_):
    return a[0][:1]


@func('tail', '3.0')
def _f_tail(ev, a, *_):
    return a[0][1:]


@func('reverse')
def _f_reverse(ev, a, *_):
    return a[0][::-1]


@func('data', lo=1)
def _f_data(ev, a, *_):
    return ev.atomize(a[0])


def double_arg(ev, seq, optional=False):
    """function conversion rules for a parameter of type xs:double (xs:double? when optional)"""
    seq = ev.atomize(seq)
    if not seq:
        if optional:
            return None
        raise XErr('XPTY0004')
    if len(seq) > 1:
        raise XErr('XPTY0004')
    x = seq[0]
    if x.t == 'untypedAtomic':
        x = cast_untyped(x, 'double')
    if x.t not in RANK:
        raise XErr('XPTY0004')
    if x.approx:
        raise Undecided('imprecise position argument')
    return promote(x, 'double').v


def integer_arg(ev, seq):
    """function conversion rules for a parameter of type xs:integer"""
    seq = ev.atomize(seq)
    if len(seq) != 1:
        raise XErr('XPTY0004')
    x = seq[0]
    if x.t == 'untypedAtomic':
        raise Undecided('untypedAtomic where xs:integer is required')
    if x.t != 'integer':
        raise XErr('XPTY0004')
    return x.v


@func('subsequence', lo=2, hi=3)
def _f_subsequence(ev, a, *_):
    start = round_double(double_arg(ev, a[1]))
    if len(a) == 2:
        return [x for p, x in enumerate(a[0], 1) if start <= p]
    length = round_double(double_arg(ev, a[2]))
    end = start + length       # IEEE: -INF + INF = NaN, every comparison with NaN is false
    return [x for p, x in enumerate(a[0], 1) if start <= p and p < end]


@func('insert-before', lo=3)
def _f_insert_before(ev, a, *_):
    pos = integer_arg(ev, a[1])
    target = a[0]
    if pos < 1:
        pos = 1
    if pos > len(target):
        return target + a[2]
    return target[:pos - 1] + a[2] + target[pos - 1:]


@func('remove', lo=2)
def _f_remove(ev, a, *_):
    pos = integer_arg(ev, a[1])
    return [x for p, x in enumerate(a[0], 1) if p != pos]


@func('index-of', lo=2)
def _f_index_of(ev, a, *_):
    seq = ev.atomize(a[0])
    srch = ev.atomize(a[1])
    if len(srch) != 1:
        raise XErr('XPTY0004')
    return [V('integer', p) for p, x in enumerate(seq, 1) if deep_eq(x, srch[0])]


def same_key(x, y):
    if is_nan(x) and is_nan(y):
        return True
    return deep_eq(x, y)


@func('distinct-values')
def _f_distinct_values(ev, a, *_):
    ev.order_free = True
    out = []
    for x in ev.atomize(a[0]):
        if not any(same_key(x, y) for y in out):
            out.append(x)
    return out


@func('zero-or-one')
def _f_zero_or_one(ev, a, *_):
    if len(a[0]) > 1:
        raise XErr('FORG0003')
    return a[0]


@func('one-or-more')
def _f_one_or_more(ev, a, *_):
    if not a[0]:
        raise XErr('FORG0004')
    return a[0]


@func('exactly-one')
def _f_exactly_one(ev, a, *_):
    if len(a[0]) != 1:
        raise XErr('FORG0005')
    return a[0]


def numeric_items(ev, seq):
    """atomize + untypedAtomic->double; -> (values, kind) kind in numeric/string/boolean/mixed/empty"""
    vals = []
    for x in ev.atomize(seq):
        if x.t == 'untypedAtomic':
            x = cast_untyped(x, 'double')
        vals.append(x)
    if not vals:
        return vals, 'empty'
    if all(x.t in RANK for x in vals):
        return vals, 'numeric'
    if all(x.t == 'string' for x in vals):
        return vals, 'string'
    if all(x.t == 'boolean' for x in vals):
        return vals, 'boolean'
    return vals, 'mixed'


def fold_sum(vals):
    """sum of >= 1 numeric values promoted to their common type"""
    t = max((x.t for x in vals), key=lambda k: RANK[k])
    vals = [promote(x, t) for x in vals]
    if len(vals) == 1:
        return vals[0]
    if t in ('integer', 'decimal'):
        tot = sum(x.v for x in vals)
        approx = any(x.approx for x in vals)
        return V('integer', tot) if t == 'integer' else mk_decimal(tot, approx)
    left = vals[0]
    for x in vals[1:]:
        left = arith('+', left, x)
    right = vals[-1]
    for x in reversed(vals[:-1]):
        right = arith('+', x, right)
    approx = any(x.approx for x in vals)
    lv, rv = left.v, right.v
    same = (lv == rv and math.copysign(1, lv) == math.copysign(1, rv)) or (lv != lv and rv != rv)
    if same and lv == lv and lv not in (math.inf, -math.inf):
        # an implementation may add more accurately than pairwise IEEE additions (compensated sums)
        try:
            fs = math.fsum(x.v for x in vals)
            if t == 'float':
                fs = f32(fs)
            if fs != lv:
                approx = True
                if abs(fs - lv) > 1e-9 * max(abs(fs), abs(lv)):
                    # catastrophic cancellation: a compensated sum (CPython >= 3.12) and a plain fold differ in
                    # the leading digits; which one an implementation returns is not decided here
                    raise Undecided('floating point sum depends on the summation algorithm (cancellation)')
        except (OverflowError, ValueError):
            approx = True
    if len(vals) >= 3:
        # F&O defines fn:sum by repeated op:numeric-add but leaves the association open in practice: CPython's
        # sum() (used by the engine) is a compensated summation since 3.12 and may differ from every plain
        # left/right fold by an ulp.  The last bits of a floating sum of three or more values are not decided.
        approx = True
    if not same:
        if (lv != lv) != (rv != rv) or lv in (math.inf, -math.inf) or rv in (math.inf, -math.inf):
            raise Undecided('floating point sum depends on the order of additions (overflow)')
        if abs(lv - rv) > 1e-9 * max(abs(lv), abs(rv)):
            raise Undecided('floating point sum depends on the order of additions (cancellation)')
        approx = True
    return V(t, lv, approx)


@func('sum', lo=1, hi=2)
def _f_sum(ev, a, *_):
    vals, kind = numeric_items(ev, a[0])
    if kind == 'empty':
        if len(a) == 1:
            return [V('integer', 0)]
        z = ev.atomize(a[1])
        if len(z) > 1:
            raise XErr('XPTY0004')
        return z
    if len(a) == 2 and len(ev.atomize(a[1])) > 1:
        raise XErr('XPTY0004')
    if kind != 'numeric':
        raise XErr('FORG0006')
    return [fold_sum(vals)]


@func('avg')
def _f_avg(ev, a, *_):
    vals, kind = numeric_items(ev, a[0])
    if kind == 'empty':
        return []
    if kind != 'numeric':
        raise XErr('FORG0006')
    return [arith('div', fold_sum(vals), V('integer', len(vals)))]


def _minmax(ev, a, want_max):
    vals, kind = numeric_items(ev, a[0])
    if kind == 'empty':
        return []
    if kind == 'mixed':
        raise XErr('FORG0006')
    if kind == 'numeric':
        top = max((x.t for x in vals), key=lambda k: RANK[k])
        if top in ('float', 'double'):
            vals = [promote(x, top) for x in vals]
            if any(x.v != x.v for x in vals):
                return [V(top, math.nan)]
        elif len(set(x.t for x in vals)) > 1:
            ev.intdec_free = True       # "least common type reachable by promotion and subtype substitution"
    best = vals[0]
    for x in vals[1:]:
        c = compare_atomic(x, best)
        if c is None:
            raise Undecided('unordered')
        if (c > 0) if want_max else (c < 0):
            best = x
    if best.t in ('float', 'double') and best.v == 0:
        signs = set(math.copysign(1, x.v) for x in vals if x.v == 0)
        if len(signs) > 1:
            ev.zero_free = True
    return [best]


@func('max')
def _f_max(ev, a, *_):
    return _minmax(ev, a, True)


@func('min')
def _f_min(ev, a, *_):
    return _minmax(ev, a, False)


def string_of(ev, x):
    """xs:string cast for the types whose canonical form is not another property's business"""
    if x.t in ('string', 'untypedAtomic'):
        return x.v
    if x.t == 'integer':
        return str(x.v)
    if x.t == 'boolean':
        return 'true' if x.v else 'false'
    if x.t == 'decimal' and not x.approx:
        return decimal_text(x.v)
    raise Undecided('string form of %s' % x.t)


def _f_string_join(ev, a, *_):
    items = ev.atomize(a[0])
    if len(a) == 1:
        if ev.version < '3.0':
            raise XErr('XPST0017')
        sep = ''
    else:
        s = ev.atomize(a[1])
        if len(s) != 1 or s[0].t not in ('string', 'untypedAtomic'):
            raise XErr('XPTY0004')
        sep = s[0].v
    if ev.version < '3.1':
        if any(x.t not in ('string', 'untypedAtomic') for x in items):
            raise XErr('XPTY0004')
    return [V('string', sep.join(string_of(ev, x) for x in items))]


FUNCS['string-join'] = Func(_f_string_join, '2.0', 1, 2)


@func('round')
def _f_round(ev, a, *_):
    x = ev.numeric_operand(a[0])
    if x is None:
        return []
    if x.approx:
        raise Undecided('round of an imprecise value')
    if x.t == 'integer':
        return [x]
    if x.t == 'decimal':
        return [V('decimal', Fraction(round_fr(x.v)))]
    return [V(x.t, round_double(x.v))]


@func('string', lo=1)
def _f_string(ev, a, *_):
    if len(a[0]) > 1:
        raise XErr('XPTY0004')
    if not a[0]:
        return [V('string', '')]
    return [V('string', string_of(ev, ev.atomize(a[0])[0]))]


# ------------------------------------------------------------------ renderer
def q(s):
    return "'" + s.replace("'", "''") + "'"


def render_lit(t, lex):
    if t == 'integer':
        return lex if not lex.startswith('-') else '(%s)' % lex
    if t == 'decimal':
        if '.' not in lex:
            lex += '.0'
        return lex if not lex.startswith('-') else '(%s)' % lex
    if t == 'double':
        if lex in ('NaN', 'INF', '-INF'):
            return "xs:double('%s')" % lex
        txt = lex if ('e' in lex or 'E' in lex) else lex + 'e0'
        return txt if not txt.startswith('-') else '(%s)' % txt
    if t == 'float':
        return "xs:float('%s')" % lex
    if t == 'string':
        return q(lex)
    if t == 'boolean':
        return 'true()' if lex == 'true' else 'false()'
    if t == 'untypedAtomic':
        return 'xs:untypedAtomic(%s)' % q(lex)
    raise ValueError(t)


def render(node):
    """XPath text of an AST; every result is self-delimiting (a primary or parenthesized)"""
    try:
        fn = RENDER[node[0]]
    except (KeyError, IndexError, TypeError):
        raise ValueError('unknown node %r' % (node,))
    return fn(node, render)


def rd_kind(kind):
    def deco(fn):
        RENDER[kind] = fn
        return fn
    return deco


def bare(node, R):
    """render without the outer parentheses where that is harmless (function arguments, predicates)"""
    s = R(node)
    if node[0] in ('arith', 'vcmp', 'gcmp', 'and', 'or', 'neg', 'to', 'if', 'for', 'some', 'every', 'map') \
            and s.startswith('(') and s.endswith(')'):
        return s[1:-1]
    return s


RENDER['lit'] = lambda n, R: render_lit(n[1], n[2])
RENDER['seq'] = lambda n, R: '(' + ', '.join(bare(x, R) for x in n[1:]) + ')'
RENDER['nodes'] = lambda n, R: '(' + n[1] + ')'
RENDER['to'] = lambda n, R: '(%s to %s)' % (R(n[1]), R(n[2]))
RENDER['filter'] = lambda n, R: '%s[%s]' % (R(n[1]), bare(n[2], R))
RENDER['ctx'] = lambda n, R: '.'
RENDER['pos'] = lambda n, R: 'position()'
RENDER['last'] = lambda n, R: 'last()'
RENDER['var'] = lambda n, R: '$' + n[1]
RENDER['map'] = lambda n, R: '(%s ! %s)' % (R(n[1]), R(n[2]))
RENDER['if'] = lambda n, R: '(if (%s) then %s else %s)' % (bare(n[1], R), R(n[2]), R(n[3]))
RENDER['call'] = lambda n, R: '%s(%s)' % (n[1], ', '.join(bare(x, R) for x in n[2:]))
RENDER['arith'] = lambda n, R: '(%s %s %s)' % (R(n[2]), n[1], R(n[3]))
RENDER['neg'] = lambda n, R: '(- %s)' % R(n[1])
RENDER['vcmp'] = lambda n, R: '(%s %s %s)' % (R(n[2]), n[1], R(n[3]))
RENDER['gcmp'] = lambda n, R: '(%s %s %s)' % (R(n[2]), n[1], R(n[3]))
RENDER['and'] = lambda n, R: '(%s and %s)' % (R(n[1]), R(n[2]))
RENDER['or'] = lambda n, R: '(%s or %s)' % (R(n[1]), R(n[2]))


def _r_flwor(word, tail):
    def fn(n, R):
        binds = ', '.join('$%s in %s' % (name, R(e)) for name, e in n[1])
        return '(%s %s %s %s)' % (word, binds, tail, R(n[2]))
    return fn


RENDER['for'] = _r_flwor('for', 'return')
RENDER['some'] = _r_flwor('some', 'satisfies')
RENDER['every'] = _r_flwor('every', 'satisfies')


# ------------------------------------------------------------------ generic structure (walkers)
# role: 'same' = evaluated in the parent's focus; 'inner' = evaluated with a new focus (predicate, rhs of !)
CHILDREN['lit'] = lambda n: []
CHILDREN['nodes'] = lambda n: []
CHILDREN['ctx'] = CHILDREN['pos'] = CHILDREN['last'] = CHILDREN['var'] = lambda n: []
CHILDREN['seq'] = lambda n: [(x, 'same') for x in n[1:]]
CHILDREN['to'] = lambda n: [(n[1], 'same'), (n[2], 'same')]
CHILDREN['filter'] = lambda n: [(n[1], 'same'), (n[2], 'inner')]
CHILDREN['map'] = lambda n: [(n[1], 'same'), (n[2], 'inner')]
CHILDREN['if'] = lambda n: [(n[1], 'same'), (n[2], 'same'), (n[3], 'same')]
CHILDREN['call'] = lambda n: [(x, 'same') for x in n[2:]]
CHILDREN['arith'] = CHILDREN['vcmp'] = CHILDREN['gcmp'] = lambda n: [(n[2], 'same'), (n[3], 'same')]
CHILDREN['neg'] = lambda n: [(n[1], 'same')]
CHILDREN['and'] = CHILDREN['or'] = lambda n: [(n[1], 'same'), (n[2], 'same')]
CHILDREN['for'] = CHILDREN['some'] = CHILDREN['every'] = \
    lambda n: [(e, 'same') for _, e in n[1]] + [(n[2], 'same')]

BINDERS = ('for', 'some', 'every')


def children(node):
    return CHILDREN[node[0]](node)


def walk(node):
    yield node
    for c, _ in children(node):
        for x in walk(c):
            yield x


def depth(node):
    return 1 + max([depth(c) for c, _ in children(node)] or [0])


def size(node):
    return sum(1 for _ in walk(node))


def uses_focus(node):
    """does the expression depend on the focus of its own evaluation context?"""
    if node[0] in ('ctx', 'pos', 'last'):
        return True
    return any(role == 'same' and uses_focus(c) for c, role in children(node))


def free_vars(node, bound=frozenset()):
    if node[0] == 'var':
        return set() if node[1] in bound else {node[1]}
    if node[0] in BINDERS:
        out = set()
        b = set(bound)
        for name, e in node[1]:
            out |= free_vars(e, frozenset(b))
            b.add(name)
        return out | free_vars(node[2], frozenset(b))
    out = set()
    for c, _ in children(node):
        out |= free_vars(c, bound)
    return out


def min_version(node):
    v = '2.0'
    for n in walk(node):
        if n[0] == 'map':
            v = max(v, '3.0')
        elif n[0] == 'call':
            f = FUNCS.get(n[1])
            if f is not None:
                v = max(v, f.minver)
            if n[1] == 'string-join' and len(n) == 3:
                v = max(v, '3.0')
    return v


def value_literal(x):
    """AST literal denoting exactly the atomic V x (None when there is none)"""
    if x.approx:
        return None
    if x.t == 'integer':
        return ['lit', 'integer', str(x.v)]
    if x.t == 'decimal':
        return ['lit', 'decimal', decimal_text(x.v)]
    if x.t in ('double', 'float'):
        v = x.v
        if v != v:
            lex = 'NaN'
        elif v in (math.inf, -math.inf):
            lex = 'INF' if v > 0 else '-INF'
        elif v == 0:
            lex = '-0' if math.copysign(1, v) < 0 else '0'
        else:
            lex = repr(v)
        return ['lit', x.t, lex]
    if x.t == 'string':
        return ['lit', 'string', x.v]
    if x.t == 'boolean':
        return ['lit', 'boolean', 'true' if x.v else 'false']
    if x.t == 'untypedAtomic':
        return ['lit', 'untypedAtomic', x.v]
    return None


def seq_literal(seq):
    lits = [value_literal(x) for x in seq]
    if any(l is None for l in lits):
        return None
    if len(lits) == 1:
        return lits[0]
    return ['seq'] + lits


SUBST = {}


def substitute(node, env, focus):
    """replace free variable references (names in env: name -> list of V) and references to the current
    focus by literals; returns None when a value has no literal form (nodes, imprecise numbers)"""
    k = node[0]
    if k in SUBST:
        return SUBST[k](node, env, focus)
    if k == 'var':
        if node[1] in env:
            return seq_literal(env[node[1]])
        return node
    if k == 'ctx':
        return node if focus is None else value_literal(focus.item)
    if k == 'pos':
        return node if focus is None else ['lit', 'integer', str(focus.pos)]
    if k == 'last':
        return node if focus is None else ['lit', 'integer', str(focus.size)]
    if k in BINDERS:
        e2 = dict(env)
        binds = []
        for name, e in node[1]:
            s = substitute(e, e2, focus)
            if s is None:
                return None
            binds.append([name, s])
            e2.pop(name, None)
        body = substitute(node[2], e2, focus)
        if body is None:
            return None
        return [k, binds, body]
    if k in ('filter', 'map'):
        a = substitute(node[1], env, focus)
        b = substitute(node[2], env, None)
        if a is None or b is None:
            return None
        return [k, a, b]
    if k in ('lit', 'nodes'):
        return node
    head = 2 if k in ('call', 'arith', 'vcmp', 'gcmp') else 1
    out = list(node[:head])
    for sub in node[head:]:
        s = substitute(sub, env, focus)
        if s is None:
            return None
        out.append(s)
    return out


# ------------------------------------------------------------------ descriptions (for comparison)
def fmt_double(x):
    if x != x:
        return 'NaN'
    if x == math.inf:
        return 'INF'
    if x == -math.inf:
        return '-INF'
    if x == 0:
        return '-0' if math.copysign(1, x) < 0 else '0'
    return repr(float(x))


def describe_value(x):
    """[type label, canonical text] in the format of rv.engine.describe; nodes are ['node', id]"""
    if x.t == 'integer':
        return ['integer', str(x.v)]
    if x.t == 'decimal':
        if x.v.denominator == 1:
            return ['decimal', str(x.v.numerator)]
        if terminating(x.v):
            return ['decimal', decimal_text(x.v)]
        return ['decimal', '%.17g' % float(x.v)]
    if x.t in ('double', 'float'):
        return [x.t, fmt_double(x.v)]
    if x.t == 'boolean':
        return ['boolean', 'true' if x.v else 'false']
    if x.t == 'node':
        return ['node', x.v]
    return [x.t, x.v]


def describe_seq(seq):
    return [describe_value(x) for x in seq]
