"""Reference XDM model over the neutral document spec of rv/gen_xml.py:
node table in document order, the thirteen axes, node tests, predicates and path evaluation.
Plain set semantics transcribed from XPath 1.0 sections 2-2.5 / XPath 2.0 section 3.2; shares no code
with elementpath."""

XML_NS = 'http://www.w3.org/XML/1998/namespace'

FORWARD = {'child', 'descendant', 'descendant-or-self', 'attribute', 'self', 'following',
           'following-sibling', 'namespace'}
REVERSE = {'parent', 'ancestor', 'ancestor-or-self', 'preceding', 'preceding-sibling'}
AXES = sorted(FORWARD | REVERSE)


class Node:
    __slots__ = ('id', 'kind', 'parent', 'children', 'attrs', 'nss', 'name', 'value', 'ref', 'end')

    def __init__(self, kind, parent, name=None, value=None, ref=None):
        self.id = -1
        self.kind = kind          # doc elem attr ns text comment pi
        self.parent = parent      # Node or None
        self.children = []
        self.attrs = []
        self.nss = []
        self.name = name          # Clark name (elem/attr), target (pi), prefix (ns)
        self.value = value        # text content / attribute value / uri
        self.ref = ref            # how to find the concrete object: see Table
        self.end = -1             # id of the last node of the subtree (incl. ns/attrs)

    def __repr__(self):
        return '<%s#%d %s>' % (self.kind, self.id, self.name if self.name is not None else (self.value or '')[:8])


class Table:
    """mode: 'doc' (document node above the root element) | 'elem' (the root element is the tree root)
    nsmode: 'lxml' (in-scope namespaces from declarations) | 'et' (the `nsarg` mapping on every element)
    with_misc: keep document-level comments/PIs (lxml documents only)"""

    def __init__(self, spec, mode='doc', nsmode='lxml', nsarg=None, with_misc=True):
        self.nodes = []
        self.quirks = set()       # known deviations of the engine, used only to *classify* a mismatch
        self.mode = mode
        self.nsmode = nsmode
        self.nsarg = dict(nsarg or {})
        if mode == 'doc':
            doc = Node('doc', None, ref=('doc',))
            self._add(doc)
            if with_misc:
                for i, m in enumerate(spec['pre']):
                    self._misc(m, doc, ('pre', i))
            self._elem(spec['root'], doc, (), {})
            if with_misc:
                for i, m in enumerate(spec['post']):
                    self._misc(m, doc, ('post', i))
            doc.end = len(self.nodes) - 1
            self.root = doc
        else:
            self.root = self._elem(spec['root'], None, (), {})
        self.by_ref = {n.ref: n for n in self.nodes}

    def _add(self, n):
        n.id = len(self.nodes)
        self.nodes.append(n)
        return n

    def _misc(self, m, parent, ref):
        if m['k'] == 'c':
            n = Node('comment', parent, value=m['v'], ref=ref)
        else:
            n = Node('pi', parent, name=m['t'], value=m['v'], ref=ref)
        self._add(n)
        n.end = n.id
        parent.children.append(n)
        return n

    def _elem(self, e, parent, path, scope):
        n = Node('elem', parent, name=e['tag'], ref=path)
        self._add(n)
        if parent is not None:
            parent.children.append(n)
        scope = dict(scope)
        for pfx, uri in e['ns']:
            scope[pfx] = uri
        if self.nsmode == 'lxml':
            inscope = [('xml', XML_NS)] + [(p, u) for p, u in scope.items() if u and p != 'xml']
        else:
            inscope = [('xml', XML_NS)] + [(p, u) for p, u in self.nsarg.items() if p != 'xml']
        for pfx, uri in inscope:
            ns = Node('ns', n, name=pfx, value=uri, ref=('ns', path, pfx))
            self._add(ns)
            ns.end = ns.id
            n.nss.append(ns)
        for an, av in e['a']:
            a = Node('attr', n, name=an, value=av, ref=('attr', path, an))
            self._add(a)
            a.end = a.id
            n.attrs.append(a)
        for i, c in enumerate(e['c']):
            if c['k'] == 'e':
                self._elem(c, n, path + (i,), scope)
            elif c['k'] == 't':
                t = Node('text', n, value=c['v'], ref=path + (i,))
                self._add(t)
                t.end = t.id
                n.children.append(t)
            else:
                self._misc(c, n, path + (i,))
        n.end = len(self.nodes) - 1
        return n

    # ---------------------------------------------------------------- values
    def string_value(self, n):
        if n.kind in ('elem', 'doc'):
            return ''.join(self.nodes[i].value for i in range(n.id, n.end + 1) if self.nodes[i].kind == 'text')
        return n.value or ''

    # ---------------------------------------------------------------- axes (in axis order)
    def axis(self, name, n):
        nodes = self.nodes
        if name == 'self':
            return [n]
        if name == 'child':
            return list(n.children)
        if name == 'attribute':
            if n.kind == 'attr' and 'attribute-axis-of-attribute-is-self' in self.quirks:
                return [n]
            return list(n.attrs)
        if name == 'namespace':
            return list(n.nss)
        if name == 'parent':
            return [n.parent] if n.parent is not None else []
        if name == 'descendant':
            return [m for m in nodes[n.id + 1:n.end + 1] if m.kind not in ('attr', 'ns')]
        if name == 'descendant-or-self':
            return [n] + [m for m in nodes[n.id + 1:n.end + 1] if m.kind not in ('attr', 'ns')]
        if name == 'ancestor' or name == 'ancestor-or-self':
            out = [n] if name == 'ancestor-or-self' else []
            p = n.parent
            while p is not None:
                out.append(p)
                p = p.parent
            return out
        if name == 'following-sibling':
            if n.kind in ('attr', 'ns') or n.parent is None:
                return []
            sib = n.parent.children
            return sib[sib.index(n) + 1:]
        if name == 'preceding-sibling':
            if n.kind in ('attr', 'ns') or n.parent is None:
                return []
            sib = n.parent.children
            return sib[:sib.index(n)][::-1]
        if name == 'following':
            if n.kind in ('attr', 'ns') and 'following-of-attribute-or-namespace-is-empty' in self.quirks:
                return []
            # all nodes after n in document order, excluding descendants, attributes and namespaces
            return [m for m in nodes[n.end + 1:] if m.kind not in ('attr', 'ns')]
        if name == 'preceding':
            anc = set()
            p = n.parent
            while p is not None:
                anc.add(p.id)
                p = p.parent
            return [m for m in nodes[:n.id] if m.kind not in ('attr', 'ns') and m.id not in anc][::-1]
        raise ValueError(name)

    # ---------------------------------------------------------------- node tests
    def test(self, axis, test, n, nsmap):
        k = test[0]
        if k == 'node':
            return True
        if k == 'text':
            return n.kind == 'text'
        if k == 'comment':
            return n.kind == 'comment'
        if k == 'pi':
            return n.kind == 'pi' and (test[1] is None or n.name == test[1])
        principal = 'attr' if axis == 'attribute' else ('ns' if axis == 'namespace' else 'elem')
        if n.kind != principal:
            return False
        if k == '*':
            return True
        if principal == 'ns':
            # name test on the namespace axis: local part = prefix, no namespace
            if k == 'name':
                return test[2] is None and n.name == test[1]
            return False
        if n.name[0] == '{':
            uri, local = n.name[1:].split('}')
        else:
            uri, local = '', n.name
        if k == 'pfx*':
            return uri == nsmap[test[1]]
        if k == '*local':
            return local == test[1]          # *:NCName (XPath 2.0+): any namespace, or none
        if k == 'name':
            want_uri = nsmap[test[2]] if test[2] else ''
            return local == test[1] and uri == want_uri
        raise ValueError(test)

    # ---------------------------------------------------------------- predicates
    def pred(self, p, n, pos, size, nsmap):
        k = p[0]
        if k == 'num':
            return pos == p[1]
        if k == 'last':
            return pos == size
        if k == 'lastminus':
            return pos == size - p[1]
        if k == 'pos':
            return _cmp(pos, p[1], p[2])
        if k == 'posnum':
            return True                      # [position()]: a number that equals the position of every item
        if k == 'countnum':
            return pos == len(self.eval_path(p[1], n, nsmap)) + p[2]    # a number that varies with the item
        if k == 'attr':
            return any(a.name == p[1] for a in self.axis('attribute', n))
        if k == 'attrcmp':
            for a in self.axis('attribute', n):
                if a.name == p[1]:
                    if isinstance(p[3], str):
                        return _cmp(a.value, p[2], p[3])
                    try:
                        v = float(a.value)
                    except ValueError:
                        v = float('nan')
                    return _cmp(v, p[2], p[3])
            return False
        if k == 'path':
            return bool(self.eval_path(p[1], n, nsmap))
        if k == 'not':
            q = p[1]
            # inside not() a number is not a position test: effective boolean value of the number
            if q[0] == 'num':
                return not (q[1] != 0)
            if q[0] == 'last':
                return not (size != 0)
            if q[0] == 'lastminus':
                return not (size - q[1] != 0)
            if q[0] == 'posnum':
                return False
            if q[0] == 'countnum':
                return not (len(self.eval_path(q[1], n, nsmap)) + q[2] != 0)
            return not self.pred(q, n, pos, size, nsmap)
        if k == 'count':
            return _cmp(len(self.eval_path(p[1], n, nsmap)), p[2], p[3])
        raise ValueError(p)

    def apply_preds(self, seq, preds, nsmap):
        for p in preds:
            size = len(seq)
            seq = [m for i, m in enumerate(seq) if self.pred(p, m, i + 1, size, nsmap)]
        return seq

    # ---------------------------------------------------------------- paths
    def eval_step(self, step, ctx_nodes, nsmap):
        out = {}
        for n in ctx_nodes:
            seq = [m for m in self.axis(step['axis'], n) if self.test(step['axis'], step['test'], m, nsmap)]
            for m in self.apply_preds(seq, step['preds'], nsmap):
                out[m.id] = m
        return [out[i] for i in sorted(out)]

    def eval_path(self, path, ctx, nsmap):
        """path: {'abs': ''|'/'|'//', 'steps': [...]}  or {'union': [p, q]};  returns nodes in document order"""
        if 'union' in path:
            out = {}
            for sub in path['union']:
                for m in self.eval_path(sub, ctx, nsmap):
                    out[m.id] = m
            return [out[i] for i in sorted(out)]
        if path['abs']:
            r = ctx
            while r.parent is not None:
                r = r.parent
            cur = [r]
            if path['abs'] == '//':
                cur = self.axis('descendant-or-self', r)
        else:
            cur = [ctx]
        for i, step in enumerate(path['steps']):
            if i > 0 and step.get('sep') == '//':
                acc = {}
                for n in cur:
                    for m in self.axis('descendant-or-self', n):
                        acc[m.id] = m
                cur = [acc[j] for j in sorted(acc)]
            if 'paren' in step:
                seq = self.eval_path(step['paren'], ctx, nsmap)
                cur = self.apply_preds(seq, step['preds'], nsmap)
            else:
                cur = self.eval_step(step, cur, nsmap)
        return cur


def _cmp(a, op, b):
    if op == '=':
        return a == b
    if op == '!=':
        return a != b
    if op == '<':
        return a < b
    if op == '<=':
        return a <= b
    if op == '>':
        return a > b
    if op == '>=':
        return a >= b
    raise ValueError(op)


# -------------------------------------------------------------------- rendering
def render_test(test):
    k = test[0]
    if k == 'node':
        return 'node()'
    if k == 'text':
        return 'text()'
    if k == 'comment':
        return 'comment()'
    if k == 'pi':
        return 'processing-instruction()' if test[1] is None else "processing-instruction('%s')" % test[1]
    if k == '*':
        return '*'
    if k == 'pfx*':
        return '%s:*' % test[1]
    if k == '*local':
        return '*:%s' % test[1]
    return ('%s:%s' % (test[2], test[1])) if test[2] else test[1]


def render_pred(p):
    k = p[0]
    if k == 'num':
        return str(p[1])
    if k == 'last':
        return 'last()'
    if k == 'lastminus':
        return 'last() - %d' % p[1]
    if k == 'pos':
        return 'position() %s %d' % (p[1], p[2])
    if k == 'posnum':
        return 'position()'
    if k == 'countnum':
        return 'count(%s) + %d' % (render(p[1]), p[2]) if p[2] else 'count(%s)' % render(p[1])
    if k == 'attr':
        return '@' + _attr_lex(p[1])
    if k == 'attrcmp':
        v = ('"%s"' % p[3]) if isinstance(p[3], str) else str(p[3])
        return '@%s %s %s' % (_attr_lex(p[1]), p[2], v)
    if k == 'path':
        return render(p[1])
    if k == 'not':
        return 'not(%s)' % render_pred(p[1])
    if k == 'count':
        return 'count(%s) %s %d' % (render(p[1]), p[2], p[3])
    raise ValueError(p)


def _attr_lex(name):
    if name[0] == '{':
        uri, local = name[1:].split('}')
        pfx = {'urn:a': 'p1', 'urn:b': 'p2', 'urn:d': 'd'}[uri]
        return '%s:%s' % (pfx, local)
    return name


def render_step(step):
    if 'paren' in step:
        s = '(%s)' % render(step['paren'])
    else:
        axis, test = step['axis'], step['test']
        ab = step.get('abbr')
        if ab and axis == 'child':
            s = render_test(test)
        elif ab and axis == 'attribute':
            s = '@' + render_test(test)
        elif ab and axis == 'parent' and test == ['node'] and not step['preds']:
            s = '..'
        elif ab and axis == 'self' and test == ['node'] and not step['preds']:
            s = '.'
        else:
            s = '%s::%s' % (axis, render_test(test))
    for p in step['preds']:
        s += '[%s]' % render_pred(p)
    return s


def render(path):
    if 'union' in path:
        return ' | '.join(render(p) for p in path['union'])
    out = path['abs']
    for i, step in enumerate(path['steps']):
        if i > 0:
            out += step.get('sep', '/')
        out += render_step(step)
    return out
