"""Generator and reference tables for C20: small XSD schemas over the built-in simple types,
their rendering to XSD text, and instance documents.

Shares no code with elementpath.  The built-in derivation hierarchy is transcribed from
XSD Part 2 (section 3, "Built-in datatypes" diagram) and XDM 2.6.2 (xs:anyAtomicType above the
primitive types, list/union types directly below xs:anySimpleType).

Schema spec (JSON-able):
  {'v': '1.0'|'1.1', 'ns': bool,
   'stypes': [[name, sdef], ...]            global simple types (may refer to earlier ones)
   'ctypes': [[name, cdef], ...]            global complex types
   'root':   cdef                            anonymous complex type of the root element 'root'}
  ref  = ['b', builtin-name] | ['g', global-type-name]
  sdef = {'k':'restr','base':ref,'facets':[[facet, value], ...]} | {'k':'list','item':ref}
         | {'k':'union','members':[ref, ...]}
  cdef = {'k':'sc','base':ref,'attrs':[attr, ...]}                       simple-content extension
         | {'k':'model','group':group,'attrs':[attr, ...]}
  group = {'g':'sequence'|'choice','min':int,'max':int|None,'parts':[group | elem, ...]}
  elem  = {'el':name,'type':ref|sdef|cdef,'min':int,'max':int|None, 'nillable':bool,
           'default':str|None,'fixed':str|None}
  attr  = {'name':name,'type':ref|sdef,'use':'optional'|'required','default':str|None,'fixed':str|None}

Instance spec: [tag, [[attrname, value], ...], text|None, [children...]] with local names; the
special attribute names 'xsi:nil' and 'xsi:type' are rendered in the XSI namespace.
"""
XSD_NS = 'http://www.w3.org/2001/XMLSchema'
XSI_NS = 'http://www.w3.org/2001/XMLSchema-instance'
TNS = 'urn:c20'

# built-in atomic type -> parent built-in (None = primitive, i.e. child of xs:anyAtomicType)
PARENT = {
    'string': None, 'normalizedString': 'string', 'token': 'normalizedString', 'language': 'token',
    'NMTOKEN': 'token', 'Name': 'token', 'NCName': 'Name',
    'boolean': None, 'decimal': None, 'integer': 'decimal',
    'nonPositiveInteger': 'integer', 'negativeInteger': 'nonPositiveInteger',
    'long': 'integer', 'int': 'long', 'short': 'int', 'byte': 'short',
    'nonNegativeInteger': 'integer', 'unsignedLong': 'nonNegativeInteger', 'unsignedInt': 'unsignedLong',
    'unsignedShort': 'unsignedInt', 'unsignedByte': 'unsignedShort', 'positiveInteger': 'nonNegativeInteger',
    'float': None, 'double': None, 'duration': None, 'dateTime': None, 'time': None, 'date': None,
    'gYearMonth': None, 'gYear': None, 'gMonthDay': None, 'gDay': None, 'gMonth': None,
    'hexBinary': None, 'base64Binary': None, 'anyURI': None,
    # XSD 1.1 only
    'dayTimeDuration': 'duration', 'yearMonthDuration': 'duration', 'dateTimeStamp': 'dateTime',
}
ONLY_11 = {'dayTimeDuration', 'yearMonthDuration', 'dateTimeStamp'}
BUILTIN_LISTS = {'NMTOKENS': 'NMTOKEN'}

INT_RANGE = {
    'integer': (None, None), 'nonPositiveInteger': (None, 0), 'negativeInteger': (None, -1),
    'long': (-2 ** 63, 2 ** 63 - 1), 'int': (-2 ** 31, 2 ** 31 - 1), 'short': (-32768, 32767), 'byte': (-128, 127),
    'nonNegativeInteger': (0, None), 'unsignedLong': (0, 2 ** 64 - 1), 'unsignedInt': (0, 2 ** 32 - 1),
    'unsignedShort': (0, 65535), 'unsignedByte': (0, 255), 'positiveInteger': (1, None),
}


def primitive(b):
    while PARENT[b] is not None:
        b = PARENT[b]
    return b


def ancestors(b):
    """proper built-in ancestors of a built-in atomic type, nearest first"""
    out = []
    while PARENT[b] is not None:
        b = PARENT[b]
        out.append(b)
    return out


def descendants(b):
    return [x for x in PARENT if b in ancestors(x)]


def family(b):
    p = primitive(b)
    if b in INT_RANGE:
        return 'integer'
    if p == 'string':
        return 'string'
    if p in ('float', 'double', 'decimal', 'boolean', 'duration', 'anyURI'):
        return p
    if p in ('hexBinary', 'base64Binary'):
        return 'binary'
    return 'datetime'


# ------------------------------------------------------------------ lexical generators
WS = [' ', '  ', '\n', '\t', ' \n ']


def pad(r, s, p=0.3):
    if r.random() < p:
        s = r.choice(WS) + s
    if r.random() < p:
        s = s + r.choice(WS)
    return s


def gen_int(r, b):
    lo, hi = INT_RANGE[b]
    x = r.random()
    if x < 0.2 and lo is not None:
        v = lo + r.choice([0, 0, 1])
    elif x < 0.4 and hi is not None:
        v = hi - r.choice([0, 0, 1])
    elif x < 0.5:
        v = r.choice([10 ** 20 + 7, -(10 ** 19)])
    else:
        v = r.randint(-60, 130)
    if lo is not None and v < lo:
        v = lo + (abs(v) % 50)
    if hi is not None and v > hi:
        v = hi - (abs(v) % 50)
    s = str(abs(v))
    if r.random() < 0.3:
        s = r.choice(['0', '00', '000']) + s
    if v < 0:
        s = '-' + s
    elif v == 0 and r.random() < 0.2 and (lo is None or lo < 0 or True):
        s = r.choice(['-', '+']) + s if b not in ('positiveInteger',) else s
    elif r.random() < 0.2:
        s = '+' + s
    return s


STRINGS = ['abc', 'a b', 'x', '5', '007', 'true', ' a  b ', 'a\tb', 'a\nb', 'Ab-9', 'été', 'a&b', '<x>',
           '1.0', '', 'zz top', '  lead', 'trail  ', '2001-01-01', 'NaN']
TOKENS = ['abc', 'a b', 'x y z', '5', 'true', 'Ab-9', 'été', 'a&b', '007']
DECIMALS = ['1.50', '-0.0', '.5', '5.', '+007.250', '12', '-3.125', '0', '100.00', '0.1', '12345678901234567890.5',
            '-.75', '2.0']
DOUBLES = ['1.5', '-0', '0', '1e3', '1.5E-2', 'INF', '-INF', 'NaN', '+2.25', '.5', '100', '-7', '1E0', '3.0e+2',
           '0.1', '16777217', '1e-7', '123456789012']
DATES = ['2001-01-01', '2024-02-29Z', '1999-12-31+05:30', '0001-01-01', '2000-06-15-08:00', '1970-01-01Z']
TIMES = ['10:00:00', '23:59:59.999Z', '00:00:00-05:00', '12:30:15.5', '07:08:09+01:00']
DATETIMES = ['2001-01-01T10:00:00', '2024-02-29T23:59:59Z', '1999-12-31T00:00:00.25+05:30',
             '2000-06-15T12:00:00-08:00', '1970-01-01T00:00:00Z']
SIMPLE = {
    'gYear': ['2001', '1999Z', '0456', '2024+02:00'], 'gYearMonth': ['2001-05', '1999-12Z', '2024-02-05:00'],
    'gMonth': ['--05', '--12Z', '--01+01:00'], 'gMonthDay': ['--02-29', '--12-31Z', '--05-01'],
    'gDay': ['---31', '---01Z', '---15-03:00'],
    'duration': ['P1Y2M3DT4H5M6S', 'PT0S', '-P1D', 'P1M', 'PT36H', 'P18M', 'PT0.5S', 'P1Y'],
    'dayTimeDuration': ['P1DT2H', 'PT36H', '-PT1M', 'PT0.5S', 'P3D'],
    'yearMonthDuration': ['P1Y6M', 'P18M', '-P1Y', 'P0M'],
    'dateTimeStamp': ['2001-01-01T10:00:00Z', '1999-12-31T00:00:00.25+05:30', '2000-06-15T12:00:00-08:00'],
    'anyURI': ['http://example.com/a', 'urn:x:y', '', '../rel#frag', 'a/b?c=d', 'mailto:a@b.c'],
    'hexBinary': ['0aFF', '', 'DEADBEEF', '00', 'ab'], 'base64Binary': ['YWJj', 'YQ==', '', 'YWI=', 'AAECAw=='],
    'language': ['en', 'en-US', 'fr', 'de-CH', 'x-klingon'], 'Name': ['a:b', '_x', 'abc', 'a.b-c', ':a'],
    'NCName': ['abc', '_a.b-c', 'x1', 'été'], 'NMTOKEN': ['1a', 'a.b', '-x', 'abc', '007', 'a:b'],
    'boolean': ['true', 'false', '1', '0'],
}


def gen_lex(r, b):
    """a lexical representation that is (very likely) valid for built-in atomic type b"""
    if b in INT_RANGE:
        return pad(r, gen_int(r, b))
    if b == 'string':
        return r.choice(STRINGS)
    if b == 'normalizedString':
        return r.choice(STRINGS)
    if b == 'token':
        return pad(r, r.choice(TOKENS)) if r.random() < 0.7 else r.choice(STRINGS)
    if b == 'decimal':
        return pad(r, r.choice(DECIMALS) if r.random() < 0.7 else gen_int(r, 'integer'))
    if b in ('float', 'double'):
        return pad(r, r.choice(DOUBLES))
    if b == 'date':
        return pad(r, r.choice(DATES))
    if b == 'time':
        return pad(r, r.choice(TIMES))
    if b == 'dateTime':
        return pad(r, r.choice(DATETIMES))
    return pad(r, r.choice(SIMPLE[b]))


# ------------------------------------------------------------------ type resolution over a spec
def is_ref(t):
    return isinstance(t, list)


class Types:
    """resolution of refs / definitions of one schema spec"""

    def __init__(self, spec):
        self.spec = spec
        self.st = {n: d for n, d in spec['stypes']}
        self.ct = {n: d for n, d in spec['ctypes']}

    def definition(self, t):
        """ref or inline definition -> ('b', name) | ('s', sdef, name|None) | ('c', cdef, name|None)"""
        if is_ref(t):
            if t[0] == 'b':
                return ('b', t[1])
            if t[1] in self.st:
                return ('s', self.st[t[1]], t[1])
            return ('c', self.ct[t[1]], t[1])
        if t['k'] in ('sc', 'model'):
            return ('c', t, None)
        return ('s', t, None)

    def variety(self, t):
        """'atomic' | 'list' | 'union' of a simple type (ref or sdef)"""
        d = self.definition(t)
        if d[0] == 'b':
            return 'list' if d[1] in BUILTIN_LISTS else 'atomic'
        sd = d[1]
        if sd['k'] == 'restr':
            return self.variety(sd['base'])
        return sd['k']

    def nearest_builtin(self, t):
        """nearest built-in ancestor of an atomic simple type"""
        d = self.definition(t)
        if d[0] == 'b':
            return d[1]
        return self.nearest_builtin(d[1]['base'])

    def item_type(self, t):
        d = self.definition(t)
        if d[0] == 'b':
            return ['b', BUILTIN_LISTS[d[1]]]
        sd = d[1]
        if sd['k'] == 'restr':
            return self.item_type(sd['base'])
        return sd['item']

    def members(self, t):
        d = self.definition(t)
        sd = d[1]
        if sd['k'] == 'restr':
            return self.members(sd['base'])
        out = []
        for m in sd['members']:
            if self.variety(m) == 'union':
                out.extend(self.members(m))
            else:
                out.append(m)
        return out

    def simple_chain(self, t):
        """names of the types a simple type is derived from by restriction, nearest first:
        list of ('user', name) | ('builtin', name); stops below anyAtomicType/anySimpleType"""
        out = []
        d = self.definition(t)
        while True:
            if d[0] == 'b':
                if d[1] in BUILTIN_LISTS:
                    out.append(('builtin', d[1]))
                    return out
                out.append(('builtin', d[1]))
                out.extend(('builtin', a) for a in ancestors(d[1]))
                return out
            sd, name = d[1], d[2]
            if name is not None:
                out.append(('user', name))
            if sd['k'] != 'restr':
                return out
            d = self.definition(sd['base'])

    def facets(self, t):
        """all facets along the restriction chain, innermost first"""
        out = []
        d = self.definition(t)
        while d[0] == 's' and d[1]['k'] == 'restr':
            out.extend(d[1]['facets'])
            d = self.definition(d[1]['base'])
        return out

    def simple_of(self, t):
        """the simple type (ref/sdef) giving the content of a simple or simple-content type, else None"""
        d = self.definition(t)
        if d[0] in ('b', 's'):
            return t
        cd = d[1]
        if cd['k'] == 'sc':
            return self.simple_of(cd['base'])
        return None

    def complex_chain(self, t):
        """for a simple-content complex type: names of complex types in the extension chain then the
        simple chain of the base"""
        out = []
        d = self.definition(t)
        while d[0] == 'c' and d[1]['k'] == 'sc':
            if d[2] is not None:
                out.append(('user', d[2]))
            t = d[1]['base']
            d = self.definition(t)
        if d[0] in ('b', 's'):
            out.extend(self.simple_chain(t))
        return out

    def attrs_of(self, t):
        """effective attribute declarations of a complex type (extension chain), as list"""
        d = self.definition(t)
        if d[0] != 'c':
            return []
        cd = d[1]
        inherited = self.attrs_of(cd['base']) if cd['k'] == 'sc' else []
        return inherited + list(cd.get('attrs', []))

    def derived_globals(self, t):
        """global types (names) validly usable in xsi:type for an element declared with type ref t"""
        if not is_ref(t):
            return []
        out = []
        for n, _ in self.spec['stypes']:
            ch = self.simple_chain(['g', n])
            if t[0] == 'g' and ('user', t[1]) in ch[1:]:
                out.append(['g', n])
            elif t[0] == 'b' and ('builtin', t[1]) in ch[1:] and self.variety(['g', n]) == 'atomic':
                out.append(['g', n])
        for n, cd in self.spec['ctypes']:
            if t[0] == 'g' and cd['k'] == 'sc' and ('user', t[1]) in self.complex_chain(['g', n])[1:] \
                    and t[1] in self.ct:
                out.append(['g', n])
        if t[0] == 'b' and t[1] in PARENT:
            for dsc in descendants(t[1]):
                if dsc not in ONLY_11 or self.spec['v'] == '1.1':
                    out.append(['b', dsc])
        return out


# ------------------------------------------------------------------ schema generation
ATOMIC_POOL = ['string', 'string', 'normalizedString', 'token', 'token', 'language', 'NMTOKEN', 'Name', 'NCName',
               'boolean', 'boolean', 'boolean', 'decimal', 'decimal', 'integer', 'integer', 'nonPositiveInteger',
               'negativeInteger', 'long', 'int', 'int', 'int', 'short', 'byte', 'nonNegativeInteger', 'unsignedLong',
               'unsignedInt', 'unsignedShort', 'unsignedByte', 'positiveInteger', 'float', 'double', 'double',
               'duration', 'dateTime', 'time', 'date', 'date', 'gYearMonth', 'gYear', 'gMonthDay', 'gDay', 'gMonth',
               'hexBinary', 'base64Binary', 'anyURI']
NAMES = ['a', 'b', 'c', 'v', 'w']
ATTR_NAMES = ['p', 'q', 'id2', 'n']


def g_builtin(r, v):
    if v == '1.1' and r.random() < 0.1:
        return r.choice(sorted(ONLY_11))
    return r.choice(ATOMIC_POOL)


def g_facets(r, T, base):
    """facets (likely) legal for a restriction of atomic type `base`; values mostly satisfiable"""
    b = T.nearest_builtin(base)
    fam = family(b)
    inherited = dict((f, v) for f, v in reversed(T.facets(base)))
    out = []
    if fam == 'integer' or fam == 'decimal':
        lo, hi = INT_RANGE.get(b, (None, None))
        x = r.random()
        if x < 0.35:
            a = -200 if lo is None or lo <= -200 else lo
            z = 1000 if hi is None or hi >= 1000 else hi
            if 'minInclusive' in inherited or 'maxInclusive' in inherited or 'minExclusive' in inherited:
                a, z = max(a, -100), min(z, 500)
            out.append([r.choice(['minInclusive', 'minExclusive']) if not inherited else 'minInclusive', str(a)])
            if r.random() < 0.7:
                out.append(['maxInclusive', str(z)])
        elif x < 0.5:
            out.append(['totalDigits', str(r.randint(4, 8))])
        elif x < 0.65:
            out.append(['pattern', r.choice(['[+\\-]?[0-9]+', '[^a-z]*', '\\d+|-\\d+|\\+\\d+'])
                        if fam == 'integer' else r.choice(['[^a-z]*', '[+\\-]?\\d*\\.?\\d*'])])
        elif x < 0.8 and fam == 'decimal':
            out.append(['fractionDigits', str(r.randint(2, 4))])
    elif fam == 'string':
        x = r.random()
        if b == 'string' and x < 0.3:
            out.append(['whiteSpace', r.choice(['replace', 'collapse'])])
        elif b == 'normalizedString' and x < 0.3:
            out.append(['whiteSpace', 'collapse'])
        elif x < 0.55:
            out.append(['maxLength', str(r.randint(8, 20))])
            if r.random() < 0.5:
                out.append(['minLength', str(r.randint(0, 1))])
        elif x < 0.7:
            out.append(['pattern', r.choice(['[^#]*', '.*', '\\S.*|.*\\S|'])])
    elif fam in ('float', 'double'):
        if r.random() < 0.4:
            out.append(['minInclusive', '-1e6'])
    elif fam == 'datetime' and b in ('date', 'dateTime'):
        if r.random() < 0.4:
            out.append(['minInclusive', '0001-01-01' if b == 'date' else '0001-01-01T00:00:00'])
    elif fam == 'boolean':
        if r.random() < 0.4:
            out.append(['pattern', r.choice(['true|false', '[01]', 'true|false|0|1'])])
    if not out and 'enumeration' not in inherited and r.random() < 0.5:
        vals = []
        for _ in range(r.randint(2, 4)):
            s = gen_lex(r, b).strip() if fam != 'string' or b not in ('string', 'normalizedString') else gen_lex(r, b)
            if s not in vals:
                vals.append(s)
        out.extend(['enumeration', s] for s in vals)
    return out


def g_simple_types(r, v):
    """2-6 global simple types: restrictions (also of restrictions), lists, unions, restricted lists"""
    spec = {'v': v, 'stypes': [], 'ctypes': []}
    st = spec['stypes']
    n = r.randint(2, 6)
    chain = r.random() < 0.3
    for i in range(n):
        T = Types(spec)
        name = 'T%d' % i
        if chain and i < 2:
            # a restriction of a restriction whose lexical facet is not satisfied by every lexical form:
            # derivation must be decided on the types, not by re-validating a decoded value
            st.append([name, {'k': 'restr', 'base': ['b', 'boolean'], 'facets': [['pattern', r.choice(['[01]', 'true|false'])]]}
                       if i == 0 else {'k': 'restr', 'base': ['g', 'T0'], 'facets': []}])
            continue
        atomics = [['g', x] for x, _ in st if T.variety(['g', x]) == 'atomic']
        lists = [['g', x] for x, _ in st if T.variety(['g', x]) == 'list']
        x = r.random()
        if x < 0.5 or i == 0:
            base = r.choice(atomics) if atomics and r.random() < 0.4 else ['b', g_builtin(r, v)]
            st.append([name, {'k': 'restr', 'base': base, 'facets': g_facets(r, T, base)}])
        elif x < 0.7:
            item = r.choice(atomics) if atomics and r.random() < 0.5 else ['b', g_builtin(r, v)]
            st.append([name, {'k': 'list', 'item': item}])
        elif x < 0.78 and lists:
            base = r.choice(lists)
            st.append([name, {'k': 'restr', 'base': base,
                              'facets': [[r.choice(['maxLength', 'minLength']), str(r.choice([0, 1, 6]))]]}])
            if st[-1][1]['facets'][0] == ['maxLength', '0']:
                st[-1][1]['facets'] = [['maxLength', '5']]
            if st[-1][1]['facets'][0] == ['minLength', '6']:
                st[-1][1]['facets'] = [['minLength', '1']]
        else:
            members = []
            for _ in range(r.randint(2, 3)):
                members.append(r.choice(atomics) if atomics and r.random() < 0.4 else ['b', g_builtin(r, v)])
            st.append([name, {'k': 'union', 'members': members}])
    return spec


def g_simple_ref(r, spec, anon_ok=True):
    T = Types(spec)
    x = r.random()
    st = spec['stypes']
    if len(st) > 1 and st[1][1].get('base') == ['g', 'T0'] and st[1][1].get('facets') == [] and r.random() < 0.2:
        return ['g', 'T1']
    if x < 0.45 and spec['stypes']:
        return ['g', r.choice(spec['stypes'])[0]]
    if x < 0.52:
        return ['b', 'NMTOKENS']
    if x < 0.62 and anon_ok:
        base = ['b', g_builtin(r, spec['v'])]
        return {'k': 'restr', 'base': base, 'facets': g_facets(r, T, base)}
    return ['b', g_builtin(r, spec['v'])]


def g_attr(r, spec, name):
    a = {'name': name, 'type': g_simple_ref(r, spec), 'use': 'optional', 'default': None, 'fixed': None}
    x = r.random()
    if x < 0.25:
        a['use'] = 'required'
    elif x < 0.55:
        a['default'] = True      # placeholder: filled with a validated value by finish_schema()
    elif x < 0.65:
        a['fixed'] = True
    return a


def g_attrs(r, spec, lo=0, hi=3):
    names = r.sample(ATTR_NAMES, r.randint(lo, hi))
    return [g_attr(r, spec, n) for n in sorted(names)]


def g_complex_types(r, spec):
    for i in range(r.randint(1, 3)):
        name = 'C%d' % i
        prev = [n for n, d in spec['ctypes'] if d['k'] == 'sc']
        if prev and r.random() < 0.4:
            base = ['g', r.choice(prev)]
            used = {a['name'] for a in Types(spec).attrs_of(base)}
            attrs = [g_attr(r, spec, n) for n in sorted(set(ATTR_NAMES) - used)[:r.randint(0, 2)]]
        else:
            base = g_simple_ref(r, spec, anon_ok=False)
            attrs = g_attrs(r, spec, 0, 3)
        spec['ctypes'].append([name, {'k': 'sc', 'base': base, 'attrs': attrs}])


def g_elem(r, spec, name, depth):
    e = {'el': name, 'min': r.choice([0, 1, 1, 1]), 'max': r.choice([1, 1, 2, 3, None]),
         'nillable': r.random() < 0.25, 'default': None, 'fixed': None}
    x = r.random()
    if x < 0.22 and depth < 3:
        e['type'] = {'k': 'model', 'group': g_group(r, spec, depth + 1), 'attrs': g_attrs(r, spec, 0, 2)}
    elif x < 0.42 and spec['ctypes']:
        e['type'] = ['g', r.choice(spec['ctypes'])[0]]
    else:
        e['type'] = g_simple_ref(r, spec)
    if not (isinstance(e['type'], dict) and e['type'].get('k') == 'model'):
        y = r.random()
        if y < 0.2:
            e['default'] = True
        elif y < 0.28:
            e['fixed'] = True
    return e


def g_group(r, spec, depth, top=False):
    g = {'g': r.choice(['sequence', 'sequence', 'choice']), 'min': 1, 'max': 1, 'parts': []}
    if top:
        g['g'] = 'sequence'
    elif r.random() < 0.3:
        g['min'], g['max'] = r.choice([(0, 1), (1, 2), (0, 3), (1, None)])
    names = r.sample(NAMES, r.randint(2, 4) if top else r.randint(1, 3))
    for nm in names:
        g['parts'].append(g_elem(r, spec, nm, depth))
    if g['g'] == 'choice':
        for p in g['parts']:
            if r.random() < 0.8:
                p['min'] = max(p['min'], 1)
    # a nested group with fresh names (keeps the content model deterministic)
    if depth < 3 and r.random() < 0.3:
        inner = {'g': r.choice(['sequence', 'choice']), 'min': r.choice([0, 1]), 'max': r.choice([1, 2]),
                 'parts': [g_elem(r, spec, nm, depth) for nm in r.sample(['x', 'y', 'z'], r.randint(1, 2))]}
        for p in inner['parts']:
            p['min'] = 1
        g['parts'].insert(r.randint(0, len(g['parts'])), inner)
    return g


def _iter_elems(g):
    for p in g['parts']:
        if 'el' in p:
            yield p
        else:
            yield from _iter_elems(p)


def g_schema(r, v):
    """schema spec with placeholders (True) for default/fixed values"""
    spec = g_simple_types(r, v)
    spec['ns'] = r.random() < 0.8
    g_complex_types(r, spec)
    group = g_group(r, spec, 1, top=True)
    # a repeated nested container re-using child names with other types exercises per-group matching
    spec['root'] = {'k': 'model', 'group': group, 'attrs': g_attrs(r, spec, 0, 2)}
    return spec


def iter_value_slots(spec):
    """every attr / elem declaration dict that may carry default/fixed, with its type"""
    def from_cdef(cd):
        for a in cd.get('attrs', []):
            yield a
        if cd['k'] == 'model':
            yield from from_group(cd['group'])

    def from_group(g):
        for p in g['parts']:
            if 'el' in p:
                yield p
                if isinstance(p['type'], dict) and p['type'].get('k') in ('sc', 'model'):
                    yield from from_cdef(p['type'])
            else:
                yield from from_group(p)

    for _, cd in spec['ctypes']:
        yield from from_cdef(cd)
    yield from from_cdef(spec['root'])


# ------------------------------------------------------------------ rendering
def esc(s, attr=False):
    s = s.replace('&', '&amp;').replace('<', '&lt;').replace('>', '&gt;')
    if attr:
        s = s.replace('"', '&quot;').replace('\t', '&#9;').replace('\n', '&#10;')
    return s


def qn(spec, ref):
    if ref[0] == 'b':
        return 'xs:' + ref[1]
    return ('t:' if spec['ns'] else '') + ref[1]


def render_sdef(spec, sd, name=None, ind='  '):
    head = '%s<xs:simpleType%s>' % (ind, ' name="%s"' % name if name else '')
    if sd['k'] == 'restr':
        body = '<xs:restriction base="%s">%s</xs:restriction>' % (
            qn(spec, sd['base']),
            ''.join('<xs:%s value="%s"/>' % (f, esc(v, True)) for f, v in sd['facets']))
    elif sd['k'] == 'list':
        body = '<xs:list itemType="%s"/>' % qn(spec, sd['item'])
    else:
        body = '<xs:union memberTypes="%s"/>' % ' '.join(qn(spec, m) for m in sd['members'])
    return head + body + '</xs:simpleType>'


def render_attr(spec, a, ind):
    s = '%s<xs:attribute name="%s"' % (ind, a['name'])
    if a['use'] == 'required':
        s += ' use="required"'
    if isinstance(a.get('default'), str):
        s += ' default="%s"' % esc(a['default'], True)
    if isinstance(a.get('fixed'), str):
        s += ' fixed="%s"' % esc(a['fixed'], True)
    if is_ref(a['type']):
        return s + ' type="%s"/>' % qn(spec, a['type'])
    return s + '>\n' + render_sdef(spec, a['type'], None, ind + '  ') + '\n' + ind + '</xs:attribute>'


def occurs(p):
    s = ''
    if p['min'] != 1:
        s += ' minOccurs="%d"' % p['min']
    if p['max'] != 1:
        s += ' maxOccurs="%s"' % ('unbounded' if p['max'] is None else p['max'])
    return s


def render_group(spec, g, ind):
    out = ['%s<xs:%s%s>' % (ind, g['g'], occurs(g))]
    for p in g['parts']:
        if 'el' in p:
            out.append(render_elem(spec, p, ind + '  '))
        else:
            out.append(render_group(spec, p, ind + '  '))
    out.append('%s</xs:%s>' % (ind, g['g']))
    return '\n'.join(out)


def render_cdef(spec, cd, name, ind):
    head = '%s<xs:complexType%s>' % (ind, ' name="%s"' % name if name else '')
    attrs = '\n'.join(render_attr(spec, a, ind + '    ') for a in cd.get('attrs', []))
    if cd['k'] == 'sc':
        body = '%s  <xs:simpleContent><xs:extension base="%s">\n%s\n%s  </xs:extension></xs:simpleContent>' % (
            ind, qn(spec, cd['base']), attrs, ind)
    else:
        body = render_group(spec, cd['group'], ind + '  ') + ('\n' + attrs if attrs else '')
    return head + '\n' + body + '\n' + ind + '</xs:complexType>'


def render_elem(spec, e, ind):
    s = '%s<xs:element name="%s"%s' % (ind, e['el'], occurs(e) if 'min' in e else '')
    if e.get('nillable'):
        s += ' nillable="true"'
    if isinstance(e.get('default'), str):
        s += ' default="%s"' % esc(e['default'], True)
    if isinstance(e.get('fixed'), str):
        s += ' fixed="%s"' % esc(e['fixed'], True)
    t = e['type']
    if is_ref(t):
        return s + ' type="%s"/>' % qn(spec, t)
    inner = render_sdef(spec, t, None, ind + '  ') if t['k'] in ('restr', 'list', 'union') \
        else render_cdef(spec, t, None, ind + '  ')
    return s + '>\n' + inner + '\n' + ind + '</xs:element>'


def render_schema(spec, types_only=False):
    out = ['<xs:schema xmlns:xs="%s"%s>' % (
        XSD_NS, ' xmlns:t="%s" targetNamespace="%s" elementFormDefault="qualified"' % (TNS, TNS)
        if spec['ns'] else '')]
    for n, sd in spec['stypes']:
        out.append(render_sdef(spec, sd, n))
    if not types_only:
        for n, cd in spec['ctypes']:
            out.append(render_cdef(spec, cd, n, '  '))
        out.append(render_elem(spec, {'el': 'root', 'type': spec['root']}, '  '))
    out.append('</xs:schema>')
    return '\n'.join(out)


# ------------------------------------------------------------------ values and instances
def gen_value(r, T, t, depth=0):
    """lexical value for simple type t (ref/sdef), likely valid"""
    facets = T.facets(t) if not (is_ref(t) and t[0] == 'b') else []
    enum = [v for f, v in facets if f == 'enumeration']
    var = T.variety(t)
    if enum and var == 'atomic':
        s = r.choice(enum)
        b = T.nearest_builtin(t)
        return s if b in ('string', 'normalizedString') else pad(r, s)
    if var == 'list':
        it = T.item_type(t)
        n = r.choice([0, 1, 2, 3, 4])
        items = [gen_value(r, T, it, depth + 1).strip() for _ in range(n)]
        items = [x for x in items if x and not any(c in x for c in ' \t\n')]
        return pad(r, r.choice([' ', '  ', '\n']).join(items))
    if var == 'union':
        return gen_value(r, T, r.choice(T.members(t)), depth + 1)
    return gen_lex(r, T.nearest_builtin(t))


def valid_value(r, T, t, validator, tries=12):
    """a value accepted by `validator(t, text)` (the trusted schema processor), or None"""
    for _ in range(tries):
        s = gen_value(r, T, t)
        if validator(t, s):
            return s
    return None


def g_instance(r, spec, valid):
    """instance spec for the root element; valid(t, text) -> bool is the trusted value validator"""
    T = Types(spec)
    allow_xsi_type = True

    def attrs_for(t, forced=None):
        out = []
        for a in T.attrs_of(t):
            present = a['use'] == 'required' or r.random() < 0.55
            if not present:
                continue
            if isinstance(a.get('fixed'), str):
                out.append([a['name'], a['fixed']])
                continue
            v = valid_value(r, T, a['type'], valid)
            if v is None:
                if a['use'] == 'required':
                    raise GenFail('attr')
                continue
            out.append([a['name'], v])
        r.shuffle(out)
        return out

    def elem(e):
        t = e['type']
        d = T.definition(t)
        attrs = []
        if e.get('nillable') and r.random() < 0.3 and not isinstance(e.get('fixed'), str):
            attrs = [['xsi:nil', r.choice(['true', '1'])]]
            if d[0] == 'c':
                attrs += attrs_for(t)
            return [e['el'], attrs, None, []]
        if allow_xsi_type and is_ref(t) and r.random() < 0.25:
            cands = T.derived_globals(t)
            if cands:
                t = r.choice(cands)
                d = T.definition(t)
                attrs.append(['xsi:type', qn(spec, t)])
        if d[0] == 'c' and d[1]['k'] == 'model':
            return [e['el'], attrs + attrs_for(t), None, group(d[1]['group'])]
        if d[0] == 'c':
            attrs = attrs + attrs_for(t)
        st = T.simple_of(t)
        if isinstance(e.get('fixed'), str):
            text = e['fixed'] if r.random() < 0.5 else None
        elif isinstance(e.get('default'), str) and r.random() < 0.5:
            text = None if r.random() < 0.5 else ''
        else:
            text = valid_value(r, T, st, valid)
            if text is None:
                raise GenFail('value')
        return [e['el'], attrs, text, []]

    def group(g):
        out = []
        hi = g['max'] if g['max'] is not None else g['min'] + 2
        for _ in range(r.randint(g['min'], hi)):
            parts = g['parts'] if g['g'] == 'sequence' else [r.choice(g['parts'])]
            for p in parts:
                if 'el' in p:
                    phi = p['max'] if p['max'] is not None else p['min'] + 3
                    for _ in range(r.randint(p['min'], phi)):
                        out.append(elem(p))
                else:
                    out.extend(group(p))
        return out

    return ['root', attrs_for(spec['root']), None, group(spec['root']['group'])]


class GenFail(Exception):
    pass


def render_instance(spec, inst, indent=False):
    pre = 't:' if spec['ns'] else ''

    def rec(n, level, top=False):
        tag, attrs, text, children = n
        s = '<' + pre + tag
        if top:
            s += ' xmlns:xsi="%s" xmlns:xs="%s"' % (XSI_NS, XSD_NS)
            if spec['ns']:
                s += ' xmlns:t="%s"' % TNS
        for k, v in attrs:
            s += ' %s="%s"' % (k, esc(v, True))
        if text is None and not children:
            return s + '/>'
        s += '>' + (esc(text) if text is not None else '')
        nl = '\n' + '  ' * (level + 1) if indent and children else ''
        for c in children:
            s += nl + rec(c, level + 1)
        if indent and children:
            s += '\n' + '  ' * level
        return s + '</' + pre + tag + '>'
    return rec(inst, 0, True)
