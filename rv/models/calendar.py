"""Reference model of the proleptic Gregorian timeline used by check C11.

Integer-only; no use of Python's `datetime` / `calendar` and no code shared with the
repository under test.  Transcribed from

* XSD 1.1 Part 2, Appendix E.3.2 (daysInMonth, timeOnTimeline) and E.3.3 (dateTimePlusDuration),
  which is the same algorithm as XSD 1.0 Part 2 Appendix E ("Adding durations to dateTimes") that
  F&O 2.0 refers to for op:add-yearMonthDuration-to-dateTime;
* F&O 3.1 sections 9 (dates/times) and 8 (durations).

Conventions
-----------
year       astronomical year number (.., -1 = 2 BCE, 0 = 1 BCE, 1 = 1 CE, ..); this is the XSD 1.1
           ·year· property.  XSD 1.0 lexical years have no 0000: lexical -N is N BCE = astronomical 1-N.
day number days since 0001-01-01 (day 0), negative before.
value      tuple (year, month, day, hour, minute, second, micro, tz) with tz = offset in minutes or None;
           always normalised (hour < 24).  Dates carry 0 time, times carry the date 1972-12-31 (the F&O
           reference date for time comparison / subtraction).
instant    integer microseconds since 0001-01-01T00:00:00Z.
duration   (months, micros) integers.
"""
import re

US = 1000000
DAY_US = 86400 * US
MIN_US = 60 * US
REF_TIME_DATE = (1972, 12, 31)

_CUM = (0, 31, 59, 90, 120, 151, 181, 212, 243, 273, 304, 334)
_MDAYS = (31, 28, 31, 30, 31, 30, 31, 31, 30, 31, 30, 31)


def is_leap(y):
    return y % 4 == 0 and (y % 100 != 0 or y % 400 == 0)


def days_in_month(y, m):
    """XSD 1.1 E.3.2 daysInMonth"""
    if m == 2:
        return 29 if is_leap(y) else 28
    return _MDAYS[m - 1]


def days_before_year(y):
    """number of days between 0001-01-01 and y-01-01 (negative for y < 1); floor divisions make
    the count exact on both sides of year 0"""
    p = y - 1
    return 365 * p + p // 4 - p // 100 + p // 400


def days_from_civil(y, m, d):
    n = days_before_year(y) + _CUM[m - 1] + (d - 1)
    if m > 2 and is_leap(y):
        n += 1
    return n


def civil_from_days(n):
    """inverse of days_from_civil (cycle decomposition on floor-divided 400-year eras)"""
    era, r = divmod(n, 146097)
    c = min(r // 36524, 3)
    r -= c * 36524
    q, r = divmod(r, 1461)
    a = min(r // 365, 3)
    r -= a * 365
    y = era * 400 + c * 100 + q * 4 + a + 1
    m = 1
    while True:
        dim = days_in_month(y, m)
        if r < dim:
            break
        r -= dim
        m += 1
    return y, m, r + 1


def valid_date(y, m, d):
    return 1 <= m <= 12 and 1 <= d <= days_in_month(y, m)


# ----------------------------------------------------------------- year numbering
def astro_from_lexical(ylex, xsd):
    """year as written -> astronomical year; None if not representable (0000 in XSD 1.0)"""
    if xsd == '1.0':
        if ylex == 0:
            return None
        return ylex if ylex > 0 else ylex + 1
    return ylex


def lexical_from_astro(y, xsd):
    if xsd == '1.0':
        return y if y > 0 else y - 1
    return y


def astro_from_nozero(y):
    """'no year zero' numbering (.., -2, -1, 1, 2, ..) -> astronomical"""
    return y if y > 0 else y + 1


def nozero_from_astro(y):
    return y if y > 0 else y - 1


# ----------------------------------------------------------------- values
def normalize(y, mo, d, h=0, mi=0, s=0, us=0, tz=None):
    """value tuple; 24:00:00 becomes 00:00:00 of the following day (XSD 1.1 3.3.7.1)"""
    if h == 24:
        n = days_from_civil(y, mo, d) + 1
        y, mo, d = civil_from_days(n)
        h = 0
    return (y, mo, d, h, mi, s, us, tz)


def local_us(v):
    """microseconds of the local (wall clock) reading since 0001-01-01T00:00:00"""
    y, mo, d, h, mi, s, us, _ = v
    return (days_from_civil(y, mo, d) * 86400 + h * 3600 + mi * 60 + s) * US + us


def from_local_us(t, tz):
    days, r = divmod(t, DAY_US)
    y, mo, d = civil_from_days(days)
    secs, us = divmod(r, US)
    h, r2 = divmod(secs, 3600)
    mi, s = divmod(r2, 60)
    return (y, mo, d, h, mi, s, us, tz)


def instant(v, implicit_tz=0):
    """XSD timeOnTimeline in microseconds; values without timezone take `implicit_tz` (minutes)"""
    tz = v[7]
    if tz is None:
        tz = implicit_tz
    return local_us(v) - tz * MIN_US


def add_daytime(v, dus):
    """op:add-dayTimeDuration-to-dateTime: same timezone, local reading shifted"""
    return from_local_us(local_us(v) + dus, v[7])


def date_of(v):
    """time components discarded"""
    return (v[0], v[1], v[2], 0, 0, 0, 0, v[7])


def time_of(v):
    """time value on the F&O reference date"""
    return REF_TIME_DATE + (v[3], v[4], v[5], v[6], v[7])


def add_daytime_date(v, dus):
    """op:add-dayTimeDuration-to-date: as dateTime at 00:00:00, then time discarded"""
    return date_of(add_daytime(date_of(v), dus))


def add_daytime_time(v, dus):
    """op:add-dayTimeDuration-to-time: wraps around midnight, date stays the reference date"""
    w = add_daytime(v, dus)
    return time_of(w)


def add_months(v, months):
    """XSD 1.1 E.3.3 dateTimePlusDuration restricted to the months part (= F&O
    op:add-yearMonthDuration-to-dateTime/-date): day clamped to the length of the target month"""
    y, mo, d, h, mi, s, us, tz = v
    t = (mo - 1) + months
    y2 = y + t // 12
    mo2 = t % 12 + 1
    d2 = min(d, days_in_month(y2, mo2))
    return (y2, mo2, d2, h, mi, s, us, tz)


def adjust_to_tz(v, tz, kind='dateTime'):
    """fn:adjust-dateTime/date/time-to-timezone with an explicit target (`tz` minutes or None),
    F&O 3.1 sections 9.6.1 - 9.6.3"""
    if tz is None or v[7] is None:
        w = v[:7] + (tz,)
    else:
        if kind == 'date':
            v = date_of(v)
        w = from_local_us(local_us(v) + (tz - v[7]) * MIN_US, tz)
    if kind == 'date':
        return date_of(w)
    if kind == 'time':
        return time_of(w)
    return w


# ----------------------------------------------------------------- lexical forms (XSD 1.0 / 1.1)
_TZ = r'(Z|[+-](?:(?:0[0-9]|1[0-3]):[0-5][0-9]|14:00))?'
_RE = {
    'dateTime': re.compile(r'^(-?)([0-9]{4,})-([0-9]{2})-([0-9]{2})T([0-9]{2}):([0-9]{2}):([0-9]{2})(?:\.([0-9]+))?' + _TZ + '$'),
    'date': re.compile(r'^(-?)([0-9]{4,})-([0-9]{2})-([0-9]{2})' + _TZ + '$'),
    'time': re.compile(r'^([0-9]{2}):([0-9]{2}):([0-9]{2})(?:\.([0-9]+))?' + _TZ + '$'),
}
_DUR = re.compile(r'^(-)?P(?:([0-9]+)Y)?(?:([0-9]+)M)?(?:([0-9]+)D)?(?:T(?:([0-9]+)H)?(?:([0-9]+)M)?(?:([0-9]+)(?:\.([0-9]+))?S)?)?$')


def parse_tz(t):
    if t is None:
        return None
    if t == 'Z':
        return 0
    m = int(t[1:3]) * 60 + int(t[4:6])
    return -m if t[0] == '-' else m


def _frac_us(f):
    """fraction digits -> (microseconds, exact?)"""
    if not f:
        return 0, True
    return int((f + '000000')[:6]), not f[6:].strip('0')


def _year(sign, digits, xsd):
    if len(digits) > 4 and digits[0] == '0':
        return None
    y = int(digits)
    if sign and y == 0 and xsd == '1.0':
        return None
    return astro_from_lexical(-y if sign else y, xsd)


def _time_ok(h, mi, s, us):
    if h == 24:
        return mi == 0 and s == 0 and us == 0
    return h < 24 and mi < 60 and s < 60


def parse(kind, text, xsd='1.1'):
    """-> (value, exact) or None when the literal is not in the lexical/value space.
    `exact` is False when fraction digits beyond microseconds were dropped."""
    m = _RE[kind].match(text)
    if m is None:
        return None
    g = m.groups()
    if kind == 'time':
        h, mi, s = int(g[0]), int(g[1]), int(g[2])
        us, exact = _frac_us(g[3])
        if not _time_ok(h, mi, s, us):
            return None
        return REF_TIME_DATE + (h % 24, mi, s, us, parse_tz(g[4])), exact
    y = _year(g[0], g[1], xsd)
    if y is None:
        return None
    mo, d = int(g[2]), int(g[3])
    if not valid_date(y, mo, d):
        return None
    if kind == 'date':
        return (y, mo, d, 0, 0, 0, 0, parse_tz(g[4])), True
    h, mi, s = int(g[4]), int(g[5]), int(g[6])
    us, exact = _frac_us(g[7])
    if not _time_ok(h, mi, s, us):
        return None
    return normalize(y, mo, d, h, mi, s, us, parse_tz(g[8])), exact


def parse_duration(text):
    """-> ((months, micros), exact) or None"""
    m = _DUR.match(text)
    if m is None:
        return None
    sign, y, mo, d, h, mi, s, f = m.groups()
    if all(x is None for x in (y, mo, d, h, mi, s)):
        return None
    if 'T' in text and h is None and mi is None and s is None:
        return None
    months = int(y or 0) * 12 + int(mo or 0)
    fus, exact = _frac_us(f)
    us = (((int(d or 0) * 24 + int(h or 0)) * 60 + int(mi or 0)) * 60 + int(s or 0)) * US + fus
    if sign:
        months, us = -months, -us
    return (months, us), exact


def fmt_year(y, xsd):
    ylex = lexical_from_astro(y, xsd)
    return ('-' if ylex < 0 else '') + '%04d' % abs(ylex)


def fmt_tz(tz):
    if tz is None:
        return ''
    if tz == 0:
        return 'Z'
    a = abs(tz)
    return '%s%02d:%02d' % ('-' if tz < 0 else '+', a // 60, a % 60)


def _fmt_sec(s, us):
    if us:
        return '%02d.%s' % (s, ('%06d' % us).rstrip('0'))
    return '%02d' % s


def fmt(kind, v, xsd='1.1'):
    y, mo, d, h, mi, s, us, tz = v
    if kind == 'time':
        return '%02d:%02d:%s%s' % (h, mi, _fmt_sec(s, us), fmt_tz(tz))
    if kind == 'date':
        return '%s-%02d-%02d%s' % (fmt_year(y, xsd), mo, d, fmt_tz(tz))
    return '%s-%02d-%02dT%02d:%02d:%s%s' % (fmt_year(y, xsd), mo, d, h, mi, _fmt_sec(s, us), fmt_tz(tz))


def fmt_daytime(us):
    """canonical xs:dayTimeDuration of a microsecond count"""
    if us == 0:
        return 'PT0S'
    a = abs(us)
    days, r = divmod(a, DAY_US)
    secs, f = divmod(r, US)
    h, r2 = divmod(secs, 3600)
    mi, s = divmod(r2, 60)
    out = '-P' if us < 0 else 'P'
    if days:
        out += '%dD' % days
    if h or mi or s or f:
        out += 'T'
        if h:
            out += '%dH' % h
        if mi:
            out += '%dM' % mi
        if s or f:
            out += ('%d.%s' % (s, ('%06d' % f).rstrip('0')) if f else '%d' % s) + 'S'
    return out


def fmt_yearmonth(months):
    a = abs(months)
    y, m = divmod(a, 12)
    out = '-P' if months < 0 else 'P'
    if y:
        out += '%dY' % y
    if m or not y:
        out += '%dM' % m
    return out


# ----------------------------------------------------------------- self test of the model
def _selftest():
    # anchor points that can be verified by hand / from the specifications
    assert days_from_civil(1, 1, 1) == 0
    assert days_from_civil(0, 12, 31) == -1 and civil_from_days(-1) == (0, 12, 31)
    assert days_from_civil(0, 1, 1) == -366          # 1 BCE is a leap year
    assert days_from_civil(1970, 1, 1) == 719162     # well known: 0001-01-01 -> 1970-01-01
    assert days_from_civil(2000, 3, 1) - days_from_civil(2000, 2, 28) == 2
    assert days_from_civil(1900, 3, 1) - days_from_civil(1900, 2, 28) == 1
    assert days_before_year(401) == 146097
    # contiguity: consecutive day numbers map to consecutive civil dates, both sides of year 0
    for start in (-800 * 366, -2000, 146097 * 25 - 800, 3652059 - 400):
        py, pm, pd = civil_from_days(start)
        for n in range(start + 1, start + 1600):
            y, m, d = civil_from_days(n)
            assert days_from_civil(y, m, d) == n
            if d != 1:
                assert (y, m, d) == (py, pm, pd + 1)
            else:
                assert pd == days_in_month(py, pm) and (y, m) == ((py, pm + 1) if pm < 12 else (py + 1, 1))
            py, pm, pd = y, m, d
    # F&O examples
    assert add_months((2000, 10, 30, 11, 12, 0, 0, None), 15) == (2002, 1, 30, 11, 12, 0, 0, None)
    assert add_months((2000, 1, 31, 0, 0, 0, 0, None), 1)[:3] == (2000, 2, 29)
    assert add_months((2000, 3, 31, 0, 0, 0, 0, None), -13)[:3] == (1999, 2, 28)
    assert add_daytime_date((2000, 10, 30, 0, 0, 0, 0, None), -(3 * 86400 + 3720) * US)[:3] == (2000, 10, 26)
    assert adjust_to_tz((2002, 3, 7, 10, 0, 0, 0, -420), -600) == (2002, 3, 7, 7, 0, 0, 0, -600)
    assert adjust_to_tz((2002, 3, 7, 0, 0, 0, 0, -420), -600, 'date')[:3] == (2002, 3, 6)
    assert adjust_to_tz(time_of((1, 1, 1, 10, 0, 0, 0, -420)), 600, 'time')[3:] == (3, 0, 0, 0, 600)
    assert fmt_daytime(-(86400 + 1) * US - 500000) == '-P1DT1.5S'


_selftest()
