"""Reference for the operator grammar of XPath 1.0 / 2.0 / 3.0 / 3.1.

Transcribed from the EBNF of the four W3C recommendations (XPath 1.0 section 3, XPath 2.0
appendix A.1 productions [2]-[27], XPath 3.0 A.1 [6]-[36], XPath 3.1 A.1 [6]-[49]); it shares
no code with the library under test and knows nothing about binding powers.

A *flat sequence* is a JSON list of items:

    ['a', text, cls]       operand; cls 'prim' (PrimaryExpr: literal, $var, (...), f(...), '.' in 2.0+)
                           or 'step' (axis step / node test: a, @a, child::a, text(), '..', and '.' in 1.0)
    ['p', text, kind]      postfix on the preceding operand: kind 'pred' [..], 'lookup' ?k, 'call' (..)
    ['b', symbol]          binary operator
    ['t', opname, type]    'instance of' / 'treat as' (SequenceType), 'castable as' / 'cast as' (SingleType)
    ['w', fname, args]     arrow postfix:  => fname args        (3.1)
    ['u', symbol]          unary prefix '-' or '+'
    ['h', text]            head of a for / let / some / every / if expression up to and including
                           'return' / 'satisfies' / 'else' (what follows is its trailing ExprSingle)
    ['l', symbol]          leading '/' or '//' of a rooted path

`parse(version, items)` returns an AST or raises SyntaxErr (the sequence is not derivable from the
EBNF: chained non-associative operators, a for/if expression as operand of an operator, ...).
`paren(version, ast)` renders the AST fully parenthesised, `flat(items)` renders the flat text.
"""
import re

GENERAL_COMP = ['=', '!=', '<', '<=', '>', '>=']
VALUE_COMP = ['eq', 'ne', 'lt', 'le', 'gt', 'ge']
NODE_COMP = ['is', '<<', '>>']

VERSIONS = ('1.0', '2.0', '3.0', '3.1')


def levels(version):
    """precedence levels, loosest first: (name, kind, symbols)"""
    if version == '1.0':
        # [21] OrExpr [22] AndExpr [23] EqualityExpr [24] RelationalExpr [25] AdditiveExpr
        # [26] MultiplicativeExpr [27] UnaryExpr ::= UnionExpr | '-' UnaryExpr [18] UnionExpr [19] PathExpr
        return [
            ('or', 'left', ['or']),
            ('and', 'left', ['and']),
            ('equality', 'left', ['=', '!=']),
            ('relational', 'left', ['<', '<=', '>', '>=']),
            ('additive', 'left', ['+', '-']),
            ('multiplicative', 'left', ['*', 'div', 'mod']),
            ('unary', 'prefix', ['-']),
            ('union', 'left', ['|']),
            ('path', 'path', ['/', '//']),
        ]
    lv = [
        ('comma', 'left', [',']),                       # Expr ::= ExprSingle ("," ExprSingle)*
        ('exprsingle', 'head', []),                     # ExprSingle ::= ForExpr | ... | IfExpr | OrExpr
        ('or', 'left', ['or']),
        ('and', 'left', ['and']),
        ('comparison', 'opt', GENERAL_COMP + VALUE_COMP + NODE_COMP),   # ( ... )?
    ]
    if version >= '3.0':
        lv.append(('concat', 'left', ['||']))           # StringConcatExpr ::= RangeExpr ("||" RangeExpr)*
    lv += [
        ('range', 'opt', ['to']),                       # RangeExpr ::= AdditiveExpr ("to" AdditiveExpr)?
        ('additive', 'left', ['+', '-']),
        ('multiplicative', 'left', ['*', 'div', 'idiv', 'mod']),
        ('union', 'left', ['union', '|']),
        ('intersect', 'left', ['intersect', 'except']),
        ('instance', 'type', ['instance of']),          # TreatExpr ("instance" "of" SequenceType)?
        ('treat', 'type', ['treat as']),
        ('castable', 'type', ['castable as']),
        ('cast', 'type', ['cast as']),
    ]
    if version >= '3.1':
        lv.append(('arrow', 'arrow', ['=>']))           # ArrowExpr ::= UnaryExpr ("=>" ArrowFunctionSpecifier ArgumentList)*
    lv.append(('unary', 'prefix', ['-', '+']))          # UnaryExpr ::= ("-" | "+")* ValueExpr
    if version >= '3.0':
        lv.append(('map', 'left', ['!']))               # SimpleMapExpr ::= PathExpr ("!" PathExpr)*
    lv.append(('path', 'path', ['/', '//']))
    return lv


_LEVELS = {v: levels(v) for v in VERSIONS}
TYPE_LEVEL = {'instance of': 'instance', 'treat as': 'treat', 'castable as': 'castable', 'cast as': 'cast'}


def binary_symbols(version):
    """[(symbol, level name)] of all binary (infix) operators of a version, in table order"""
    out = []
    for name, kind, syms in _LEVELS[version]:
        if kind in ('left', 'opt', 'path'):
            out.extend((s, name) for s in syms)
    return out


def level_of(version, item):
    """level name of an operator-like item (None for operands)"""
    k = item[0]
    if k == 'b':
        for name, kind, syms in _LEVELS[version]:
            if kind in ('left', 'opt', 'path') and item[1] in syms:
                return name
        return 'unknown'
    if k == 't':
        return TYPE_LEVEL.get(item[1], 'unknown')
    if k == 'w':
        return 'arrow'
    if k == 'u':
        return 'unary'
    if k == 'h':
        return 'exprsingle'
    if k == 'l':
        return 'rootpath'
    if k == 'p':
        return 'postfix-' + item[2]
    return None


def level_index(version, name):
    for i, (n, _k, _s) in enumerate(_LEVELS[version]):
        if n == name:
            return i
    return -1


class SyntaxErr(Exception):
    def __init__(self, reason):
        Exception.__init__(self, reason)
        self.reason = reason


class _P:
    def __init__(self, version, items):
        self.v = version
        self.items = items
        self.i = 0
        self.lv = _LEVELS[version]

    def peek(self):
        return self.items[self.i] if self.i < len(self.items) else None

    def level(self, k):
        if k >= len(self.lv):
            raise SyntaxErr('internal')
        name, kind, syms = self.lv[k]
        if kind == 'left':
            x = self.level(k + 1)
            while True:
                t = self.peek()
                if t is not None and t[0] == 'b' and t[1] in syms:
                    self.i += 1
                    y = self.level(k + 1)
                    x = ('bin', t[1], name, x, y)
                else:
                    return x
        if kind == 'opt':
            x = self.level(k + 1)
            t = self.peek()
            if t is not None and t[0] == 'b' and t[1] in syms:
                self.i += 1
                y = self.level(k + 1)
                x = ('bin', t[1], name, x, y)
            return x
        if kind == 'head':
            t = self.peek()
            if t is not None and t[0] == 'h':
                self.i += 1
                body = self.level(k)           # ... "return" ExprSingle
                return ('head', t[1], body)
            return self.level(k + 1)
        if kind == 'type':
            x = self.level(k + 1)
            t = self.peek()
            if t is not None and t[0] == 't' and t[1] in syms:
                self.i += 1
                x = ('type', t[1], t[2], x)
                if t[1] in ('instance of', 'treat as'):
                    # XPath 2.0 A.1.2 / 3.1 A.1.2 constraint "occurrence-indicators": a '*' or '+'
                    # (or '?') that follows a sequence type is an occurrence indicator, so the
                    # operand that comes next cannot be derived
                    n = self.peek()
                    ty = t[2].strip()
                    if n is not None and n[0] == 'b' and n[1] in ('*', '+') and \
                            ty[-1] not in '*+?' and not ty.startswith('empty-sequence'):
                        nn = self.items[self.i + 1] if self.i + 1 < len(self.items) else None
                        if nn is not None and (nn[0] == 'u' or nn[0] == 'a' and nn[1][:1] in '[(*'):
                            # ('[1, 2]' or '(a)' after the indicator would read as a predicate / call,
                            # a '*' name test as the multiplication operator)
                            # "T + - x": '+' is the occurrence indicator and the sign becomes the binary
                            # operator; the item list cannot express that reading
                            raise SyntaxErr('undecided:occurrence-indicator-then-sign')
                        raise SyntaxErr('occurrence-indicator')
            return x
        if kind == 'arrow':
            x = self.level(k + 1)
            while True:
                t = self.peek()
                if t is not None and t[0] == 'w':
                    self.i += 1
                    x = ('arrow', x, t[1], t[2])
                else:
                    return x
        if kind == 'prefix':
            signs = []
            while True:
                t = self.peek()
                if t is not None and t[0] == 'u':
                    if t[1] not in syms:
                        raise SyntaxErr('unary-' + ('plus' if t[1] == '+' else 'sign') + '-not-in-version')
                    signs.append(t[1])
                    self.i += 1
                else:
                    break
            x = self.level(k + 1)
            for s in reversed(signs):
                x = ('un', s, x)
            return x
        if kind == 'path':
            return self.path()
        raise SyntaxErr('internal')

    def step(self, rhs):
        t = self.peek()
        if t is None:
            raise SyntaxErr('operand-expected:end')
        if t[0] != 'a':
            lvl = level_of(self.v, t)
            if t[0] == 'u':
                raise SyntaxErr('operand-expected:unary')
            if t[0] == 'h':
                # if/for/let/some/every in operand position: not derivable, but these are not operators of the
                # property's operator table - whether the parser must reject them is not decided here
                raise SyntaxErr('undecided:operand-expected:exprsingle')
            raise SyntaxErr('operand-expected:' + str(lvl))
        self.i += 1
        posts = []
        while True:
            p = self.peek()
            if p is not None and p[0] == 'p':
                kind = p[2]
                if kind == 'lookup' and self.v < '3.1' or kind == 'call' and self.v < '3.0':
                    raise SyntaxErr('postfix-not-in-version')
                if kind != 'pred' and t[2] == 'step':
                    raise SyntaxErr('postfix-on-axis-step')
                posts.append(p[1])
                self.i += 1
            else:
                break
        if rhs and self.v == '1.0' and t[2] != 'step':
            # [3] RelativeLocationPath ::= Step | RelativeLocationPath '/' Step
            raise SyntaxErr('1.0-path-step-not-a-step')
        return ('atom', t[1], t[2], posts)

    def path(self):
        t = self.peek()
        if t is not None and t[0] == 'l':
            self.i += 1
            x = ('root', t[1], self.step(True))
        else:
            x = self.step(False)
        while True:
            t = self.peek()
            if t is not None and t[0] == 'b' and t[1] in ('/', '//'):
                self.i += 1
                y = self.step(True)
                x = ('bin', t[1], 'path', x, y)
            else:
                return x


def parse(version, items):
    p = _P(version, items)
    ast = p.level(0)
    t = p.peek()
    if t is not None:
        if t[0] in ('a', 'p'):
            raise SyntaxErr('unconsumed:operand')
        prev = items[p.i - 1] if p.i > 0 else None
        if prev is not None and prev[0] == 't' and \
                level_index(version, level_of(version, t)) >= level_index(version, level_of(version, prev)):
            # InstanceofExpr ::= TreatExpr ("instance" "of" SequenceType)? etc.: nothing of the same or a
            # tighter level can follow the type
            raise SyntaxErr('tighter-operator-after-type-operator')
        raise SyntaxErr('unconsumed:' + str(level_of(version, t)))
    return ast


def _atom_text(node, raw):
    _, text, _cls, posts = node
    if raw or not posts:
        return text + ''.join(posts)
    s = text
    for p in posts:
        s = '(' + s + p + ')'
    return s


def paren(version, node, raw=False):
    """fully parenthesised rendering; raw=True renders a step without added parentheses
    (the right-hand side of '/' in XPath 1.0 cannot be a parenthesised expression)"""
    k = node[0]
    if k == 'atom':
        return _atom_text(node, raw)
    if k == 'bin':
        _, sym, lvl, a, b = node
        if lvl == 'path':
            return '(%s%s%s)' % (paren(version, a), sym, paren(version, b, raw=(version == '1.0')))
        return '(%s %s %s)' % (paren(version, a), sym, paren(version, b))
    if k == 'type':
        return '(%s %s %s)' % (paren(version, node[3]), node[1], node[2])
    if k == 'arrow':
        return '(%s => %s%s)' % (paren(version, node[1]), node[2], node[3])
    if k == 'un':
        return '(%s%s)' % (node[1], paren(version, node[2]))
    if k == 'head':
        return '(%s %s)' % (node[1], paren(version, node[2]))
    if k == 'root':
        return '(%s%s)' % (node[1], paren(version, node[2], raw=(version == '1.0')))
    raise ValueError(k)


def shape(node):
    """compact description of the grouping (for evidence / details)"""
    k = node[0]
    if k == 'atom':
        return 'o' + ''.join('p' for _ in node[3])
    if k == 'bin':
        return '(%s %s %s)' % (shape(node[3]), node[1], shape(node[4]))
    if k == 'type':
        return '(%s %s)' % (shape(node[3]), node[1])
    if k == 'arrow':
        return '(%s =>)' % shape(node[1])
    if k == 'un':
        return '(%s%s)' % (node[1], shape(node[2]))
    if k == 'head':
        return '(H %s)' % shape(node[2])
    if k == 'root':
        return '(%s%s)' % (node[1], shape(node[2]))
    return '?'


def flat(items):
    out = []
    glue = True
    for t in items:
        k = t[0]
        if k == 'a':
            s = t[1]
        elif k == 'p':
            s = t[1]
            glue = True
        elif k == 'b':
            s = t[1]
            if s in ('/', '//'):
                glue = True
        elif k == 't':
            s = t[1] + ' ' + t[2]
        elif k == 'w':
            s = '=> ' + t[1] + t[2]
        elif k in ('u', 'l', 'h'):
            s = t[1]
        else:
            raise ValueError(k)
        if out and not glue:
            out.append(' ')
        out.append(s)
        glue = k in ('u', 'l') or (k == 'b' and s in ('/', '//'))
    return ''.join(out)


# ---------------------------------------------------------------------- lexical level
# Terminals as delimited by XPath 2.0/3.1 A.2 (for 1.0: section 3.7 ExprToken, where a variable
# reference '$' QName is ONE token).  Only the token forms produced by the harness generators
# are covered; `lex` returns None when it meets anything else.
_NC = r'[A-Za-z_][A-Za-z0-9_]*(?:[.\-][A-Za-z0-9_]+)*'
_TOKEN_RE = r'''
    (?P<str>"(?:[^"]|"")*"|'(?:[^']|'')*')
  | (?P<num>(?:\d+\.\d*|\.\d+|\d+)(?:[eE][+-]?\d+)?)
  | (?P<name>%(nc)s:\*|\*:%(nc)s|%(nc)s:%(nc)s|%(nc)s)
  | (?P<sym>//|::|:=|!=|<=|>=|<<|>>|\|\||=>|\.\.|[-+*/|=<>()\[\]{},.$@?!#:])
  | (?P<ws>\s+)
''' % {'nc': _NC}
_TOKEN = re.compile(_TOKEN_RE, re.X)
_TOKEN_10 = re.compile(r'(?P<var>\$%(nc)s(?::%(nc)s)?)|' % {'nc': _NC} + _TOKEN_RE, re.X)

TWO_CHAR = {'//', '::', ':=', '!=', '<=', '>=', '<<', '>>', '||', '=>', '..', '(:', ':)', '*:', ':*', '{{', '}}'}


def lex(version, text):
    """-> list of (kind, text) or None"""
    rx = _TOKEN_10 if version == '1.0' else _TOKEN
    if 'Q{' in text or '(:' in text:
        return None
    pos = 0
    out = []
    while pos < len(text):
        m = rx.match(text, pos)
        if m is None:
            return None
        pos = m.end()
        kind = m.lastgroup
        if kind == 'ws':
            continue
        out.append((kind, m.group()))
    return out


def _wordish(c):
    return c.isalnum() or c == '_'


def may_join(a, b):
    """conservative: True only when the terminals a and b can be written without a separator
    and still be delimited as the same two terminals (XPath 3.1 A.2.2 terminal delimitation)"""
    x, y = a[-1], b[0]
    wx, wy = _wordish(x), _wordish(y)
    if wx and (wy or y in '.-:'):
        return False
    if x == '.' and (wy or y == '.'):
        return False
    if x == ':' or y == ':':
        return False
    if x in '\'"' and y in '\'"':
        return False                   # 'a''b' would read as an escaped quote
    if not wx and not wy:
        if (x + y) in TWO_CHAR:
            return False
        if x in '<>!=|:/.*' and y in '<>!=|:/.*':
            return False
        if x in '+-' and y in '+-' and False:
            return False
    if x == '(' and y == ':' or x == ':' and y == ')':
        return False
    return True
