"""Runner shared by all checks: seeds, sharding, watchdogs, three-valued verdicts,
evidence, replay files and the known-findings protocol.

A check module (rv/checks/cNN.py) provides

    PROPERTY = 'Cnn'
    LEVEL = 'exploration'                     # evidence level
    RULE = '...'                              # how cases are generated / what is non-trivial
    ASSUMPTIONS = [...]
    def run(h): ...                           # drives the workload, calling h.case(kind, case)
    def check_case(kind, case) -> Outcome     # deterministic re-executable oracle for one case
    def shrink(kind, case) -> iterable        # optional: smaller candidate cases
    def floors(h) -> list[str]                # optional: reasons the run is inconclusive

`case` is JSON-serialisable, so the same function serves generation, replay and the
pinned witnesses of known findings.
"""
import collections
import hashlib
import json
import os
import random
import signal
import subprocess
import sys
import time
import traceback

from . import bootstrap

VERIF = bootstrap.VERIF
KNOWN_FILE = os.path.join(VERIF, 'known_findings.json')
# development only: tools/par_mutants.py redirects evidence/replays of runs against scratch trees
OUT = os.path.abspath(os.environ.get('RV_OUT', VERIF))
NSHARDS = int(os.environ.get('RV_SHARDS', '16'))
THOROUGH_SCALE = float(os.environ.get('RV_THOROUGH_SCALE', '4'))
CASE_CPU_S = float(os.environ.get('RV_CASE_CPU', '10'))
MAX_RECORDED = 80


class CpuBudget(BaseException):
    """Raised inside a case by the ITIMER_VIRTUAL watchdog (CPU time, not wall time)."""


class HarnessError(Exception):
    pass


class Outcome:
    """What check_case observed for one case."""
    __slots__ = ('fails', 'nontrivial', 'obs', 'dims')

    def __init__(self):
        self.fails = []        # list of (mechanism key, detail)
        self.nontrivial = True
        self.obs = None        # short description of what was observed (for samples)
        self.dims = []         # list of (dimension, value) counters to bump

    def fail(self, key, detail=None):
        self.fails.append((key, detail))

    def dim(self, name, value, n=1):
        self.dims.append((name, str(value), n))


def _on_vtalrm(signum, frame):
    raise CpuBudget()


class cpu_limit:
    def __init__(self, seconds=CASE_CPU_S):
        self.seconds = seconds

    def __enter__(self):
        signal.setitimer(signal.ITIMER_VIRTUAL, self.seconds)

    def __exit__(self, *exc):
        signal.setitimer(signal.ITIMER_VIRTUAL, 0)
        return False


def budget_outcome(module, kind, case, seconds):
    """A case ran out of its CPU budget.  The budget covers the reference model and the classification work of the
    check as well as the engine: when the check offers `engine_only(kind, case)` the engine's share is run again on its
    own under the same budget, and only an overrun of THAT run is reported as a hang of the engine."""
    out = Outcome()
    engine_only = getattr(module, 'engine_only', None)
    if engine_only is not None:
        try:
            with cpu_limit(seconds):
                engine_only(kind, case)
        except CpuBudget:
            pass
        except Exception:      # the engine answered (with an error): not a hang
            out.nontrivial = False
            out.dim('undecided', 'cpu-budget-spent-by-the-harness')
            return out
        else:
            out.nontrivial = False
            out.dim('undecided', 'cpu-budget-spent-by-the-harness')
            return out
    out.fail('%s/hang/%s' % (module.PROPERTY, kind), 'case exceeded %.0fs CPU' % seconds)
    return out


def canon(obj):
    return json.dumps(obj, sort_keys=True, ensure_ascii=True, default=repr, separators=(',', ':'))


def case_hash(kind, case):
    return hashlib.blake2b((kind + '\0' + canon(case)).encode(), digest_size=8).hexdigest()


def derive_seed(*parts):
    h = hashlib.blake2b('/'.join(str(p) for p in parts).encode(), digest_size=8).digest()
    return int.from_bytes(h, 'big')


def load_known():
    try:
        with open(KNOWN_FILE) as f:
            data = json.load(f)
    except FileNotFoundError:
        return []
    return data.get('findings', [])


class Harness:
    def __init__(self, module, tier, seed, shard=0, nshards=1, scale=1.0):
        self.module = module
        self.prop = module.PROPERTY
        self.tier = tier
        self.seed = seed
        self.shard = shard
        self.nshards = nshards
        self.scale = scale
        self.rng = random.Random(derive_seed(self.prop, seed, shard, nshards))
        self.counters = collections.defaultdict(collections.Counter)
        self.evaluations = 0
        self.distinct = set()
        self.samples = []
        self.sample_kinds = collections.Counter()
        self.violations = []       # dicts: key, kind, case, detail
        self.violation_keys = collections.Counter()
        self.known_hits = collections.Counter()
        # development aid (RV_KNOWN_SAMPLES=n): a few details per listed key, to audit that every hit of a
        # listed key really is the listed mechanism (a coarse key would hide other defects)
        self.known_sample_n = int(os.environ.get('RV_KNOWN_SAMPLES', '0'))
        self.known_samples = collections.defaultdict(list)
        self.harness_errors = []
        self.known = {e['key']: e for e in load_known()
                      if e.get('property') == self.prop and e.get('status') == 'known'}
        self.extra = {}            # free-form evidence additions
        self.t0 = time.time()

    # ---- budgets -------------------------------------------------------------
    def n(self, base):
        return max(1, int(base * self.scale))

    def sub_rng(self, *parts):
        return random.Random(derive_seed(self.prop, self.seed, self.shard, self.nshards, *parts))

    # ---- counters ------------------------------------------------------------
    def count(self, dim, value, n=1):
        self.counters[dim][str(value)] += n

    # ---- one case ------------------------------------------------------------
    def case(self, kind, case, cpu=None):
        """Execute one case through the module's oracle; returns the Outcome (or None)."""
        self.evaluations += 1
        try:
            with cpu_limit(cpu or CASE_CPU_S):
                out = self.module.check_case(kind, case)
        except CpuBudget:
            out = budget_outcome(self.module, kind, case, cpu or CASE_CPU_S)
        except RecursionError:
            self._harness_error(kind, case)
            return None
        except Exception:
            self._harness_error(kind, case)
            return None
        for name, value, n in out.dims:
            self.counters[name][value] += n
        self.count('case_kind', kind)
        if out.nontrivial:
            self.distinct.add(case_hash(kind, case))
        if self.sample_kinds[kind] < 3 and len(self.samples) < 40 and out.obs is not None:
            self.sample_kinds[kind] += 1
            self.samples.append({'kind': kind, 'case': case, 'observed': out.obs})
        for key, detail in out.fails:
            if key in self.known:
                self.known_hits[key] += 1
                if self.known_sample_n and len(self.known_samples[key]) < self.known_sample_n and \
                        (self.known_hits[key] - 1) % 7 == 0:
                    self.known_samples[key].append(str(detail)[:400])
                continue
            self.violation_keys[key] += 1
            if self.violation_keys[key] <= 2 and len(self.violations) < MAX_RECORDED:
                k2, c2, d2 = self._shrink(kind, case, key, detail)
                self.violations.append({'key': key, 'kind': k2, 'case': c2, 'detail': d2})
        return out

    def _harness_error(self, kind, case):
        if len(self.harness_errors) < 5:
            self.harness_errors.append({'kind': kind, 'case': case,
                                        'traceback': traceback.format_exc(limit=12)})
        self.count('harness_error', kind)

    def _shrink(self, kind, case, key, detail):
        shrink = getattr(self.module, 'shrink', None)
        if shrink is None:
            return kind, case, detail
        attempts = 0
        improved = True
        while improved and attempts < 300:
            improved = False
            try:
                cands = list(shrink(kind, case))
            except Exception:
                break
            for cand in cands:
                attempts += 1
                if attempts >= 300:
                    break
                try:
                    with cpu_limit():
                        out = self.module.check_case(kind, cand)
                except BaseException:
                    continue
                hit = [d for k, d in out.fails if k == key]
                if hit:
                    case, detail = cand, hit[0]
                    improved = True
                    break
        return kind, case, detail

    # ---- results -------------------------------------------------------------
    def partial(self):
        return {
            'evaluations': self.evaluations,
            'distinct': sorted(self.distinct),
            'counters': {k: dict(v) for k, v in self.counters.items()},
            'samples': self.samples,
            'violations': self.violations,
            'violation_keys': dict(self.violation_keys),
            'known_hits': dict(self.known_hits),
            'known_samples': dict(self.known_samples),
            'harness_errors': self.harness_errors,
            'extra': self.extra,
            'wall_s': time.time() - self.t0,
        }


def merge_partials(parts):
    m = {'evaluations': 0, 'distinct': set(), 'counters': collections.defaultdict(collections.Counter),
         'samples': [], 'violations': [], 'violation_keys': collections.Counter(),
         'known_hits': collections.Counter(), 'harness_errors': [], 'extra': {}, 'shards': len(parts),
         'known_samples': collections.defaultdict(list)}
    for p in parts:
        m['evaluations'] += p['evaluations']
        m['distinct'].update(p['distinct'])
        for dim, c in p['counters'].items():
            m['counters'][dim].update(c)
        if len(m['samples']) < 40:
            m['samples'].extend(p['samples'][:max(3, 40 // len(parts))])
        m['violations'].extend(p['violations'])
        m['violation_keys'].update(p['violation_keys'])
        m['known_hits'].update(p['known_hits'])
        for k, v in p.get('known_samples', {}).items():
            if len(m['known_samples'][k]) < 12:
                m['known_samples'][k].extend(v)
        m['harness_errors'].extend(p['harness_errors'])
        for k, v in p.get('extra', {}).items():
            if isinstance(v, (int, float)) and isinstance(m['extra'].get(k, 0), (int, float)):
                m['extra'][k] = m['extra'].get(k, 0) + v
            elif isinstance(v, list):
                m['extra'].setdefault(k, [])
                m['extra'][k] = (m['extra'][k] + v)[:50]
            else:
                m['extra'].setdefault(k, v)
    return m


class _Merged:
    """Read-only view used by floors() on merged results."""
    def __init__(self, m, tier):
        self.counters = m['counters']
        self.evaluations = m['evaluations']
        self.extra = m['extra']
        self.tier = tier

    def got(self, dim, value=None):
        c = self.counters.get(dim, {})
        if value is None:
            return sum(c.values())
        return c.get(str(value), 0)


def finish(module, tier, seed, merged, t0, known_lines):
    prop = module.PROPERTY
    os.makedirs(os.path.join(OUT, 'evidence'), exist_ok=True)
    reasons = []
    if merged['harness_errors']:
        reasons.append('harness errors: %d (first: %s)' % (
            len(merged['harness_errors']),
            merged['harness_errors'][0]['traceback'].strip().splitlines()[-1]))
    view = _Merged(merged, tier)
    floors = getattr(module, 'floors', None)
    if floors is not None:
        reasons.extend(floors(view))
    if merged['evaluations'] == 0:
        reasons.append('no case was executed')

    # replay files for unlisted violations
    vio_paths = []
    seen = set()
    for v in merged['violations']:
        if v['key'] in seen:
            continue
        seen.add(v['key'])
        d = os.path.join(OUT, 'replays', prop)
        os.makedirs(d, exist_ok=True)
        name = hashlib.blake2b(canon([v['key'], v['kind'], v['case']]).encode(), digest_size=6).hexdigest()
        path = os.path.join(d, name + '.json')
        with open(path, 'w') as f:
            json.dump({'property': prop, 'key': v['key'], 'kind': v['kind'], 'case': v['case'],
                       'detail': v['detail'], 'seed': seed, 'tier': tier}, f, indent=1, default=repr)
        vio_paths.append((v['key'], os.path.relpath(path, OUT)))

    nvio = sum(merged['violation_keys'].values())
    coverage = {
        'evaluations': merged['evaluations'],
        'distinct_nontrivial': len(merged['distinct']),
        'rule': module.RULE,
        'samples': merged['samples'][:40],
        'counters': {k: dict(sorted(v.items(), key=lambda kv: -kv[1])[:80])
                     for k, v in sorted(merged['counters'].items())},
        'shards': merged.get('shards', 1),
        'known_finding_hits': dict(merged['known_hits']),
        **({'known_finding_samples': dict(merged['known_samples'])} if merged.get('known_samples') else {}),
        'violation_keys': dict(merged['violation_keys']),
        'inconclusive_reasons': reasons,
    }
    coverage.update(merged['extra'])
    if getattr(module, 'EXHAUSTIVE_SUBCHECK', False):
        coverage['exhaustive_subcheck'] = True
    evidence = {
        'property_id': prop, 'tier': tier, 'seed': seed, 'level': module.LEVEL,
        'coverage': coverage, 'assumptions': list(module.ASSUMPTIONS),
        'wall_s': round(time.time() - t0, 3), 'violations': nvio,
        'verdict': 'violated' if nvio else ('inconclusive' if reasons else 'held'),
    }
    with open(os.path.join(OUT, 'evidence', prop + '.json'), 'w') as f:
        json.dump(evidence, f, indent=1, default=repr)

    for line in known_lines:
        print(line)
    print('%s %s seed=%d: %d cases, %d distinct non-trivial, %d known-finding hits, %d violations, %.1fs'
          % (prop, tier, seed, merged['evaluations'], len(merged['distinct']),
             sum(merged['known_hits'].values()), nvio, time.time() - t0))
    if nvio:
        for key, path in vio_paths:
            print('VIOLATION property=%s replay=%s key=%s count=%d'
                  % (prop, path, key, merged['violation_keys'][key]))
        for key, cnt in merged['violation_keys'].items():
            if key not in seen:
                print('  (also) key=%s count=%d' % (key, cnt))
        return 1
    if reasons:
        for r in reasons:
            print('INCONCLUSIVE property=%s reason=%s' % (prop, r))
        for he in merged['harness_errors'][:2]:
            print(he['traceback'])
        return 2
    return 0


def check_known_witnesses(module):
    """Re-execute the pinned witness of each listed finding; report those that still fail."""
    lines = []
    for e in load_known():
        if e.get('property') != module.PROPERTY or e.get('status') != 'known':
            continue
        w = e.get('witness')
        if not w:
            continue
        try:
            with cpu_limit():
                out = module.check_case(w['kind'], w['case'])
            hit = any(k == e['key'] for k, _ in out.fails)
        except CpuBudget:
            hit = e['key'].endswith('/hang/' + w['kind'])
        except Exception:
            hit = False
        if hit:
            what = ' '.join(str(e.get('what', '')).split())[:400]
            lines.append('KNOWN-FINDING: property=%s key=%s %s' % (module.PROPERTY, e['key'], what))
    return lines


def run_shard(module, tier, seed, shard, nshards, scale):
    signal.signal(signal.SIGVTALRM, _on_vtalrm)
    h = Harness(module, tier, seed, shard, nshards, scale)
    module.run(h)
    return h.partial()


def run_check(module, tier, seed):
    t0 = time.time()
    signal.signal(signal.SIGVTALRM, _on_vtalrm)
    known_lines = check_known_witnesses(module)
    if tier == 'quick' or getattr(module, 'SINGLE_PROCESS', False):
        scale = 1.0 if tier == 'quick' else THOROUGH_SCALE
        parts = [run_shard(module, tier, seed, 0, 1, scale)]
    else:
        parts = []
        work = os.path.join(VERIF, '.work', '%s-%d-%d' % (module.PROPERTY, seed, os.getpid()))
        os.makedirs(work, exist_ok=True)
        procs = []
        for i in range(NSHARDS):
            out = os.path.join(work, 'shard%d.json' % i)
            cmd = [sys.executable, '-m', 'rv.cli', module.PROPERTY, tier, '--shard', str(i),
                   '--nshards', str(NSHARDS), '--partial', out]
            env = dict(os.environ, VERIF_SEED=str(seed))
            procs.append((i, out, subprocess.Popen(cmd, cwd=VERIF, env=env)))
        wall = float(os.environ.get('RV_SHARD_WALL', '7200'))
        deadline = time.time() + wall
        failed = []
        for i, out, p in procs:
            try:
                p.wait(timeout=max(1, deadline - time.time()))
            except subprocess.TimeoutExpired:
                p.kill()
                failed.append('shard %d hit the wall-clock watchdog' % i)
                continue
            try:
                with open(out) as f:
                    parts.append(json.load(f))
            except Exception:
                failed.append('shard %d produced no result (exit %s)' % (i, p.returncode))
        import shutil
        shutil.rmtree(work, ignore_errors=True)
        if failed:
            parts.append({'evaluations': 0, 'distinct': [], 'counters': {}, 'samples': [], 'violations': [],
                          'violation_keys': {}, 'known_hits': {}, 'extra': {},
                          'harness_errors': [{'kind': 'shard', 'case': None, 'traceback': r} for r in failed]})
    merged = merge_partials(parts)
    return finish(module, tier, seed, merged, t0, known_lines)


def replay(module, path):
    signal.signal(signal.SIGVTALRM, _on_vtalrm)
    with open(path) as f:
        rec = json.load(f)
    kind, case = rec['kind'], rec['case']
    try:
        # a replay uses the largest per-case budget any check asks for (slow is not hung)
        with cpu_limit(max(CASE_CPU_S, float(rec.get('cpu', 600)))):
            out = module.check_case(kind, case)
        fails = out.fails
        obs = out.obs
    except CpuBudget:
        bo = budget_outcome(module, kind, case, CASE_CPU_S)
        fails = bo.fails
        obs = 'CPU budget exceeded' + ('' if fails else ' by the harness; the engine alone answers in time')
    print('replay %s kind=%s' % (path, kind))
    print('case: %s' % canon(case))
    print('observed: %s' % (obs,))
    known = {e['key'] for e in load_known() if e.get('property') == module.PROPERTY and e.get('status') == 'known'}
    rc = 0
    for key, detail in fails:
        if key in known:
            print('KNOWN-FINDING: property=%s key=%s %s' % (module.PROPERTY, key, detail))
        else:
            print('VIOLATION property=%s replay=%s key=%s' % (module.PROPERTY, path, key))
            print('  detail: %s' % (detail,))
            rc = 1
    if not fails:
        print('no violation reproduced')
    return rc
