"""./check <Cnn> <quick|thorough> [--replay file] [--shard i --nshards n --partial out]"""
import importlib
import json
import os
import sys

from . import bootstrap  # noqa: F401  (must precede any elementpath import)
from . import core


def main(argv):
    if len(argv) < 1:
        print(__doc__)
        return 2
    prop = argv[0].upper()
    rest = argv[1:]
    tier = None
    replay = None
    shard = nshards = None
    partial = None
    i = 0
    while i < len(rest):
        a = rest[i]
        if a in ('quick', 'thorough'):
            tier = a
        elif a == '--replay':
            i += 1
            replay = rest[i]
        elif a == '--shard':
            i += 1
            shard = int(rest[i])
        elif a == '--nshards':
            i += 1
            nshards = int(rest[i])
        elif a == '--partial':
            i += 1
            partial = rest[i]
        else:
            print('unknown argument %r' % a)
            return 2
        i += 1
    if tier is None:
        tier = os.environ.get('VERIF_TIER', 'quick')
        if tier not in ('quick', 'thorough'):
            tier = 'quick'
    try:
        seed = int(os.environ.get('VERIF_SEED', '0') or 0)
    except ValueError:
        seed = 0
    try:
        bootstrap.assert_repo()
        module = importlib.import_module('rv.checks.' + prop.lower())
    except Exception as e:
        import traceback
        traceback.print_exc()
        print('INCONCLUSIVE property=%s reason=import failed: %r' % (prop, e))
        return 2
    if replay is not None:
        return core.replay(module, replay)
    if shard is not None:
        part = core.run_shard(module, tier, seed, shard, nshards or 1, core.THOROUGH_SCALE)
        with open(partial, 'w') as f:
            json.dump(part, f, default=repr)
        return 0
    return core.run_check(module, tier, seed)


if __name__ == '__main__':
    sys.exit(main(sys.argv[1:]))
