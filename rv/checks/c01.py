"""C01 - path expressions select exactly the XDM nodes, once, in document order.

Oracles: reference XDM model (rv/models/xdm.py), libxml2 through lxml (XPath 1.0, lxml twins),
cross-version agreement, and the three public call forms against the documented projection."""
import copy

from ..core import Outcome
from ..engine import call, PARSERS
from .. import gen_xml
from ..gen_xml import NS_POOL
from ..models import xdm

import elementpath
from elementpath import XPathContext, get_node_tree, Selector
from elementpath.xpath_nodes import XPathNode, DocumentNode, ElementNode, AttributeNode, NamespaceNode, \
    TextNode, CommentNode, ProcessingInstructionNode

PROPERTY = 'C01'
LEVEL = 'exploration'
RULE = ('random documents (<= 40 nodes, depth <= 5, nested same-name elements, namespaces, comments, PIs, '
        'document-level siblings) x random path expressions (<= 4 steps over the 13 axes, name/kind tests, '
        '<= 2 predicates per step, //, parenthesised sub-paths, unions) x context items x {ElementTree, lxml} '
        'x {document, fragment, element} roots x 4 parser versions; a case (document + expression batch) is '
        'non-trivial when at least one expression selects a non-empty node list; distinct by canonical JSON.')
ASSUMPTIONS = [
    'reference XDM axis model transcribed from XPath 1.0 section 2 / XDM; libxml2 (lxml 6.1.3) as second oracle',
    'a mismatch with the model is a violation only if libxml2 (where applicable) agrees with the model, except for '
    'following/preceding from attribute or namespace context nodes where libxml2 is known to deviate',
    'attribute order = source order; relative order of namespace nodes of one element is not constrained',
    'no default element namespace is passed to the parsers, so unprefixed names mean "no namespace" in all versions',
    'Element root with fragment=None (hybrid mode): only relative paths and absolute paths starting with a '
    'forward element step are explored',
]

VERSIONS = ['1.0', '2.0', '3.0', '3.1']
AXIS_WEIGHTS = [('child', 8), ('descendant', 3), ('descendant-or-self', 2), ('attribute', 3), ('self', 2),
                ('parent', 4), ('ancestor', 3), ('ancestor-or-self', 2), ('following', 4), ('following-sibling', 4),
                ('preceding', 4), ('preceding-sibling', 4), ('namespace', 1)]
AXIS_POOL = [a for a, w in AXIS_WEIGHTS for _ in range(w)]


# ------------------------------------------------------------------ expression generator
def g_test(r, axis, names):
    x = r.random()
    if axis == 'attribute':
        if x < 0.04:
            return ['*local', r.choice(['n', 's', 'q'])]
        if x < 0.6:
            return ['name', r.choice(['n', 's', 'q']), None]
        if x < 0.7:
            return ['name', 'q', 'p1']
        if x < 0.9:
            return ['*']
        return ['node']
    if axis == 'namespace':
        if x < 0.5:
            return ['*']
        if x < 0.8:
            return ['name', r.choice(['p1', 'p2', 'p3', 'xml', 'd']), None]
        return ['node']
    if x < 0.06:
        # XPath 2.0+ only (the case is then not given to 1.0/libxml2); a name that is a proper suffix of another
        # name of the document is preferred (a suffix test instead of a local-name test shows there)
        sfx = sorted({b for a in names for b in names + ['a'] if a != b and a.endswith(b)})
        return ['*local', r.choice(sfx) if sfx and r.random() < 0.6 else r.choice(names + ['a'])]
    if x < 0.45:
        return ['name', r.choice(names), None]
    if x < 0.55:
        return ['name', r.choice(names), r.choice(['p1', 'p2', 'p3', 'd'])]
    if x < 0.70:
        return ['*']
    if x < 0.75:
        return ['pfx*', r.choice(['p1', 'p1', 'p2', 'p3', 'd'])]
    if x < 0.87:
        return ['node']
    if x < 0.93:
        return ['text']
    if x < 0.97:
        return ['comment']
    return ['pi', r.choice([None, None, 'tgt', 'pi'])]


POSITIONAL = ('num', 'last', 'lastminus', 'pos', 'posnum', 'countnum')


def g_pred(r, names, depth):
    x = r.random()
    if x < 0.25:
        return ['num', r.randint(1, 3)]
    if x < 0.33:
        return ['last']
    if x < 0.38:
        return ['lastminus', 1]
    if x < 0.44:
        return ['pos', r.choice(['=', '!=', '<', '<=', '>', '>=']), r.randint(1, 3)]
    if x < 0.50:
        # numeric predicates whose value varies with the item: several items can match
        if depth >= 2 or r.random() < 0.5:
            return ['posnum']
        return ['countnum', g_path(r, names, depth + 1, rel=True, maxsteps=1), r.choice([0, 0, 1])]
    if x < 0.58:
        return ['attr', r.choice(['n', 's', 'q'])]
    if x < 0.68:
        return ['attrcmp', 'n', r.choice(['=', '!=', '<', '>', '<=', '>=']), r.randint(0, 4)]
    if x < 0.74:
        return ['attrcmp', 's', r.choice(['=', '!=']), r.choice(['x', 'y'])]
    if x < 0.92 and depth < 2:
        return ['path', g_path(r, names, depth + 1, rel=True, maxsteps=2)]
    if x < 0.97 and depth < 2:
        return ['not', g_pred(r, names, depth + 1)]
    if depth < 2:
        return ['count', g_path(r, names, depth + 1, rel=True, maxsteps=1), r.choice(['=', '>', '<']), r.randint(0, 2)]
    return ['num', 1]


def g_step(r, names, depth, first=False):
    axis = r.choice(AXIS_POOL)
    test = g_test(r, axis, names)
    npred = r.choice([0, 0, 0, 1, 1, 2, 3, 4]) if depth < 2 else r.choice([0, 0, 1])
    preds = [g_pred(r, names, depth) for _ in range(npred)]
    if npred >= 3:
        # long predicate chains: non-positional filters first, a positional one last (the direction of the step
        # must still hold for the n-th predicate of a reverse axis step)
        always = ['path', {'abs': '', 'steps': [{'axis': 'self', 'test': ['node'], 'preds': [], 'abbr': False}]}]
        fillers = [always, always, ['not', ['attr', 'q']], ['not', ['attr', 's']], ['attr', 'n']]
        preds = [p if i == npred - 1 else r.choice(fillers) for i, p in enumerate(preds)]
        if r.random() < 0.6:
            axis = r.choice(['ancestor', 'ancestor-or-self', 'preceding', 'preceding-sibling'])
            test = g_test(r, axis, names) if r.random() < 0.5 else ['*']
        if r.random() < 0.6:
            preds[-1] = r.choice([['num', 1], ['num', 2], ['last'], ['pos', '<=', 2]])
    step = {'axis': axis, 'test': test, 'preds': preds, 'abbr': r.random() < 0.6}
    if axis == 'attribute' and test[0] == 'node' and r.random() < 0.9:
        step['abbr'] = False      # '@node()' is rejected by the parsers (listed finding): keep it rare
    if not first:
        step['sep'] = '//' if r.random() < 0.15 else '/'
    return step


def g_path(r, names, depth=0, rel=False, maxsteps=4):
    ab = '' if rel else r.choice(['', '/', '/', '//', '//'])
    n = r.randint(1, maxsteps)
    steps = []
    for i in range(n):
        if i == 0 and ab == '' and depth < 2 and r.random() < 0.08:
            sub = g_path(r, names, depth + 1, rel, 2)
            steps.append({'paren': sub, 'preds': [g_pred(r, names, depth + 1) for _ in range(r.choice([0, 1, 1]))]})
        else:
            steps.append(g_step(r, names, depth, first=(i == 0)))
    return {'abs': ab, 'steps': steps}


def _uses_position(p):
    if p[0] in POSITIONAL:
        return True
    if p[0] == 'not':
        return _uses_position(p[1])
    return False


def _last_axis(path):
    if 'union' in path:
        return None
    last = path['steps'][-1]
    return _last_axis(last['paren']) if 'paren' in last else last['axis']


def sanitize(path):
    """the relative order of the namespace nodes of one element is implementation-dependent:
    no positional predicate may filter a sequence of namespace nodes"""
    if 'union' in path:
        for p in path['union']:
            sanitize(p)
        return path
    for st in path['steps']:
        if 'paren' in st:
            sanitize(st['paren'])
            if _last_axis(st['paren']) == 'namespace':
                st['preds'] = [p for p in st['preds'] if not _uses_position(p)]
        elif st['axis'] == 'namespace':
            st['preds'] = [p for p in st['preds'] if not _uses_position(p)]
        for p in st['preds']:
            q = p
            while q[0] == 'not':
                q = q[1]
            if q[0] in ('path', 'count', 'countnum'):
                sanitize(q[1])
    return path


def path_axes(path, acc=None):
    acc = [] if acc is None else acc
    if 'union' in path:
        for p in path['union']:
            path_axes(p, acc)
        return acc
    for s in path['steps']:
        if 'paren' in s:
            path_axes(s['paren'], acc)
        else:
            acc.append(s['axis'])
    return acc


def uses_local_wildcard(path):
    """does the path use a `*:NCName` test (not in the XPath 1.0 grammar)?"""
    if 'union' in path:
        return any(uses_local_wildcard(p) for p in path['union'])
    for s in path['steps']:
        if 'paren' in s:
            if uses_local_wildcard(s['paren']):
                return True
        elif s['test'][0] == '*local':
            return True
        for p in s['preds']:
            q = p
            while q[0] == 'not':
                q = q[1]
            if q[0] in ('path', 'count', 'countnum') and uses_local_wildcard(q[1]):
                return True
    return False


def is_abs(path):
    if 'union' in path:
        return any(is_abs(p) for p in path['union'])
    if path['abs']:
        return True
    return any('paren' in s and is_abs(s['paren']) for s in path['steps'])


def hybrid_ok(path):
    """absolute paths allowed with an Element root and fragment=None (see ASSUMPTIONS)"""
    if 'union' in path:
        return all(hybrid_ok(p) for p in path['union'])
    for s in path['steps']:
        if 'paren' in s and is_abs(s['paren']):
            return False
    if not path['abs']:
        return True
    s0 = path['steps'][0]
    if 'paren' in s0 or s0['test'][0] not in ('name', '*', 'pfx*'):
        return False
    if s0['axis'] not in ('child', 'descendant'):
        return False
    if any(a in xdm.REVERSE for a in path_axes(path)):
        return False
    return True


# ------------------------------------------------------------------ engine <-> model node mapping
class TreeMismatch(Exception):
    pass


def map_tree(root_node, table):
    """parallel walk of the engine's node tree and the model table -> {id(engine node): model node}"""
    m = {}

    def pair_children(en, mn):
        ech = list(en.children)
        if len(ech) != len(mn.children):
            raise TreeMismatch('children of %r: %d vs model %d' % (mn, len(ech), len(mn.children)))
        for ec, mc in zip(ech, mn.children):
            walk(ec, mc)

    def walk(en, mn):
        kinds = {'doc': DocumentNode, 'elem': ElementNode, 'text': TextNode, 'comment': CommentNode,
                 'pi': ProcessingInstructionNode}
        if not isinstance(en, kinds[mn.kind]):
            raise TreeMismatch('%r is %s' % (mn, type(en).__name__))
        m[id(en)] = mn
        if mn.kind == 'doc':
            pair_children(en, mn)
        elif mn.kind == 'elem':
            ens = {(x.prefix or ''): x for x in en.namespace_nodes}
            for ns in mn.nss:
                if ns.name not in ens:
                    raise TreeMismatch('namespace node %r missing on %r' % (ns.name, mn))
                m[id(ens[ns.name])] = ns
            if len(ens) != len(mn.nss):
                raise TreeMismatch('namespace nodes of %r: %s vs %s' % (mn, sorted(ens), [x.name for x in mn.nss]))
            eat = {x.name: x for x in en.attributes}
            for a in mn.attrs:
                if a.name not in eat:
                    raise TreeMismatch('attribute %r missing on %r' % (a.name, mn))
                m[id(eat[a.name])] = a
            if len(eat) != len(mn.attrs):
                raise TreeMismatch('attributes of %r' % mn)
            pair_children(en, mn)
    walk(root_node, table.root)
    return m


def ids_of(nodes, mapping):
    out = []
    for n in nodes:
        mn = mapping.get(id(n))
        if mn is None:
            out.append('unmapped:%s' % type(n).__name__)
        else:
            out.append(mn.id)
    return out


def norm_ns(ids, table):
    """namespace nodes of one element have no defined relative order: sort runs of sibling ns nodes"""
    out = list(ids)
    i = 0
    while i < len(out):
        if isinstance(out[i], int) and table.nodes[out[i]].kind == 'ns':
            j = i
            par = table.nodes[out[i]].parent
            while j < len(out) and isinstance(out[j], int) and table.nodes[out[j]].kind == 'ns' \
                    and table.nodes[out[j]].parent is par:
                j += 1
            out[i:j] = sorted(out[i:j])
            i = j
        else:
            i += 1
    return out


# ------------------------------------------------------------------ libxml2 oracle
def libxml2_ids(twin, table, ctx_model, text):
    """evaluate with libxml2; returns list of model ids, or None when not comparable"""
    import lxml.etree as LE
    if ctx_model.kind == 'doc':
        target = twin.tree
    elif ctx_model.kind == 'elem':
        target = twin.objs[ctx_model.ref]
    else:
        return None
    try:
        res = target.xpath(text, namespaces=NS_POOL)
    except LE.XPathError:
        return None
    if not isinstance(res, list):
        return None
    rev = {id(o): ref for ref, o in twin.objs.items()}
    out = []
    for x in res:
        if isinstance(x, tuple):          # namespace node (prefix, uri)
            out.append(('ns', x[0] or '', x[1]))
            continue
        if hasattr(x, 'getparent') and isinstance(x, str):
            par = x.getparent()
            if par is None:
                return None
            pref = rev.get(id(par))
            if pref is None:
                return None
            if x.is_attribute:
                mn = table.by_ref.get(('attr', pref, x.attrname))
            else:
                pm = table.by_ref[pref]
                if x.is_text:
                    mn = pm.children[0] if pm.children and pm.children[0].kind == 'text' else None
                else:
                    sib = pm.parent.children
                    k = sib.index(pm)
                    mn = sib[k + 1] if k + 1 < len(sib) and sib[k + 1].kind == 'text' else None
            if mn is None:
                return None
            out.append(mn.id)
            continue
        ref = rev.get(id(x))
        if ref is None or ref not in table.by_ref:
            return None
        out.append(table.by_ref[ref].id)
    return out


# ------------------------------------------------------------------ one case
def build(case):
    spec = case['doc']
    lib, mode = case['lib'], case['mode']
    twin = gen_xml.build_et(spec) if lib == 'et' else gen_xml.build_lxml(spec)
    if mode == 'doc':
        root_obj, fragment = twin.tree, None
    elif mode == 'docF':                   # Element root, fragment=False: a document is created
        root_obj, fragment = twin.root_elem, False
    elif mode == 'frag':
        root_obj, fragment = (twin.tree if case.get('frag_from_tree') else twin.root_elem), True
    else:
        root_obj, fragment = twin.root_elem, None
    has_doc = mode in ('doc', 'docF')
    with_misc = lib == 'lxml'
    if lib == 'lxml' and mode == 'elem' and (spec['pre'] or spec['post']):
        has_doc = True                     # lxml root with siblings: a document is created implicitly
    table = xdm.Table(spec, 'doc' if has_doc else 'elem', 'lxml' if lib == 'lxml' else 'et', NS_POOL, with_misc)
    return twin, root_obj, fragment, table, has_doc


def project(mn, twin, root_obj, dummy_doc):
    """documented projection of select(): element/comment/PI -> wrapped object, attribute/text -> string,
    namespace -> uri ((prefix, uri) for XPath 1.0), document -> the ElementTree (a dummy document is dropped)"""
    if mn.kind in ('elem', 'comment', 'pi'):
        return ('obj', id(twin.objs[mn.ref]))
    if mn.kind in ('attr', 'text'):
        return ('str', mn.value)
    if mn.kind == 'ns':
        return ('ns', mn.name, mn.value)
    return ('doc',)


def proj_public(x, version):
    if isinstance(x, tuple):
        return ('ns', x[0] or '', x[1])
    if isinstance(x, str):
        return ('str', str(x))
    if hasattr(x, 'getroot'):
        return ('doc',)
    if isinstance(x, XPathNode):
        return ('xnode', type(x).__name__)
    return ('obj', id(x))


# ------------------------------------------------------------------ deep documents
# A chain <e><e>...<e><x>t</x></e>...</e></e> of `depth` e elements (every `branch`-th one has a second child <s/>
# after the chain), whose node lists are known by construction: "every XML tree" includes trees deeper than the
# interpreter's recursion limit.  No reference table is built for these (the harness itself must not recurse).
def deep_expectations(depth, branch):
    ns = len([k for k in range(1, depth + 1) if k % branch == 0])      # <s/> siblings
    return [
        ('//e', depth), ('//x/text()', 1), ('//x/ancestor::e', depth), ('//x/ancestor-or-self::*', depth + 1),
        ('/descendant-or-self::node()', 1 + depth + 2 + ns), ('/e/descendant::x', 1), ('//s', ns),
        ('//x/preceding::*', 0), ('//x/following::*', ns), ('//s/preceding::x', 1 if ns else 0),
        ('(//e)[last()]/x', 1), ('//e[not(e)]', 1), ('//e[s]', ns), ('/e//e', depth - 1),
        ('//x/ancestor::e[1]/ancestor::e', depth - 1), ('//e/parent::e', depth - 1), ('//e/..', depth),
        ('/e/descendant-or-self::e[x]', 1), ('//s/preceding-sibling::e', ns if depth % branch else max(ns - 1, 0)),
        ('//text()/ancestor::node()', depth + 2), ('//e/x | //e/s', 1 + ns),
    ]


def check_deep(case, out):
    import xml.etree.ElementTree as ET
    from lxml import etree as LE
    depth, branch, lib = case['depth'], case['branch'], case['lib']
    mod = ET if lib == 'et' else LE
    root = cur = mod.Element('e')
    chain = [root]
    for _ in range(depth - 1):
        cur = mod.SubElement(cur, 'e')
        chain.append(cur)
    x = mod.SubElement(cur, 'x')
    x.text = 't'
    for k, e in enumerate(chain, 1):
        if k % branch == 0 and e is not cur:
            mod.SubElement(e, 's')
    # the innermost e has x as only child; an <s/> there would follow x inside the same parent
    if depth % branch == 0:
        mod.SubElement(cur, 's')
    tree = mod.ElementTree(root)
    out.dim('deep_depth', depth)
    for ver in case['vers']:
        for text, n in deep_expectations(depth, branch):
            if text == '//s/preceding-sibling::e':
                n = len([k for k in range(1, depth) if k % branch == 0])
            def run(text=text, ver=ver):
                tok = PARSERS[ver]().parse(text)
                return list(tok.select(XPathContext(root=tree)))
            res = call(run)
            out.dim('deep_evaluations', ver)
            if res[0] != 'ok':
                out.fail('C01/deep-document/raised/%s' % (res[2] if len(res) > 2 else res[1]),
                         'depth %d %s %s (%s): %r' % (depth, lib, text, ver, res))
                return
            got = res[1]
            if len(got) != n or len({id(g) for g in got}) != len(got):
                out.fail('C01/deep-document/wrong-node-count', 'depth %d %s %s (%s): %d nodes (%d distinct), expected %d'
                         % (depth, lib, text, ver, len(got), len({id(g) for g in got}), n))
                return
            pos = [g.position for g in got]
            if pos != sorted(pos):
                out.fail('C01/deep-document/not-in-document-order', 'depth %d %s %s (%s)' % (depth, lib, text, ver))
                return
    out.obs = 'chain of depth %d (%s), %d expressions x %s' % (depth, lib, len(deep_expectations(depth, branch)), case['vers'])


def check_case(kind, case):
    out = Outcome()
    if kind == 'deep':
        check_deep(case, out)
        return out
    twin, root_obj, fragment, table, has_doc = build(case)
    lib, mode = case['lib'], case['mode']
    r = call(get_node_tree, root_obj, NS_POOL, None, fragment)
    if r[0] != 'ok':
        out.fail('C01/tree-build/%s' % r[1], repr(r))
        return out
    root_node = r[1]
    try:
        mapping = map_tree(root_node, table)
    except TreeMismatch as e:
        out.fail('C01/tree-mismatch/%s/%s' % (lib, mode), str(e))
        return out
    rev = {}
    for en_id, mn in mapping.items():
        rev[mn.id] = en_id
    # engine node objects by model id
    eng_by_id = {}

    def collect(en):
        mn = mapping.get(id(en))
        if mn is not None:
            eng_by_id[mn.id] = en
        if isinstance(en, ElementNode):
            for x in en.namespace_nodes:
                eng_by_id[mapping[id(x)].id] = x
            for x in en.attributes:
                eng_by_id[mapping[id(x)].id] = x
        for ch in getattr(en, 'children', []) or []:
            collect(ch)
    collect(root_node)

    nonempty = 0
    for ex in case['exprs']:
        path = ex['path']
        text = xdm.render(path)
        ctx_model = table.nodes[ex['ctx']] if ex.get('ctx') is not None else table.root
        if ex.get('ctx') is not None and ex['ctx'] >= len(table.nodes):
            continue
        want = [m.id for m in table.eval_path(path, ctx_model, NS_POOL)]
        if want:
            nonempty += 1
        for a in set(path_axes(path)):
            out.dim('axis_used', a)
            if want:
                out.dim('axis_nonempty', a)
        ctx_engine = eng_by_id[ctx_model.id]
        lx = None
        versions = VERSIONS[1:] if uses_local_wildcard(path) else VERSIONS
        if len(versions) < len(VERSIONS):
            out.dim('xpath2_only_tests', '*:NCName')
        if lib == 'lxml' and (has_doc or not is_abs(path)) and len(versions) == len(VERSIONS):
            lx = libxml2_ids(twin, table, ctx_model, text)
            if lx is not None:
                out.dim('oracle', 'libxml2-comparisons')
                lxn = [('ns', table.nodes[i].name, table.nodes[i].value) if isinstance(i, int) and table.nodes[i].kind == 'ns' else i for i in want]
                if sorted(map(str, lx)) != sorted(map(str, lxn)) or [i for i in lx if isinstance(i, int)] != [i for i in lxn if isinstance(i, int)]:
                    out.dim('oracle', 'model-vs-libxml2-disagreement')
                    lx_agrees = False
                else:
                    lx_agrees = True
        got_by_version = {}
        raw_by_version = {}
        for ver in versions:
            def run(ver=ver):
                parser = PARSERS[ver](namespaces=NS_POOL)
                tok = parser.parse(text)
                ctx = XPathContext(root=root_node, namespaces=NS_POOL, item=None if ctx_model is table.root else ctx_engine)
                return list(tok.select(ctx))
            res = call(run)
            out.dim('evaluations', ver)
            if res[0] != 'ok':
                got_by_version[ver] = ('error',) + tuple(res)
            else:
                bad = [x for x in res[1] if not isinstance(x, XPathNode)]
                if bad:
                    got_by_version[ver] = ('non-node', type(bad[0]).__name__)
                else:
                    raw_by_version[ver] = ids_of(res[1], mapping)
                    got_by_version[ver] = norm_ns(raw_by_version[ver], table)
        wantn = norm_ns(want, table)
        for ver in versions:
            got = got_by_version[ver]
            if got == wantn:
                continue
            # arbitration with libxml2
            if lx is not None and not lx_agrees:
                ctxk = ctx_model.kind
                axes = set(path_axes(path))
                if not (axes & {'following', 'preceding'}):
                    out.dim('undecided', 'model-libxml2-disagree')
                    continue
            key, detail = classify(table, path, ctx_model, got, wantn, ver, text, root_node, ctx_engine, mapping)
            out.fail(key, detail)
            break
        # cross-version agreement
        vals = [got_by_version[v] for v in versions]
        if any(v != vals[0] for v in vals[1:]) and all(not isinstance(v, tuple) for v in vals):
            out.fail('C01/version-disagreement', '%s: %s' % (text, {v: got_by_version[v] for v in versions}))
        # public call forms (contexts that have a wrapped object of their own: document, element, comment, PI)
        if ctx_model.kind in ('doc', 'elem', 'comment', 'pi') and isinstance(got_by_version['2.0'], list):
            out.dim('public_context_kind', ctx_model.kind)
            check_public(out, case, twin, root_obj, fragment, table, ctx_model, text, raw_by_version, has_doc, mode)
    out.nontrivial = nonempty > 0
    out.obs = '%s/%s %d nodes, %d expressions, %d non-empty, e.g. %s' % (
        lib, mode, len(table.nodes), len(case['exprs']), nonempty, xdm.render(case['exprs'][0]['path']))
    out.dim('tree', '%s/%s' % (lib, mode))
    return out


def check_public(out, case, twin, root_obj, fragment, table, ctx_model, text, got_by_version, has_doc, mode):
    for ver in ('1.0', '3.1'):
        ids = got_by_version.get(ver)
        if not isinstance(ids, list) or any(not isinstance(i, int) for i in ids):
            continue
        dummy = has_doc and not hasattr(root_obj, 'getroot')
        expect = []
        for i in ids:
            mn = table.nodes[i]
            p = project(mn, twin, root_obj, dummy)
            if p == ('doc',):
                continue        # how a (dummy) document node is projected is not part of the property
            if p[0] == 'ns' and ver != '1.0':
                p = ('str', mn.value)
            expect.append(p)
        kw = dict(namespaces=NS_POOL, parser=PARSERS[ver], fragment=fragment)
        if ctx_model is not table.root:
            kw['item'] = twin.objs[ctx_model.ref]
        forms = {
            'select': lambda: elementpath.select(root_obj, text, **kw),
            'iter_select': lambda: list(elementpath.iter_select(root_obj, text, **kw)),
            'Selector.select': lambda: Selector(text, namespaces=NS_POOL, parser=PARSERS[ver]).select(
                root_obj, **{k: v for k, v in kw.items() if k in ('item', 'fragment', 'namespaces')}),
            'Selector.iter_select': lambda: list(Selector(text, namespaces=NS_POOL, parser=PARSERS[ver]).iter_select(
                root_obj, **{k: v for k, v in kw.items() if k in ('item', 'fragment', 'namespaces')})),
        }
        for name, fn in forms.items():
            res = call(fn)
            out.dim('public_form', name)
            if res[0] != 'ok':
                out.fail('C01/public/%s/raised' % name, '%s (%s): %r' % (text, ver, res))
                continue
            val = res[1]
            if not isinstance(val, list):
                # select() documents a bare value for some expression forms: read it as a singleton
                out.dim('public_scalar_singleton', name)
                val = [val]
            got = [p for p in [proj_public(x, ver) for x in val] if p != ('doc',)]
            if got != expect:
                out.fail('C01/public/%s/differs-from-token-select' % name,
                         '%s (%s): public %r vs projection of node list %r' % (text, ver, got[:6], expect[:6]))


def sorted_ns(lst):
    out = list(lst)
    i = 0
    while i < len(out):
        if out[i][0] == 'ns' or (out[i][0] == 'str' and False):
            j = i
            while j < len(out) and out[j][0] == 'ns':
                j += 1
            out[i:j] = sorted(out[i:j])
            i = j
        else:
            i += 1
    return out


def classify(table, path, ctx_model, got, want, ver, text, root_node, ctx_engine, mapping):
    """mechanism key: kind of deviation + axis of the first step whose prefix already deviates"""
    detail = '%s [%s] ctx=%r: got %s expected %s' % (text, ver, ctx_model, str(got)[:120], str(want)[:120])
    if isinstance(got, tuple):
        if got[0] == 'error':
            if got[1] != 'err':
                return 'C01/exception/%s@%s' % (got[2], got[3] if len(got) > 3 else ''), detail
            import re as _re
            if got[2] == 'XPST0003' and _re.search(r'@(node|text|comment|processing-instruction)\(', text):
                return 'C01/syntax/abbreviated-attribute-step-with-kind-test', detail
            return 'C01/error/%s' % got[2], detail
        return 'C01/non-node-result', detail
    # does the result equal what a known deviation of the engine would give?  (classification only)
    for quirks in (['attribute-axis-of-attribute-is-self'], ['following-of-attribute-or-namespace-is-empty'],
                   ['attribute-axis-of-attribute-is-self', 'following-of-attribute-or-namespace-is-empty']):
        table.quirks = set(quirks)
        try:
            alt = norm_ns([m.id for m in table.eval_path(path, ctx_model, NS_POOL)], table)
        finally:
            table.quirks = set()
        if alt == got:
            return 'C01/known-deviation/' + '+'.join(quirks), detail
    kind = deviation(got, want)
    axis, multi, ctxkind = 'n/a', False, ctx_model.kind
    if 'union' not in path and not any('paren' in s for s in path['steps']):
        # locate the first deviating prefix
        for k in range(1, len(path['steps']) + 1):
            sub = {'abs': path['abs'], 'steps': path['steps'][:k]}
            w = norm_ns([m.id for m in table.eval_path(sub, ctx_model, NS_POOL)], table)

            def run():
                tok = PARSERS[ver](namespaces=NS_POOL).parse(xdm.render(sub))
                ctx = XPathContext(root=root_node, namespaces=NS_POOL,
                                   item=None if ctx_model is table.root else ctx_engine)
                return list(tok.select(ctx))
            res = call(run)
            g = norm_ns(ids_of(res[1], mapping), table) if res[0] == 'ok' else None
            if g != w:
                step = path['steps'][k - 1]
                axis = step['axis']
                prev = {'abs': path['abs'], 'steps': path['steps'][:k - 1]}
                nctx = len(table.eval_path(prev, ctx_model, NS_POOL)) if k > 1 else (1 if not path['abs'] == '//' else 2)
                if step.get('sep') == '//' or (k == 1 and path['abs'] == '//'):
                    nctx = 2
                multi = nctx > 1
                if g is not None:
                    kind = deviation(g, w)
                has_pred = bool(step['preds'])
                ctxk = 'node-ctx'
                if k == 1 and not path['abs'] and ctx_model.kind in ('attr', 'ns', 'text', 'comment', 'pi'):
                    ctxk = ctx_model.kind + '-ctx'
                return 'C01/%s/%s/%s/%s%s' % (kind, axis, 'multi' if multi else 'single', ctxk,
                                              '/pred' if has_pred else ''), detail
    return 'C01/%s/composite' % kind, detail


def deviation(got, want):
    gi = [g for g in got]
    if len(set(map(str, gi))) != len(gi):
        return 'duplicate'
    sg, sw = set(map(str, gi)), set(map(str, want))
    if sg == sw:
        return 'order'
    if sg < sw:
        return 'missing'
    if sg > sw:
        return 'extra'
    return 'wrong-nodes'


# ------------------------------------------------------------------ workload
def g_case(r):
    x = r.random()
    lib = 'lxml' if x < 0.5 else 'et'
    mode = r.choice(['doc', 'doc', 'doc', 'docF', 'frag', 'elem'])
    spec = gen_xml.gen_doc(r, max_nodes=r.choice([6, 12, 25, 40]), doc_misc=(lib == 'lxml'))
    if lib == 'lxml' and mode in ('frag', 'elem', 'docF') and r.random() < 0.7:
        spec['pre'], spec['post'] = [], []
    case = {'doc': spec, 'lib': lib, 'mode': mode, 'exprs': []}
    if mode == 'frag':
        case['frag_from_tree'] = r.random() < 0.5
    twin, root_obj, fragment, table, has_doc = build(case)
    names = sorted({(n.name.split('}')[-1]) for n in table.nodes if n.kind == 'elem'}) or ['a']
    for _ in range(8):
        path = sanitize(g_path(r, names))
        ctx = None
        if r.random() < 0.45 or not is_abs(path):
            # relative evaluation from a random context node
            cands = [n for n in table.nodes if n.kind != 'doc']
            pick = r.choice(cands)
            if pick.kind in ('attr', 'ns', 'text', 'comment', 'pi') and r.random() < 0.5:
                pick = pick.parent if pick.parent is not None else pick
            ctx = pick.id
        if not has_doc:
            # without a document node '/' is outside the specification (XPDY0050 in XPath 2.0+)
            path = strip_abs(path)
        case['exprs'].append({'path': path, 'ctx': ctx})
    return case


def strip_abs(path):
    path = copy.deepcopy(path)
    if 'union' in path:
        return {'union': [strip_abs(p) for p in path['union']]}
    path['abs'] = ''
    for s in path['steps']:
        if 'paren' in s:
            s['paren'] = strip_abs(s['paren'])
    return path


def run(h):
    r = h.rng
    if h.shard == 0:
        for depth, branch, lib in ((40, 7, 'et'), (1100, 100, 'et'), (1600, 250, 'lxml'), (r.randrange(1200, 2600), r.choice([64, 333, 1000]), r.choice(['et', 'lxml']))):
            h.case('deep', {'depth': depth, 'branch': branch, 'lib': lib, 'vers': ['1.0', '3.1'] if depth > 100 else VERSIONS})
    for _ in range(h.n(2200)):
        h.case('paths', g_case(r))


def shrink(kind, case):
    if kind == 'deep':
        return
    # one expression at a time
    if len(case['exprs']) > 1:
        for e in case['exprs']:
            c = dict(case)
            c['exprs'] = [e]
            yield c
        return
    ex = case['exprs'][0]
    path = ex['path']
    # fewer steps / predicates
    if 'union' in path:
        for p in path['union']:
            c = copy.deepcopy(case)
            c['exprs'][0]['path'] = p
            yield c
    else:
        steps = path['steps']
        for i in range(len(steps)):
            if len(steps) > 1:
                c = copy.deepcopy(case)
                del c['exprs'][0]['path']['steps'][i]
                c['exprs'][0]['path']['steps'][0].pop('sep', None)
                yield c
            if steps[i]['preds']:
                for j in range(len(steps[i]['preds'])):
                    c = copy.deepcopy(case)
                    del c['exprs'][0]['path']['steps'][i]['preds'][j]
                    yield c
    # smaller document: drop a child subtree anywhere (only when no explicit context id is involved)
    if ex.get('ctx') is None:
        def variants(e, prefix):
            for i in range(len(e['c'])):
                yield prefix + (i,)
                if e['c'][i]['k'] == 'e':
                    yield from variants(e['c'][i], prefix + (i,))
        for pth in list(variants(case['doc']['root'], ())):
            c = copy.deepcopy(case)
            e = c['doc']['root']
            for k in pth[:-1]:
                e = e['c'][k]
            del e['c'][pth[-1]]
            # avoid adjacent text chunks
            cc = e['c']
            if any(cc[k]['k'] == 't' and cc[k + 1]['k'] == 't' for k in range(len(cc) - 1)):
                continue
            yield c
        for key in ('pre', 'post'):
            if case['doc'][key]:
                c = copy.deepcopy(case)
                c['doc'][key] = []
                yield c


def floors(v):
    reasons = []
    for a in xdm.AXES:
        if v.got('axis_nonempty', a) < 20:
            reasons.append('axis %s seen in fewer than 20 non-empty results' % a)
    if v.got('oracle', 'libxml2-comparisons') < 200:
        reasons.append('fewer than 200 libxml2 comparisons')
    if v.got('deep_evaluations') < 40:
        reasons.append('fewer than 40 evaluations on documents deeper than the recursion limit')
    if v.got('public_form') < 500:
        reasons.append('fewer than 500 public call-form comparisons')
    return reasons
