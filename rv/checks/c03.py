"""C03 - parse and evaluate fail only with ElementPathError; parsers stay reusable; nothing hangs.

Monitors: outcome classifier at the API boundary (value | ElementPathError with code | other exception |
CPU budget), parser-state invariant after every parse() call, and a history oracle (a long-lived parser
instance must answer like a fresh one after any sequence of failing/succeeding parses)."""
import re
import xml.etree.ElementTree as ET

from ..core import Outcome
from ..engine import call, PARSERS

import elementpath
from elementpath import XPathContext, ElementPathError
from . import c05 as _c05
from . import c19 as _c19

PROPERTY = 'C03'
LEVEL = 'exploration'
RULE = ('seed corpus of valid expressions of every feature family -> token-level mutations (delete, insert, swap, duplicate, '
        'keyword/operator splice, reserved words in name position, literals in step position, truncation at token '
        'boundaries, bracket noise, character noise), random strings over an XPath alphabet, and ill-typed calls of every '
        'registered function with pool arguments; each source x 4 parser versions x 4 dynamic contexts; plus parse histories '
        '(30-80 interleaved failing/succeeding sources on one parser instance). Non-trivial = the source is not a verbatim '
        'seed; distinct by source text (histories: by the sequence).')
ASSUMPTIONS = [
    'nesting depth of generated sources <= 25 levels (legitimate nesting only exhausts the stack above ~300 levels), so a '
    'RecursionError means unbounded recursion',
    'a hang is a case exceeding 10 s of CPU time (ITIMER_VIRTUAL), re-checked in isolation by the shrinker',
    'which error code is raised is not decided (only that a parse error carries one)',
]

VERSIONS = ['1.0', '2.0', '3.0', '3.1']
DOC = '<r xmlns:p="urn:p"><a n="1">x</a><a n="2">y<b/>t</a><c>3</c><p:d xml:lang="en">4.5</p:d><!--k--><?pi v?></r>'
NS = {'p': 'urn:p'}

SEEDS = sorted(set([e for _, e in _c05.CORPUS] + _c19.AMBIENT + [
    '/r/a[1]', '//a/..', '//a/following::c', '//@n', '/r/a[@n = 2]/preceding-sibling::*', 'child::a[position() < 3]',
    '//*[self::a or self::c]', 'descendant-or-self::node()/text()', '//p:d', '//*:d', '//p:*', 'namespace::*',
    '1 + 2 * 3', '-1 - -2', '4 div 2 mod 3', '7 idiv 2', '1 to 5', '(1, 2, 3)[2]', '1 = 1 and 2 > 1 or false()',
    '"a" || "b"', "'it''s'", '1.5e3', '.5', '5.', 'a and b', 'div div div', 'if (1) then 2 else 3',
    '1 eq 1', '1 lt 2', '(1,2) = (2,3)', '1 is 1', '//a[1] is //a[1]', '//a[1] << //a[2]', '//a union //c',
    '//a intersect //a[1]', '//a except //a[1]', '1 instance of xs:integer', '"1" cast as xs:integer', '"x" castable as xs:integer',
    '1 treat as xs:integer', 'xs:date("2000-01-01")', 'xs:QName("p:a")', 'fn:QName("urn:p", "p:x")',
    '() instance of empty-sequence()', '(1, 2) instance of xs:integer+', '//a instance of element()*', '//@n instance of attribute(n)+',
    '. instance of document-node()', 'some $x in (1, 2), $y in (3, 4) satisfies $x + $y = 5',
    'for $x in (1, 2), $y in ($x, 3) return $x * $y', 'let $x := 1, $y := $x + 1 return ($x, $y)',
    'function($a as xs:integer, $b) as xs:integer { $a + $b }(1, 2)', 'abs#1(-1)', 'concat(?, "b")("a")', 'fold-left(1 to 4, 0, function($a, $b) { $a + $b })',
    '(1 to 3) ! (. * 2)', '//a ! name()', 'map{"a": 1}?a', '[1, 2]?1', 'map{"a": [1, 2]}?a?2', '(map{"a": 1}, map{"a": 2})?a', '[1, 2]?*',
    '"a" => upper-case()', '(1, 2) => count()', '"a,b" => tokenize(",") => count()', 'array{1, 2}', 'map{}', '[]',
    'Q{urn:p}d', '//Q{urn:p}d', 'Q{http://www.w3.org/2005/xpath-functions}abs(-1)', 'fn:abs(-1)', 'math:pi()',
    'string-length()', 'position()', 'last()', 'name()', 'true()', 'not(1)', 'boolean(//a)', 'number("1")', 'string(1)',
    '(: c :) 1', '1 (: a (: b :) :) + 1', 'element(a)', 'attribute(n)', 'text()', 'comment()', 'node()', 'processing-instruction()',
    'processing-instruction("pi")', 'document-node()', 'schema-element(a)', 'namespace-node()',
    '$i', '$p:v', '$s || $s', '//a[$i]', 'current-date() instance of xs:date', 'doc("x")', 'collection()', 'id("a")', 'idref("a")',
    'lang("en")', 'root()', 'base-uri()', 'document-uri(/)', 'nilled(/r)', 'data(/r/a)', 'deep-equal(/r, /r)', 'error()',
    'error(xs:QName("p:e"), "m")', 'trace(1, "t")', 'exactly-one(1)', 'zero-or-one(())', 'one-or-more(1)',
    'format-date(xs:date("2000-01-01"), "[Y]")', 'format-dateTime(current-dateTime(), "[H]")', 'format-number(1, "#")',
    'generate-id(/r)', 'has-children(/r)', 'unparsed-text-available("x")', 'environment-variable("x")',
    'string-to-codepoints("a")', 'codepoints-to-string(97)', 'normalize-unicode("a", "NFC")', 'encode-for-uri("a b")',
    'substring("abc", 2, 1)', 'translate("abc", "a", "x")', 'matches("a", "a", "i")', 'subsequence((1,2,3), 2, 1)',
    'min((1, 2))', 'max(("a", "b"))', 'avg(())', 'sum((), 0)', 'round(2.5)', 'round-half-to-even(2.5, 1)', 'floor(-1.5)',
    'xs:dayTimeDuration("PT1H") * 2', 'xs:date("2000-01-01") - xs:date("1999-01-01")', 'xs:hexBinary("0A") eq xs:hexBinary("0a")',
    'xs:float(1) + xs:double(1)', 'xs:untypedAtomic("1") + 1', '//c + 1', '//a/@n * 2', '- //c', 'string(//a[1]) < string(//a[2])',
]))
SEEDS = [s for s in SEEDS if 'random-number-generator' not in s and 'current-dateTime()' != s]

TOKEN_RE = re.compile(r'''\$?[A-Za-z_][\w.-]*(?::[A-Za-z_*][\w.-]*)?|Q\{[^}]*\}|\d+(?:\.\d*)?(?:[eE][+-]?\d+)?|\.\d+|"[^"]*"|'[^']*'|'''
                      r'''\(:|:\)|::|:=|=>|!=|<=|>=|<<|>>|\|\||//|\.\.|[()\[\]{}@,/|+*=<>!?.:#$-]|\s+|.''', re.S)
KEYWORDS = ['and', 'or', 'div', 'idiv', 'mod', 'lt', 'le', 'gt', 'ge', 'eq', 'ne', 'is', 'to', 'union', 'intersect', 'except',
            'instance of', 'treat as', 'cast as', 'castable as', 'return', 'satisfies', 'in', 'then', 'else', 'for', 'let', 'some',
            'every', 'if', 'empty-sequence()', 'item()', 'node()', 'text()', 'function', 'map', 'array', 'as', 'of',
            'element', 'attribute', 'document-node', 'comment', 'namespace-node', 'self', 'child', 'parent']
SPLICES = ['(', ')', '[', ']', '{', '}', '/', '//', '@', '$', '::', ':', '*', ',', '?', '!', '||', '=>', ':=', '#', '.', '..', '|',
           '1', '1.5', '1e0', '"s"', "'", '"', '(:', ':)', 'Q{u}a', 'Q{', '}', '-', '+', '<', '>=', '<<', '=', '!=', 'x', 'xs:integer',
           'p:', ':p', '$x', 'fn:', 'abs#', '#1', '?1', '?*', '?a', ' ', '\n', '\t', ' ', 'é', '\U0001F600', '\x00', '&', '%']
ALPHABET = list("abcxyz019 ()[]{}/@$:*,.?!|=<>+-#'\"") + ['//', '::', ' and ', ' or ', ' div ', ' to ', ' eq ', ' in ', 'for ', 'if ',
                                                         'return ', 'xs:', 'fn:', 'Q{', '(:', ':)', 'map', 'array', ' as ', ' of ']
ARG_POOL = ['()', '1', '-1', '0', '1.5', '1e0', 'xs:float(1)', '"a"', '""', '"1"', 'true()', 'xs:untypedAtomic("1")',
            'xs:untypedAtomic("x")', 'xs:date("2000-01-01")', 'xs:dateTime("2000-01-01T00:00:00Z")', 'xs:time("10:00:00")',
            'xs:dayTimeDuration("PT1H")', 'xs:yearMonthDuration("P1Y")', 'xs:duration("P1D")', 'xs:anyURI("u")', 'xs:QName("p:a")',
            'xs:hexBinary("0A")', 'xs:base64Binary("AA==")', 'xs:gYear("2000")', '(1, 2)', '("a", 1)', '/r', '/r/a', '/r/a/@n',
            '/r/a[1]/text()', '/', '//comment()', '//processing-instruction()', 'abs#1', 'function($x) { $x }', 'function($x, $y) { $x }',
            'map{"a": 1}', 'map{}', '[1, 2]', '[]', 'xs:double("NaN")', 'xs:double("INF")', '99999999999999999999', '"http://[bad"',
            '"[a-"', '"\\"', 'xs:NCName("n")', 'xs:language("en")', 'xs:integer("3")', 'xs:short(5)',
            # namespace-agnostic node operands (the lxml document has a default namespace)
            '/*', '.', '/*/*[2]', '/*/*[2]/@*', '//*:b',
            # an integer beyond the range of xs:double, a negative fraction
            '1' + '0' * 400, '-0.5']


def tokens_of(s):
    return [t for t in TOKEN_RE.findall(s)]


def mutate(r, s):
    toks = tokens_of(s)
    if not toks:
        return r.choice(SPLICES)
    op = r.randrange(12)
    i = r.randrange(len(toks))
    if op == 0:
        del toks[i]
    elif op == 1:
        toks.insert(i, r.choice(SPLICES))
    elif op == 2:
        toks.insert(i, ' ' + r.choice(KEYWORDS) + ' ')
    elif op == 3:
        j = r.randrange(len(toks))
        toks[i], toks[j] = toks[j], toks[i]
    elif op == 4:
        toks.insert(i, toks[i])
    elif op == 5:
        toks[i] = r.choice(KEYWORDS)
    elif op == 6:
        toks[i] = r.choice(SPLICES)
    elif op == 7:
        toks = toks[:i]
    elif op == 8:
        toks = toks[i:]
    elif op == 9:
        other = tokens_of(r.choice(SEEDS))
        j = r.randrange(len(other))
        toks = toks[:i] + other[j:]
    elif op == 10:
        toks[i] = r.choice(['1', '"s"', '1.5', '()', '(1)', '[1]', '.', '..', '*'])
    else:
        k = r.randrange(len(s) + 1)
        return s[:k] + r.choice(SPLICES) + s[k + r.randrange(2):]
    return ''.join(toks)


def g_random(r):
    return ''.join(r.choice(ALPHABET) for _ in range(r.randint(1, 18)))


_SIGS = {}


def signatures(ver):
    if ver not in _SIGS:
        parser = PARSERS[ver]()
        names = []
        for (qn, arity) in getattr(parser, 'function_signatures', {}):
            try:
                ns, local = qn.namespace, qn.local_name
            except AttributeError:
                continue
            pfx = {'http://www.w3.org/2005/xpath-functions': 'fn', 'http://www.w3.org/2005/xpath-functions/math': 'math',
                   'http://www.w3.org/2005/xpath-functions/map': 'map', 'http://www.w3.org/2005/xpath-functions/array': 'array',
                   'http://www.w3.org/2001/XMLSchema': 'xs'}.get(ns)
            if pfx and local not in ('trace', 'error', 'doc', 'collection', 'unparsed-text', 'unparsed-text-lines',
                                     'doc-available', 'unparsed-text-available', 'uri-collection', 'transform',
                                     'load-xquery-module', 'json-doc'):
                names.append(('%s:%s' % (pfx, local), arity))
        _SIGS[ver] = sorted(set(names))
    return _SIGS[ver]


FILLERS = ['1', '"a"', '/r/a']


def call_matrix(ver):
    """finite matrix of ill-typed calls: every signature x every argument position x every pool value, the other
    positions filled with one of three neutral fillers -> list of (name, arity, position, pool index, filler index)"""
    out = []
    for name, arity in signatures(ver):
        if arity == 0:
            out.append((name, 0, 0, 0, 0))
            continue
        for pos in range(arity):
            for pi in range(len(ARG_POOL)):
                for fi in range(len(FILLERS)):
                    out.append((name, arity, pos, pi, fi))
                    if arity == 1:
                        break
    return out


def render_call(entry):
    name, arity, pos, pi, fi = entry
    args = [FILLERS[fi]] * arity
    if arity:
        args[pos] = ARG_POOL[pi]
    return '%s(%s)' % (name, ', '.join(args))


def g_call(r, ver):
    m = call_matrix(ver)
    return render_call(r.choice(m)) if m else 'count(1)'


# ------------------------------------------------------------------ domain-specific call matrices
# The generic pool above only reaches the argument-type checks of a function.  Functions whose argument is a small
# language of its own (pictures, date formats, option maps) get well-formed and near-well-formed arguments here.
FN_VALUES = ['0', '1', '-1', '0.5', '-0.0e0', '12345.678', '1e100', '1e-100', '0.000001', '99999999999999999999',
             '123456789012345678901234567890.5', 'xs:double("INF")', 'xs:double("-INF")', 'xs:double("NaN")',
             'xs:float("1.5")', 'xs:float("INF")', '()', '1.5e0']
FN_PICTURES = ['0', '#', '#.00', '0.0', '0.0e0', '00.00e00', '#,##0.00', '#,###', '0%', '0\u2030', '0.0;(0.0)', ';', '',
               '0.0.0', '0e', 'e0', '#e#', '0.0e0%', '##0.0##e0', ',0', '0,', '0.,0', '000,000.000,000', 'abc0', '0abc',
               "'", '#0#', '1', '0.0e-0', '٠', '0;0;0']
FI_VALUES = ['0', '1', '-1', '12', '1234567', '99999999999999999999', '()', '3999', '4000', '-5', '1000000000']
FI_PICTURES = ['1', '01', '001', 'a', 'A', 'i', 'I', 'w', 'W', 'Ww', '1;o', 'w;o', '1;c', '#,##0', '1,000', '#', '', ';', 'Z',
               '١', '一', 'α', 'А', '①', '⑴', '⒈', '1;o(-er)', 'w;o(-en)', '#,#', '0,0,0', '1;', ';o', 'Ww;t', '12', '0a', '1;x']
FD_VALUES = ['xs:dateTime("2002-12-31T12:05:09.123Z")', 'xs:dateTime("-0045-01-01T00:00:00")', 'xs:date("2002-12-31+05:00")',
             'xs:time("23:59:59.999-08:00")', '()', 'xs:dateTime("9999-12-31T23:59:59")', 'xs:date("0001-01-01")']
FD_PICTURES = ['[Y]', '[Y0001]-[M01]-[D01]', '[D1o] [MNn], [Y]', '[h]:[m01] [PN]', '[H01]:[m01]:[s01].[f001]', '[z]', '[Z]', '[ZN]',
               '[FNn,*-3]', '[dwo]', '[W]', '[w]', '[E]', '[C]', '[YI]', '[Yi]', '[YWw]', '[MN,3-3]', '[D]/[M]/[Y,2]', '[[', ']]',
               '[', ']', '[Q]', '[Y', '[Y,]', '[Y,*]', '[Y,2-1]', '[Y,a-b]', '[f]', '[f,9-9]', '[s,*-0]', '[D01', '', '[ Y ]',
               '[Z01:01t]', '[z0]', '[ZZ]', '[H]:[m]:[s] [ZN,*-3]', '[Dwo]', '[MNn,*-0]', '[Y9,999,*]']
IETF = []
for tz in ['GMT', 'gmt', 'Gmt', 'UT', 'ut', 'UTC', 'EST', 'est', 'Est', 'EDT', 'edt', 'CST', 'cdt', 'MST', 'mdt', 'PST', 'pDt', '+0500',
           '-05:00', '+05:00 (EST)', '+0500 (est)', '(EST)', 'Z', 'z', 'XYZ', '', '+5', '-0000', '+2400', '+00:60', 'GMT+1']:
    IETF.append('Wed, 06 Jun 1994 07:29:35 %s' % tz)
    IETF.append('Wed Jun 06 11:54:45 %s 2013' % tz)
for d in ['Wed, 6 Jun 94 07:29:35 GMT', 'Sunday, 06-Nov-94 08:49:37 GMT', 'Wed, 6 Jun 94 07:29 GMT', '6 Jun 1994 07:29:35', 'Jun 06 11:54:45 2013',
          'wed, 06 jun 1994 07:29:35 GMT', 'Wed, 31 Feb 1994 07:29:35 GMT', 'Wed, 06 Jun 1994 24:00:00 GMT', 'Wed, 06 Jun 1994 25:00:00 GMT',
          'Wed, 06 Jun 1994 07:29:60 GMT', 'Wed, 06 Jun 1994 07:29:35.123456789 GMT', 'Wed, 06 Jun 19940 07:29:35 GMT', 'Wed, 00 Jun 1994 07:29:35 GMT',
          'Xyz, 06 Jun 1994 07:29:35 GMT', 'Wed, 06 Foo 1994 07:29:35 GMT', '', ' ', 'Wed,06 Jun 1994 07:29:35 GMT', 'Wed, 06 Jun 1994  07:29:35  GMT',
          'Wed, 06-Jun-1994 07:29:35 GMT', 'Wed, 06 Jun 0000 07:29:35 GMT', 'Wed, 06 Jun 9 07:29:35 GMT', '1994-06-06T07:29:35Z']:
    IETF.append(d)
MATH_VALUES = ['0', '-0.0e0', '1', '-1', '0.5', '2', '1e308', '1e-320', 'xs:double("INF")', 'xs:double("-INF")', 'xs:double("NaN")', '()',
               '99999999999999999999', '710', '-745.2', 'xs:float("3.4e38")']


def domain_matrix():
    """-> list of expression texts (XPath 3.0/3.1)"""
    out = []
    for v in FN_VALUES:
        for p in FN_PICTURES:
            out.append('format-number(%s, "%s")' % (v, p))
    for v in FI_VALUES:
        for p in FI_PICTURES:
            out.append('format-integer(%s, "%s")' % (v, p))
            if ';' not in p:
                out.append('format-integer(%s, "%s", "en")' % (v, p))
    for v in FD_VALUES:
        fn = 'format-date' if 'xs:date(' in v else ('format-time' if 'xs:time(' in v else 'format-dateTime')
        for p in FD_PICTURES:
            out.append('%s(%s, "%s")' % (fn, v, p))
            out.append('%s(%s, "%s", "en", (), ())' % (fn, v, p))
            out.append('%s(%s, "%s", "de", "AD", "us")' % (fn, v, p))
    for d in IETF:
        out.append('parse-ietf-date("%s")' % d)
    for f in ('exp', 'exp10', 'log', 'log10', 'sqrt', 'sin', 'cos', 'tan', 'asin', 'acos', 'atan'):
        for v in MATH_VALUES:
            out.append('math:%s(%s)' % (f, v))
    for a in MATH_VALUES:
        for b in MATH_VALUES:
            out.append('math:pow(%s, %s)' % (a, b))
            out.append('math:atan2(%s, %s)' % (a, b))
    for v in FN_VALUES:
        for p in ['-1', '0', '1', '2', '30', '400', '99999', '-99999', '()', '1.5', 'xs:double("NaN")']:
            out.append('round(%s, %s)' % (v, p))
            out.append('round-half-to-even(%s, %s)' % (v, p))
    return out


# ------------------------------------------------------------------ execution
_ROOT = None
_LROOT = None
LDOC = ('<!--pre--><r xmlns="urn:d" xmlns:p="urn:p"><a n="1">x</a><a n="2">y<b xmlns=""/>t</a><c>3</c>'
        '<p:d xml:lang="en">4.5</p:d><!--k--><?pi v?></r><?post x?>')


def contexts():
    global _ROOT
    if _ROOT is None:
        parser = ET.XMLParser(target=ET.TreeBuilder(insert_comments=True, insert_pis=True))
        parser.feed(DOC)
        _ROOT = parser.close()
    root = _ROOT
    global _LROOT
    if _LROOT is None:
        from lxml import etree as LE
        # lxml: a default namespace next to a prefixed one (nsmap has the key None), comments and PIs around the root
        _LROOT = LE.fromstring(LDOC.encode()).getroottree()
    lroot = _LROOT
    variables = {'i': 2, 's': 'abc', 'q': [1, 2, 3], 'x': 1, 'y': 'y'}
    return [
        ('lxml-document-root', lambda: XPathContext(lroot, namespaces=NS, variables=dict(variables))),
        ('lxml-inner-item', lambda: XPathContext(lroot, namespaces=NS, item=lroot.getroot()[1], variables=dict(variables))),
        ('item-only', lambda: XPathContext(item=1, variables=dict(variables))),
        ('element-root', lambda: XPathContext(root, namespaces=NS, variables=dict(variables))),
        ('document-root', lambda: XPathContext(ET.ElementTree(root), namespaces=NS, variables=dict(variables))),
        ('inner-item', lambda: XPathContext(root, namespaces=NS, item=root[1], variables=dict(variables), timezone='+02:00')),
    ]


def parser_state(p):
    st = {}
    st['cursor'] = (p.token is p._start_token, p.next_token is p._start_token, p.next_match is None,
                    next(p.tokens, None) is None)
    d = {}
    # effective attribute values: an instance attribute equal to the class default is not a state change
    names = set(vars(p)) | {'parse_arguments', 'compatibility_mode', 'default_namespace', 'function_namespace',
                            'base_uri', 'default_collation', 'xsd_version', 'strict', 'defuse_xml'}
    for k in sorted(names):
        v = getattr(p, k, None)
        if isinstance(v, dict):
            d[k] = sorted((str(a), repr(b)[:60]) for a, b in v.items())
        elif isinstance(v, (str, int, bool, type(None), float, tuple)):
            d[k] = v
        else:
            d[k] = type(v).__name__
    st['dict'] = d
    return st


def classify_exc(phase, res):
    # the phase (static evaluation inside parse(), evaluate, select) is not part of the mechanism
    if res[1] == 'RecursionError':
        # the frame in which the stack is finally exhausted depends on the depth of the caller: keep the module only
        return 'C03/RecursionError@%s' % res[2].rsplit('.', 1)[0]
    return 'C03/%s@%s' % (res[1], res[2])


def check_source(case, out):
    src = case['src']
    vers = case.get('vers') or VERSIONS
    for ver in vers:
        parser = PARSERS[ver](namespaces=NS)
        base = parser_state(parser)
        res = call(parser.parse, src)
        out.dim('parse_outcome', '%s/%s' % (ver, res[0]))
        after = parser_state(parser)
        if after != base:
            diff = [k for k in after['dict'] if after['dict'].get(k) != base['dict'].get(k)]
            what = 'cursor' if after['cursor'] != base['cursor'] else ','.join(diff)
            out.fail('C03/parser-state-not-reset/%s/%s' % (what, res[0]),
                     '%r [%s]: after parse() (%s) the instance differs from its post-__init__ state: %s' % (
                         src, ver, res[0], {k: (base['dict'].get(k), after['dict'].get(k)) for k in diff} or after['cursor']))
        out.dim('parser_state_checks', ver)
        if res[0] == 'exc':
            out.fail(classify_exc('parse', res), '%r [%s]' % (src, ver))
            continue
        if res[0] == 'err':
            if not res[1]:
                out.fail('C03/parse/error-without-code/%s' % res[2], '%r [%s]' % (src, ver))
            continue
        tok = res[1]
        for cname, mk in contexts():
            r2 = call(lambda: tok.evaluate(mk()))
            out.dim('evaluate_outcome', r2[0])
            if r2[0] == 'exc':
                out.fail(classify_exc('evaluate', r2), '%r [%s, context %s]' % (src, ver, cname))
                break
            r3 = call(lambda: list(tok.select(mk())))
            if r3[0] == 'exc':
                out.fail(classify_exc('select', r3), '%r [%s, context %s]' % (src, ver, cname))
                break
        r4 = call(elementpath.select, contexts.__globals__['_ROOT'], src, namespaces=NS, parser=PARSERS[ver])
        if r4[0] == 'exc':
            out.fail(classify_exc('select-api', r4), '%r [%s]' % (src, ver))


def answer(parser, src):
    res = call(parser.parse, src)
    if res[0] == 'ok':
        return ('ok', res[1].tree, res[1].source)
    return res[:3]


def check_history(case, out):
    ver = case['ver']
    long_lived = PARSERS[ver](namespaces=NS)
    for idx, src in enumerate(case['sources']):
        got = answer(long_lived, src)
        want = answer(PARSERS[ver](namespaces=NS), src)
        out.dim('history_parses', ver)
        if got != want:
            prev_fail = next((s for s in reversed(case['sources'][:idx])
                              if answer(PARSERS[ver](namespaces=NS), s)[0] != 'ok'), None)
            sym = (tokens_of(prev_fail.strip()) or ['?'])[-1] if prev_fail else 'none'
            out.fail('C03/history/answer-differs-from-fresh-parser/%s' % ('after-failed-parse' if prev_fail else 'no-failure-before'),
                     '%s parser, step %d %r: long-lived %r, fresh %r (last failing source before: %r)' % (
                         ver, idx, src, str(got)[:120], str(want)[:120], prev_fail))
            return


def check_case(kind, case):
    out = Outcome()
    if kind == 'source':
        check_source(case, out)
        out.nontrivial = case.get('origin') != 'seed'
        out.obs = '%r (%s)' % (case['src'][:80], case.get('origin'))
        out.dim('origin', case.get('origin'))
    elif kind == 'history':
        check_history(case, out)
        out.obs = '%s parser, %d sources' % (case['ver'], len(case['sources']))
    return out


BINOPS = ['+', '-', '*', 'div', 'idiv', 'mod', '=', '!=', '<', '<=', '>', '>=', 'eq', 'ne', 'lt', 'le', 'gt', 'ge', 'and', 'or',
          'to', '|', 'union', 'intersect', 'except', '||', 'is', '<<', '>>', ',', '!', '=>']
OPERAND_POOL = ARG_POOL + ['0.0', '5.0', '-2.5', '0e0', '-0e0', 'xs:decimal("0")', 'xs:float("0")', '$i', '$q', '$s', '()', '.',
                           '1 to 3', '(1, "a")', 'xs:integer("0")']


def g_binop(r):
    op = r.choice(BINOPS)
    a, b = r.choice(OPERAND_POOL), r.choice(OPERAND_POOL)
    if op == '=>':
        return '%s => %s(%s)' % (a, r.choice(['string', 'count', 'abs', 'upper-case', 'sum', 'concat']), b if r.random() < 0.3 else '')
    x = r.random()
    if x < 0.15:
        return '%s %s %s %s %s' % (a, op, b, r.choice(BINOPS[:20]), r.choice(OPERAND_POOL))
    if x < 0.25:
        return '-%s %s +%s' % (a, op, b)
    return '%s %s %s' % (a, op, b)


def g_source(r):
    if r.random() < 0.18:
        return g_binop(r), 'ill-typed-operator'
    x = r.random()
    if x < 0.08:
        return r.choice(SEEDS), 'seed'
    if x < 0.62:
        s = r.choice(SEEDS)
        for _ in range(r.choice([1, 1, 1, 2, 3])):
            s = mutate(r, s)
        return s[:200], 'mutation'
    if x < 0.72:
        return g_random(r), 'random'
    return g_call(r, r.choice(['2.0', '3.0', '3.1'])), 'ill-typed-call'


def run(h):
    """The fuzz corpus is FIXED per tier and shard (it does not depend on VERIF_SEED): escapes of non-ElementPathError
    exceptions are so numerous in the unchanged tree that an open-ended corpus never saturates, and every escape site
    reached must be listable as a known finding.  VERIF_SEED only drives the composition of the parse histories, which
    draw their sources from the fixed corpus."""
    import random
    from ..core import derive_seed
    fr = random.Random(derive_seed('C03-fixed-corpus', h.tier, h.shard, h.nshards))
    corpus = []
    if h.shard == 0:
        for s in SEEDS:
            corpus.append((s, 'seed'))
    if h.shard == 0:
        # every arithmetic operator over a small numeric boundary pool (zeros of every type, NaN, INF, huge)
        nums = ['0', '1', '-3', '0.0', '5.0', '-2.5', '0e0', '-0e0', '1.5e0', 'xs:float("0")', 'xs:float("2.5")', 'xs:double("NaN")',
                'xs:double("INF")', 'xs:decimal("0")', '99999999999999999999', 'xs:untypedAtomic("0")', 'xs:untypedAtomic("x")', '()']
        for op in ('+', '-', '*', 'div', 'idiv', 'mod'):
            for a in nums:
                for b in nums:
                    corpus.append(('%s %s %s' % (a, op, b), 'ill-typed-operator'))
    if h.shard == 0:
        # binders with several clauses, and every variant with ONE '$' dropped (a clause without '$' must be a
        # syntax error, not something that parses and then escapes at evaluation)
        multi = ['let $x := 1, $y := 2 return $x + $y', 'let $x := 1, $y := $x + 1, $z := 3 return ($x, $y, $z)',
                 'for $a in (1, 2), $b in (3, 4) return $a * $b', 'some $a in (1, 2), $b in (2, 3) satisfies $a = $b',
                 'every $a in (1, 2), $b in (2, 3) satisfies $a lt $b', 'for $a at $i in (1, 2) return $i',
                 'function($a, $b) { $a + $b }(1, 2)', 'let $f := function($a as xs:integer, $b) as item()* { $a } return $f(1, 2)']
        for src in multi + [x for x in SEEDS if x.count('$') >= 2][:60]:
            corpus.append((src, 'seed'))
            for i, ch in enumerate(src):
                if ch == '$':
                    corpus.append((src[:i] + src[i + 1:], 'mutation'))
    if h.shard == 0 and h.tier != 'thorough':
        # (the thorough tier runs the whole call matrix) every one- and two-argument function over the
        # namespace-agnostic node operands, which select nodes in both the ElementTree and the lxml document
        node_ops = [i for i, a in enumerate(ARG_POOL) if a in ('/*', '.', '/*/*[2]', '/*/*[2]/@*', '//*:b', '-0.5') or len(a) > 300]
        for name, arity in signatures('3.1'):
            if arity in (1, 2):
                for pi in node_ops:
                    corpus.append((render_call((name, arity, 0, pi, 0)), 'node-operand-call'))
    dm = domain_matrix()
    for e in (dm[h.shard::h.nshards] if h.nshards > 1 else dm):
        corpus.append((e, 'domain-call'))
    for _ in range(h.n(11000)):
        corpus.append(g_source(fr))
    if h.shard == 0:
        # extremes of size (appended after the random part, which they must not shift)
        big = '1' + '0' * 30
        for s in ['1' + '0' * 4400, 'round-half-to-even(%s, -%s)' % (big, big), 'round(%s, -%s)' % (big, big),
                  'round-half-to-even(1.5, %s)' % big, 'round(2.5, -%s)' % big, 'round-half-to-even(2.5e0, -%s)' % big,
                  'round(2.5e0, %s)' % big, 'substring("abc", -%s, %s)' % (big, big), 'subsequence((1, 2, 3), -%s, %s)' % (big, big),
                  'string-length(string-join(for $i in 1 to 20000 return "ab", ""))', 'count(1 to 200000)',
                  'format-integer(%s, "w")' % big, 'format-number(%s, "#,##0.00")' % big, 'xs:integer(%s) idiv 7' % big,
                  'xs:decimal("1e-30")' , '%s * %s * %s' % (big, big, big), 'math:pow(%s, 3)' % big, 'abs(-%s)' % big]:
            corpus.append((s, 'extreme'))
    if h.tier == 'thorough':
        # the whole ill-typed call matrix, split over the shards
        for ver in ('2.0', '3.0', '3.1'):
            m = call_matrix(ver)
            for e in m[h.shard::h.nshards]:
                corpus.append((render_call(e), 'ill-typed-call'))
    for s, origin in corpus:
        h.case('source', {'src': s, 'origin': origin})
    r = h.rng
    for _ in range(h.n(80)):
        ver = r.choice(VERSIONS)
        sources = [r.choice(corpus)[0] for _ in range(r.randint(30, 80))]
        h.case('history', {'ver': ver, 'sources': sources}, cpu=60)


def shrink(kind, case):
    if kind == 'source':
        vers = case.get('vers') or VERSIONS
        if len(vers) > 1:
            for v in vers:
                yield dict(case, vers=[v])
        toks = tokens_of(case['src'])
        for i in range(len(toks)):
            c = ''.join(toks[:i] + toks[i + 1:])
            if c:
                yield dict(case, src=c)
    elif kind == 'history':
        src = case['sources']
        n = len(src)
        if n > 2:
            yield dict(case, sources=src[n // 2:])
            yield dict(case, sources=src[:n // 2 + 1])
        for i in range(len(src)):
            if len(src) > 1:
                yield dict(case, sources=src[:i] + src[i + 1:])


def floors(v):
    reasons = []
    if v.got('parser_state_checks') < 8000:
        reasons.append('fewer than 8000 parser-state checks')
    if v.got('evaluate_outcome') < 3000:
        reasons.append('fewer than 3000 evaluations classified')
    if v.got('history_parses') < 1500:
        reasons.append('fewer than 1500 history parses compared with a fresh parser')
    for o in ('mutation', 'random', 'ill-typed-call', 'ill-typed-operator', 'domain-call'):
        if v.got('origin', o) < 100:
            reasons.append('fewer than 100 %s sources' % o)
    return reasons
