"""C19 - evaluation preserves process-global state: locale, locks, decimal context, environment, entities;
independent Selectors evaluated concurrently give the sequential results.

Level: fault_enumeration.  The faults are the sets of installed locales (simulated at the
`locale.setlocale` boundary of elementpath.collations, because the sandbox only has C/POSIX) crossed
with ALL histories of up to three collation-using evaluations; quiescent-point monitors run after every
evaluation.  Threads are exploration (sampled schedules)."""
import decimal
import itertools
import json
import locale as real_locale
import os
import subprocess
import sys
import threading

from ..core import Outcome, VERIF
from ..engine import call, PARSERS, SelfDeadlock
from .. import bootstrap

import elementpath
from elementpath import ElementPathError, XPathContext, Selector
from elementpath import collations as coll
import xml.etree.ElementTree as ET
import lxml.etree as LE

PROPERTY = 'C19'
LEVEL = 'fault_enumeration'
RULE = ('fault space: 5 installed-locale configurations (none beyond C/POSIX (= the real sandbox), {en_US.UTF-8}, '
        '{de_DE.UTF-8}, {en_US.UTF-8, it_IT.UTF-8}, real un-shimmed process) x ALL histories of length <= 3 over 9 '
        'collation call kinds (codepoint, html-ascii, UCA default, UCA lang available/unavailable x fallback yes/no, '
        'bare locale name available/unavailable, malformed URI), each through a collation-taking function; plus '
        'environment, entity-payload, ambient-state and thread sub-checks. A history is non-trivial when it contains at '
        'least one locale-based collation kind; distinct by (configuration, history).')
ASSUMPTIONS = [
    'installed locales are simulated by replacing the `locale` name inside elementpath.collations / xpath2_parser with a shim '
    'that keeps a virtual LC_COLLATE; the real process (C/POSIX only) is one of the configurations',
    'the collate lock is replaced by a MonitoredLock that raises instead of blocking when its owner re-acquires it',
    'thread schedules are sampled (switch interval 1e-6 s, cold caches per child process), not enumerated',
    'what a collation call returns or which ElementPathError code it raises is not decided here, only that the '
    'process-global state is preserved, no other exception type escapes and later calls complete with the same answers',
]
EXHAUSTIVE_SUBCHECK = True

UCA = 'http://www.w3.org/2013/collation/UCA'
CODEPOINT = 'http://www.w3.org/2005/xpath-functions/collation/codepoint'
HTML = 'http://www.w3.org/2005/xpath-functions/collation/html-ascii-case-insensitive'

CONFIGS = {
    'none': [],
    'en_US': ['en_US.UTF-8'],
    'de_DE': ['de_DE.UTF-8'],
    'en_US+it_IT': ['en_US.UTF-8', 'it_IT.UTF-8'],
    'real': None,
}
KINDS = ['codepoint', 'html-ascii', 'uca-default', 'uca-lang-available', 'uca-lang-unavailable-fallback-yes',
         'uca-lang-unavailable-fallback-no', 'locale-name-available', 'locale-name-unavailable', 'malformed',
         # names that the real setlocale() refuses with ValueError / UnicodeEncodeError instead of locale.Error
         'locale-name-nul', 'uca-lang-surrogate']
FUNCS = ['compare', 'contains', 'starts-with', 'ends-with', 'substring-before', 'substring-after',
         'distinct-values', 'deep-equal', 'max', 'min', 'index-of', 'sort', 'collation-key',
         # operands that make the function fail while the collation is active (error path inside the manager)
         'max-mixed', 'min-mixed', 'sort-mixed', 'distinct-values-mixed', 'deep-equal-mixed',
         'nested-index-of', 'nested-max', 'nested-sort', 'nested-deep-equal', 'nested-predicate', 'nested-callback',
         'nested-distinct-of-sort']


# ------------------------------------------------------------------ instrumentation
class MonitoredLock:
    """drop-in for threading.Lock that records its owner and raises SelfDeadlock instead of blocking forever
    when the owning thread acquires it again (single-threaded workloads)"""

    def __init__(self, reentrant=False):
        self._lock = threading.Lock()
        self.owner = None
        self.acquisitions = 0
        self.reentrant = reentrant      # what the replaced lock is: a re-entrant lock lets its owner in again
        self.depth = 0
        self.nested = 0

    def acquire(self, blocking=True, timeout=-1):
        me = threading.get_ident()
        if self.owner == me:
            if not self.reentrant:
                raise SelfDeadlock()
            self.depth += 1
            self.nested += 1
            self.acquisitions += 1
            return True
        ok = self._lock.acquire(blocking, timeout)
        if ok:
            self.owner = me
            self.depth = 1
            self.acquisitions += 1
        return ok

    def release(self):
        if self.reentrant and self.depth > 1:
            self.depth -= 1
            return
        self.owner = None
        self.depth = 0
        self._lock.release()

    def locked(self):
        return self._lock.locked()

    def force_release(self):
        if self._lock.locked():
            self.owner = None
            self.depth = 0
            self._lock.release()

    __enter__ = acquire

    def __exit__(self, *a):
        self.release()


class FakeLocale:
    """stands in for the `locale` module inside elementpath.collations: a configurable set of installed locales
    and a virtual current value per category; everything else is delegated to the real module"""

    def __init__(self, installed):
        self.installed = {'C', 'POSIX', 'C.UTF-8', 'C.utf8'} | set(installed)
        self.current = {}
        self.calls = 0

    def __getattr__(self, name):
        return getattr(real_locale, name)

    @staticmethod
    def _name(loc):
        if isinstance(loc, (tuple, list)):
            lang, enc = loc
            if lang is None:
                return 'C'
            return '%s.%s' % (lang, enc) if enc else str(lang)
        return loc

    def setlocale(self, category, loc=None):
        self.calls += 1
        if loc is None:
            return self.current.get(category, 'C')
        name = self._name(loc)
        if name == '':
            name = 'C'
        if isinstance(name, str) and '\x00' in name:
            raise ValueError('embedded null character')        # what CPython's setlocale() does
        if isinstance(name, str):
            name.encode('utf-8')                               # UnicodeEncodeError for a lone surrogate, as CPython
        if not isinstance(name, str) or name not in self.installed:
            raise real_locale.Error('unsupported locale setting')
        self.current[category] = name
        return name

    def getlocale(self, category=real_locale.LC_CTYPE):
        cur = self.current.get(category, 'C')
        if cur in ('C', 'POSIX'):
            return (None, None)
        lang, _, enc = cur.partition('.')
        return (lang, enc or None)

    @staticmethod
    def strcoll(a, b):
        a, b = a.casefold(), b.casefold()
        return 0 if a == b else (-1 if a < b else 1)

    @staticmethod
    def strxfrm(s):
        return s.casefold()


class Instrumented:
    """installs the shim + monitored lock, restores the originals on exit"""

    def __init__(self, installed):
        self.installed = installed

    def __enter__(self):
        import elementpath.xpath2.xpath2_parser as xp2
        import elementpath.xpath31._xpath31_functions as f31
        self.saved = (coll.locale, coll._locale_collate_lock, xp2.locale, f31.locale)
        self.mods = (xp2, f31)
        self.lock = MonitoredLock(reentrant=not isinstance(coll._locale_collate_lock, type(threading.Lock())))
        coll._locale_collate_lock = self.lock
        if self.installed is not None:
            self.fake = FakeLocale(self.installed)
            coll.locale = self.fake
            xp2.locale = self.fake
            f31.locale = self.fake
        else:
            self.fake = None
        return self

    def __exit__(self, *a):
        xp2, f31 = self.mods
        coll.locale, coll._locale_collate_lock, xp2.locale, f31.locale = self.saved
        return False

    def lc_collate(self):
        if self.fake is not None:
            return self.fake.setlocale(real_locale.LC_COLLATE, None)
        return real_locale.setlocale(real_locale.LC_COLLATE, None)


def dec_snapshot():
    c = decimal.getcontext()
    return (c.prec, c.rounding, c.Emin, c.Emax, c.capitals, c.clamp,
            tuple(sorted(k.__name__ for k, v in c.traps.items() if v)))


AUDIT = {'on': False, 'events': []}


def _audit(event, args):
    if AUDIT['on'] and event in ('os.putenv', 'os.unsetenv', 'open', 'socket.connect', 'urllib.Request',
                                 'socket.getaddrinfo'):
        try:
            AUDIT['events'].append((event, str(args[0])[:200] if args else ''))
        except Exception:
            AUDIT['events'].append((event, '?'))


_audit_installed = False


def ensure_audit():
    global _audit_installed
    if not _audit_installed:
        sys.addaudithook(_audit)
        _audit_installed = True


# ------------------------------------------------------------------ collation histories
def collation_uri(kind, installed):
    inst = sorted(installed or [])
    avail = inst[0] if inst else None
    if kind == 'codepoint':
        return CODEPOINT
    if kind == 'html-ascii':
        return HTML
    if kind == 'uca-default':
        return UCA
    if kind == 'uca-lang-available':
        # the language of an installed locale (or of the fallback-less real process: none)
        return '%s?lang=%s' % (UCA, (avail or 'C').split('.')[0])
    if kind == 'uca-lang-unavailable-fallback-yes':
        return '%s?lang=xx_XX;fallback=yes' % UCA
    if kind == 'uca-lang-unavailable-fallback-no':
        return '%s?lang=xx_XX;fallback=no' % UCA
    if kind == 'locale-name-available':
        return avail or 'C'
    if kind == 'locale-name-unavailable':
        return 'xx_XX.UTF-8'
    if kind == 'malformed':
        return 'http://[bad collation uri'
    if kind == 'locale-name-nul':
        return 'en_US\x00.UTF-8'
    if kind == 'uca-lang-surrogate':
        return '%s?lang=de\ud800;fallback=no' % UCA
    raise ValueError(kind)


def collation_expr(fn):
    if fn == 'compare':
        return "compare('a', 'B', $c)", '2.0'
    if fn in ('contains', 'starts-with', 'ends-with'):
        return "%s('abc', 'B', $c)" % fn, '2.0'
    if fn in ('substring-before', 'substring-after'):
        return "%s('abc', 'B', $c)" % fn, '2.0'
    if fn == 'distinct-values':
        return "distinct-values(('a', 'A', 'b'), $c)", '2.0'
    if fn == 'deep-equal':
        return "deep-equal(('a', 'b'), ('A', 'b'), $c)", '2.0'
    if fn in ('max', 'min'):
        return "%s(('a', 'B', 'c'), $c)" % fn, '2.0'
    if fn in ('max-mixed', 'min-mixed'):
        return "%s(('a', 1, xs:date('2000-01-01')), $c)" % fn[:3], '2.0'
    if fn == 'sort-mixed':
        return "sort(('b', 1, xs:date('2000-01-01'), true()), $c)", '3.1'
    if fn == 'distinct-values-mixed':
        return "distinct-values(('a', 1, xs:date('2000-01-01'), xs:QName('a'), 'A'), $c)", '2.0'
    if fn == 'deep-equal-mixed':
        return "deep-equal(('a', 1), ('A', xs:duration('P1D')), $c)", '2.0'
    if fn == 'index-of':
        return "index-of(('a', 'B', 'a'), 'A', $c)", '2.0'
    if fn == 'sort':
        return "sort(('b', 'A', 'c'), $c)", '3.1'
    if fn == 'collation-key':
        return "string(collation-key('Ab', $c))", '3.1'
    # a collation function whose operand is produced by another collation function (the operand may be evaluated
    # lazily, while the outer function already holds the collation)
    if fn == 'nested-index-of':
        return "index-of(distinct-values(('a', 'A', 'b'), $c), 'a', $c)", '2.0'
    if fn == 'nested-max':
        return "max(distinct-values(('a', 'B', 'c'), $c), $c)", '2.0'
    if fn == 'nested-sort':
        return "sort(distinct-values(('b', 'A', 'a'), $c), $c)", '3.1'
    if fn == 'nested-deep-equal':
        return "deep-equal(distinct-values(('a', 'b'), $c), index-of(('a', 'b'), 'a', $c), $c)", '2.0'
    if fn == 'nested-predicate':
        return "('a', 'b', 'B')[compare(., 'B', $c) = 0][contains(., 'b', $c)]", '2.0'
    if fn == 'nested-callback':
        return "for-each(distinct-values(('a', 'A', 'b'), $c), function($x) { compare($x, 'b', $c) })", '3.0'
    if fn == 'nested-distinct-of-sort':
        return "distinct-values(sort(('b', 'A', 'a'), $c), $c)", '3.1'
    raise ValueError(fn)


def run_history(case, out):
    installed = CONFIGS[case['config']]
    base_dec = dec_snapshot()
    base_env = dict(os.environ)
    with Instrumented(installed) as ins:
        base_lc = ins.lc_collate()
        first_answers = {}
        for idx, (kind, fn) in enumerate(case['history']):
            uri = collation_uri(kind, installed)
            expr, ver = collation_expr(fn)
            out.dim('call_kind', kind)
            out.dim('function', fn)

            def run():
                return elementpath.select(None, expr, parser=PARSERS[ver], item=1, variables={'c': uri})
            held_before = ins.lock.locked()
            try:
                res = call(run)
            except SelfDeadlock:
                if not held_before:
                    # the lock was free when this evaluation began: it took it twice itself (a real deadlock)
                    out.fail('C19/lock/re-acquired-within-one-evaluation/%s' % ('nested' if fn.startswith('nested') else fn),
                             'step %d: %s with $c=%r (config %s) acquires the collate lock again while holding it: '
                             'with the real lock this evaluation never returns' % (idx, expr, uri, case['config']))
                    ins.lock.force_release()
                    if ins.fake is not None:
                        ins.fake.current.pop(real_locale.LC_COLLATE, None)
                    continue
                prev = case['history'][idx - 1][0] if idx else 'n/a'
                out.fail('C19/lock/held-by-earlier-evaluation/after-%s' % lock_cause(case['history'][:idx]),
                         'step %d (%s via %s) found the collate lock still held by this thread; history %s, config %s'
                         % (idx, kind, fn, case['history'], case['config']))
                ins.lock.force_release()
                if ins.fake is not None:
                    ins.fake.current.pop(real_locale.LC_COLLATE, None)
                continue
            out.dim('outcome', res[0] if res[0] != 'err' else 'err:' + str(res[1]))
            if res[0] == 'exc':
                out.fail('C19/exception/%s@%s/%s' % (res[1], res[2], kind),
                         '%s with $c=%r (config %s) raised %s' % (expr, uri, case['config'], res[1]))
            # quiescent-point monitors
            lc = ins.lc_collate()
            if lc != base_lc:
                out.fail('C19/locale/LC_COLLATE-not-restored/%s/%s' % (kind, res[0]),
                         'after %s with $c=%r (config %s): LC_COLLATE is %r, was %r' % (expr, uri, case['config'], lc, base_lc))
                if ins.fake is not None:
                    ins.fake.current[real_locale.LC_COLLATE] = base_lc
                else:
                    real_locale.setlocale(real_locale.LC_COLLATE, base_lc)
            if ins.lock.locked():
                out.fail('C19/lock/held-after-evaluation/%s/%s' % (kind, res[0] if res[0] != 'err' else 'err'),
                         'after %s with $c=%r (config %s, outcome %r) the collate lock is still held'
                         % (expr, uri, case['config'], res[:2]))
                ins.lock.force_release()
            if dec_snapshot() != base_dec:
                out.fail('C19/decimal-context-changed/collation', expr)
            if dict(os.environ) != base_env:
                out.fail('C19/environ-changed/collation', expr)
            out.dim('monitor_checks', 'collation')
            # later evaluations give the same answers
            sig = (kind, fn)
            desc = res[:2] if res[0] != 'ok' else ('ok', repr(res[1]))
            if sig in first_answers and first_answers[sig] != desc:
                out.fail('C19/answer-changed-by-history/%s' % kind,
                         '%s with $c=%r: first %r, later %r (history %s)' % (expr, uri, first_answers[sig], desc, case['history']))
            first_answers.setdefault(sig, desc)


def lock_cause(prefix):
    """the last locale-based kind before the deadlock (the call that can have leaked the lock)"""
    for kind, _ in reversed(prefix):
        if kind not in ('codepoint', 'html-ascii', 'malformed'):
            return kind
    return 'unknown'


# ------------------------------------------------------------------ environment
ENV_FORMS = [
    ('available/reference', 'available-environment-variables#0()'),
    ('available/lookup', "function-lookup(xs:QName('fn:available-environment-variables'), 0)()"),
    ('available/let-reference', 'let $f := available-environment-variables#0 return $f()'),
    ('available/apply', 'apply(available-environment-variables#0, [])'),
    ('available/for-each', 'for-each(1, function($i) { available-environment-variables() })'),
    ('available/inline', 'function() { available-environment-variables() }()'),
    ('variable/reference', 'environment-variable#1($n)'),
    ('variable/lookup', "function-lookup(xs:QName('fn:environment-variable'), 1)($n)"),
    ('variable/let-reference', 'let $f := environment-variable#1 return $f($n)'),
    ('variable/partial', 'environment-variable(?)($n)'),
    ('variable/apply', 'apply(environment-variable#1, [$n])'),
    ('variable/arrow', '$n => environment-variable()'),
    ('variable/for-each', 'for-each($n, environment-variable#1)'),
    ('variable/map-operator', '$n ! environment-variable(.)'),
    ('variable/inline', 'function($v) { environment-variable($v) }($n)'),
]


def run_env(case, out):
    canary_name, canary_val = 'RV_C19_CANARY', 'canary-%s' % case['token']
    os.environ[canary_name] = canary_val
    base_env = dict(os.environ)
    try:
        root = ET.XML('<a/>')
        names = list(os.environ)[:40] + [canary_name]
        for ver in ('3.0', '3.1'):
            res = call(elementpath.select, root, 'available-environment-variables()', parser=PARSERS[ver])
            out.dim('env_probe', 'available')
            if res[0] != 'ok' or res[1] != []:
                out.fail('C19/environment/visible-by-default/available-environment-variables', repr(res)[:200])
            for nm in names:
                res = call(elementpath.select, root, 'environment-variable($n)', parser=PARSERS[ver], variables={'n': nm})
                out.dim('env_probe', 'variable')
                if res[0] != 'ok' or res[1] != []:
                    out.fail('C19/environment/visible-by-default/environment-variable', '%s -> %r' % (nm, res))
                    break
            # every way of calling the two functions (function items carry a context of their own)
            for form, expr in ENV_FORMS:
                if ver == '3.0' and ('=>' in expr or 'apply(' in expr):
                    continue
                res = call(elementpath.select, root, expr, parser=PARSERS[ver], variables={'n': canary_name})
                out.dim('env_call_form', form)
                if res[0] == 'ok' and res[1] not in ([], None):
                    out.fail('C19/environment/visible-by-default/%s' % form, '%s -> %r' % (expr, res[1])[:200])
                elif res[0] != 'ok':
                    out.fail('C19/environment/call-form-fails/%s' % form, '%s -> %r' % (expr, res)[:200])

                def form_allowed():
                    tok = PARSERS[ver]().parse(expr)
                    return tok.evaluate(XPathContext(root, variables={'n': canary_name}, allow_environment=True))
                res = call(form_allowed)
                if res[0] == 'ok' and canary_val in repr(res[1]) or canary_name in repr(res[1:2]):
                    out.dim('env_call_form_allowed_visible', form)
            # the monitor is reached: with allow_environment the value is visible
            def allowed():
                tok = PARSERS[ver]().parse('environment-variable($n)')
                return tok.evaluate(XPathContext(root, variables={'n': canary_name}, allow_environment=True))
            res = call(allowed)
            if res[0] != 'ok' or res[1] not in (canary_val, [canary_val]):
                out.fail('C19/environment/allow_environment-does-not-expose', repr(res))
            else:
                out.dim('env_probe', 'allowed-visible')
            # no other expression result contains the canary
            for expr in case['exprs']:
                res = call(elementpath.select, root, expr, parser=PARSERS[ver])
                if res[0] == 'ok' and canary_val in repr(res[1]):
                    out.fail('C19/environment/canary-in-result', expr)
        if dict(os.environ) != base_env:
            out.fail('C19/environ-changed/env-functions', 'os.environ differs after the environment functions')
    finally:
        os.environ.pop(canary_name, None)


# ------------------------------------------------------------------ locale environment variables
LOCALE_ENV_CHILD = r'''
import sys, json, locale
sys.path.insert(0, %(repo)r)
lc0 = locale.setlocale(locale.LC_COLLATE)
import xml.etree.ElementTree as ET
import elementpath
from elementpath import XPath2Parser
from elementpath.xpath31 import XPath31Parser
root = ET.XML('<a>b</a>')
out = {'lc_at_start': lc0, 'results': {}}
for name, P in (('2.0', XPath2Parser), ('3.1', XPath31Parser)):
    for e in ("default-collation()", "compare('a', 'B')", "compare('a', 'B') = compare('a', 'B', default-collation())",
              "deep-equal('a', 'A')", "max(('a', 'B'))", "distinct-values(('a', 'A'))", "index-of(('a', 'A'), 'a')"):
        try:
            out['results'][name + ' ' + e] = repr(elementpath.select(root, e, parser=P))
        except Exception as x:
            out['results'][name + ' ' + e] = 'ERR:' + type(x).__name__ + ':' + str(getattr(x, 'code', ''))
out['lc_at_end'] = locale.setlocale(locale.LC_COLLATE)
print(json.dumps(out))
'''

LOCALE_ENVS = [{}, {'LC_ALL': 'C.UTF-8'}, {'LC_COLLATE': 'C.UTF-8'}, {'LANG': 'C.UTF-8'}, {'LC_ALL': 'C'},
               {'LANG': 'en_US.UTF-8'}, {'LC_ALL': 'xx_YY.UTF-8'}, {'LANG': 'C.UTF-8', 'LC_COLLATE': 'POSIX'}]


def run_locale_env(case, out):
    """with default settings no LC_* / LANG variable is observable: results and LC_COLLATE equal the run without them"""
    base = None
    for envset in LOCALE_ENVS:
        env = {k: v for k, v in os.environ.items() if k not in ('LC_ALL', 'LC_COLLATE', 'LANG', 'LANGUAGE', 'LC_CTYPE')}
        env.update(envset)
        env['PYTHONHASHSEED'] = '0'
        try:
            p = subprocess.run([sys.executable, '-c', LOCALE_ENV_CHILD % {'repo': bootstrap.REPO}],
                               capture_output=True, text=True, timeout=120, env=env)
        except subprocess.TimeoutExpired:
            out.fail('C19/locale-env/child-timeout', str(envset))
            continue
        if p.returncode != 0 or not p.stdout.strip():
            out.fail('C19/locale-env/child-crashed', '%s: %s' % (envset, p.stderr[-300:]))
            continue
        data = json.loads(p.stdout.strip().splitlines()[-1])
        out.dim('locale_env_children', 'ok')
        if data['lc_at_end'] != data['lc_at_start']:
            out.fail('C19/locale-env/LC_COLLATE-changed-by-import-or-evaluation',
                     '%s: LC_COLLATE %r at start, %r at end' % (envset, data['lc_at_start'], data['lc_at_end']))
        # the default collation is documented to follow the PROCESS locale in force when the parser is built (the
        # interpreter itself may set it from LC_COLLATE at start-up): children are compared with the first child
        # that started under the same process locale; beyond that, no variable may be observable
        if base is None:
            base = {}
        ref = base.setdefault(data['lc_at_start'], (dict(envset), data['results']))
        if ref[1] is data['results']:
            continue
        for k, v in data['results'].items():
            out.dim('locale_env_comparisons', 'n')
            if ref[1].get(k) != v:
                out.fail('C19/locale-env/result-depends-on-environment',
                         '%s with %s gives %s, with %s (same process locale %r at start) %s' % (
                             k, envset, v, ref[0], data['lc_at_start'], ref[1].get(k)))
                break


# ------------------------------------------------------------------ entities
def payloads(canary, path):
    ent = '<!ENTITY e "%s">' % canary
    p = {
        'internal': '<!DOCTYPE r [%s]><r>&e;</r>' % ent,
        'internal-after-comment': '<!--x--><!DOCTYPE r [%s]><r>&e;</r>' % ent,
        'internal-after-pi': '<?p q?><!DOCTYPE r [%s]><r>&e;</r>' % ent,
        'internal-after-space': '  \n<!DOCTYPE r [%s]><r>&e;</r>' % ent,
        'internal-after-xmldecl': '<?xml version="1.0" encoding="UTF-8"?><!DOCTYPE r [%s]><r>&e;</r>' % ent,
        'internal-after-xmldecl-and-comment': '<?xml version="1.0" encoding="UTF-8"?><!--x--><!DOCTYPE r [%s]><r>&e;</r>' % ent,
        # the declaration far from the start of the text (beyond any look-ahead window of a pre-scan)
        'internal-after-long-comment': '<!--%s--><!DOCTYPE r [%s]><r>&e;</r>' % ('x' * 5000, ent),
        'internal-after-long-pi': '<?p %s?><!DOCTYPE r [%s]><r>&e;</r>' % ('q' * 70000, ent),
        'internal-after-many-blanks': '<!--x-->%s<!DOCTYPE r [%s]><r>&e;</r>' % (' \n' * 3000, ent),
        'entity-used-deep-in-large-document': '<!DOCTYPE r [%s]><r>%s<b>&e;</b></r>' % (ent, '<a>t</a>' * 9000),
        'in-attribute': '<!DOCTYPE r [%s]><r a="&e;"/>' % ent,
        'parameter-entity': '<!DOCTYPE r [<!ENTITY %% p "<!ENTITY e \'%s\'>"> %%p;]><r>&e;</r>' % canary,
        'nested': '<!DOCTYPE r [<!ENTITY a "%s"><!ENTITY b "&a;&a;"><!ENTITY e "&b;&b;">]><r>&e;</r>' % canary,
        'external-file': '<!DOCTYPE r [<!ENTITY e SYSTEM "file://%s">]><r>&e;</r>' % path,
        'external-http': '<!DOCTYPE r [<!ENTITY e SYSTEM "http://127.0.0.1:9/x">]><r>&e;</r>',
        'external-dtd': '<!DOCTYPE r SYSTEM "file://%s"><r/>' % path,
        'unparsed+notation': '<!DOCTYPE r [<!NOTATION n SYSTEM "x"><!ENTITY u SYSTEM "file://%s" NDATA n>'
                             '<!ATTLIST r a ENTITY #IMPLIED>]><r a="u"/>' % path,
    }
    return p


def run_entity(case, out):
    ensure_audit()
    canary = 'CANARY%s' % case['token']
    path = os.path.join(VERIF, '.work', 'c19-canary-%s.txt' % os.getpid())
    os.makedirs(os.path.dirname(path), exist_ok=True)
    with open(path, 'w') as f:
        f.write(canary)
    try:
        for name, xml in payloads(canary, path).items():
            if case.get('only') and name not in case['only']:
                continue
            for fn in ('parse-xml', 'parse-xml-fragment'):
                for lib in ('et', 'lxml'):
                    root = ET.XML('<a/>') if lib == 'et' else LE.XML('<a/>')
                    for ver in ('3.0', '3.1'):
                        AUDIT['events'] = []
                        AUDIT['on'] = True
                        try:
                            res = call(elementpath.select, root, 'string(%s($x))' % fn, parser=PARSERS[ver],
                                       variables={'x': xml})
                            res2 = call(elementpath.select, root, '%s($x)//@*/string()' % fn, parser=PARSERS[ver],
                                        variables={'x': xml})
                        finally:
                            AUDIT['on'] = False
                        out.dim('entity_payload', name)
                        out.dim('entity_probe', '%s/%s' % (fn, lib))
                        declares = name != 'external-dtd'
                        for r in (res, res2):
                            if r[0] == 'ok' and canary in repr(r[1]):
                                out.fail('C19/entity/expanded/%s/%s' % (fn, name),
                                         '%s on %s (%s): entity replacement text in the result %r' % (fn, lib, ver, r[1]))
                            elif r[0] == 'exc':
                                out.fail('C19/entity/exception/%s@%s/%s' % (r[1], r[2], fn), '%s %s' % (name, lib))
                        if declares and res[0] == 'ok':
                            out.fail('C19/entity/accepted/%s/%s' % (fn, name),
                                     '%s on %s (%s) accepted a DOCTYPE declaring entities: %r' % (fn, lib, ver, res[1]))
                        opened = [e for e in AUDIT['events'] if e[0] == 'open' and path in e[1]]
                        net = [e for e in AUDIT['events'] if e[0].startswith(('socket', 'urllib'))]
                        if opened:
                            out.fail('C19/entity/external-file-opened/%s/%s' % (fn, name), '%s %s' % (lib, opened[:2]))
                        if net:
                            out.fail('C19/entity/network-access/%s/%s' % (fn, name), '%s %s' % (lib, net[:2]))
    finally:
        try:
            os.remove(path)
        except OSError:
            pass


# ------------------------------------------------------------------ ambient state over a corpus
AMBIENT = [
    "1 div 3", "10 div 3.0", "round-half-to-even(2.5)", "xs:decimal('1') div xs:decimal('7')", "1 idiv 0", "1.0 div 0",
    "xs:decimal('1e400')", "sum((1.1, 2.2, 3.3))", "avg((1, 2.5))", "format-number(1234.5, '#,##0.00')",
    "xs:double('1e308') * 10", "1 to 5", "string-join(('a','b'), ',')", "compare('a', 'b')",
    "upper-case('abc')", "matches('abc', '\\\\p{L}+')", "replace('abc', 'b', 'x')", "tokenize('a b', ' ')",
    "current-dateTime() instance of xs:dateTime", "xs:date('2000-01-01') + xs:yearMonthDuration('P1M')",
    "serialize(<a/>)", "parse-json('[1, 2.5e0]')", "json-to-xml('{\"a\": 1}')", "xml-to-json(json-to-xml('[1]'))",
    "sort((3, 1, 2))", "random-number-generator(7)?number lt 1", "default-collation()", "default-language()",
    "format-integer(12, 'w')", "xs:float('1.5') + 1", "math:sqrt(2)", "math:pow(2, 0.5)", "math:exp(1000)",
    "round(2.5, 99999)", "abs(-1.5)", "1e0 mod 0", "number('x')", "xs:integer('x')", "(1, 'a') = 1",
    "environment-variable('HOME')", "lang('en')", "analyze-string('a1b', '[0-9]')", "string-to-codepoints('ab')",
    "doc('file:///nonexistent.xml')", "unparsed-text('file:///nonexistent.txt')", "doc-available('http://127.0.0.1:9/x')",
]


NUM_OPERANDS = ['0', '1', '2.5', '-2.5', '0.1', '3', '7', '1e0', '1.5e300', '1e-300', "xs:float('1.5')",
                '1234567890123456789012345678.45', '0.1234567890123456789012345678901234',
                '123456789012345678901234567890.55', '-99999999999999999999999999999.5', '1e28', '1.0e-28',
                "xs:decimal('79228162514264337593543950335')", "xs:double('INF')", "xs:double('NaN')"]
NUM_PRECISIONS = ['-30', '-2', '0', '1', '2', '27', '28', '30', '99']
NUM_UNARY = ['round(%s)', 'round-half-to-even(%s)', 'abs(%s)', 'floor(%s)', 'ceiling(%s)', '-(%s)', 'xs:decimal(%s)',
             'xs:integer(%s)', 'string(%s)', 'number(%s)', "format-number(%s, '#,##0.00')", "format-number(%s, '0.0e0')",
             'math:sqrt(%s)', 'sum((%s, 1))', 'avg((%s, 0.5))', 'max((%s, 1))', "format-integer(%s, '1')", 'xs:float(%s)']
NUM_BINARY = ['%s + %s', '%s - %s', '%s * %s', '%s div %s', '%s idiv %s', '%s mod %s', '%s eq %s', '%s lt %s',
              'math:pow(%s, %s)']


def ambient_matrix(rng, n):
    """generated numeric corpus for the decimal-context / ambient monitor: every rounding function x every operand x
    every precision, every unary form x operand, and a sample of the binary forms"""
    exprs = []
    for f in ('round', 'round-half-to-even'):
        for a in NUM_OPERANDS:
            for p in NUM_PRECISIONS:
                exprs.append('%s(%s, %s)' % (f, a, p))
    for u in NUM_UNARY:
        for a in NUM_OPERANDS:
            exprs.append(u % a)
    for _ in range(n):
        exprs.append(rng.choice(NUM_BINARY) % (rng.choice(NUM_OPERANDS), rng.choice(NUM_OPERANDS)))
    return exprs


def first_name(expr):
    import re
    m = re.match(r'\s*-?\(?([a-zA-Z][\w:-]*)\(', expr)
    if m:
        return m.group(1)
    m = re.search(r' (\+|-|\*|div|idiv|mod|eq|lt) ', expr)
    return 'operator ' + m.group(1) if m else 'expr'


def run_ambient(case, out):
    import random as _random
    base_dec = dec_snapshot()
    base_env = dict(os.environ)
    base_rnd = _random.getstate()
    root = ET.XML('<a xml:lang="en">t</a>')
    with Instrumented(None) as ins:
        base_lc = ins.lc_collate()
        for expr in case['exprs']:
            for ver in ('2.0', '3.1'):
                try:
                    res = call(elementpath.select, root, expr, parser=PARSERS[ver])
                    out.dim('ambient_function', first_name(expr))
                except SelfDeadlock:
                    out.fail('C19/lock/held-by-earlier-evaluation/ambient', expr)
                    ins.lock.force_release()
                    continue
                out.dim('ambient_outcome', res[0])
                if dec_snapshot() != base_dec:
                    out.fail('C19/decimal-context-changed/%s/%s' % (res[0], first_name(expr)),
                             '%s (%s): %r -> %r' % (expr, ver, base_dec, dec_snapshot()))
                    decimal.setcontext(decimal.Context(prec=base_dec[0], rounding=base_dec[1], Emin=base_dec[2],
                                                       Emax=base_dec[3], capitals=base_dec[4], clamp=base_dec[5]))
                if dict(os.environ) != base_env:
                    out.fail('C19/environ-changed/%s' % res[0], expr)
                if _random.getstate() != base_rnd:
                    # the host application's random module state is process-global state too
                    out.fail('C19/global-random-state-changed/%s' % first_name(expr), expr)
                    base_rnd = _random.getstate()
                if ins.lc_collate() != base_lc:
                    out.fail('C19/locale/LC_COLLATE-not-restored/ambient', expr)
                if ins.lock.locked():
                    out.fail('C19/lock/held-after-evaluation/ambient', expr)
                    ins.lock.force_release()
                out.dim('monitor_checks', 'ambient')


# ------------------------------------------------------------------ threads (child process, cold caches)
THREAD_CHILD = r'''
import sys, json, threading, hashlib, locale
sys.path.insert(0, %(repo)r)
sys.setswitchinterval(1e-6)
import xml.etree.ElementTree as ET
import elementpath
from elementpath import Selector
from elementpath.xpath31 import XPath31Parser
from elementpath import XPath2Parser
spec = json.loads(sys.argv[1])
doc = ET.XML('<r><a n="1">x1</a><a n="2">y2</a><b>Zz</b><c>10 20</c></r>')
WORK = spec['work']
def describe(v):
    if isinstance(v, list):
        return [describe(x) for x in v]
    if hasattr(v, 'tag'):
        return 'elem:' + str(v.tag)
    return repr(v)
def one(expr):
    try:
        return describe(Selector(expr, parser=XPath31Parser).select(doc))
    except elementpath.ElementPathError as e:
        return 'ERR:' + str(e.code)
    except Exception as e:
        return 'EXC:' + type(e).__name__
results = {}
errors = []
lc_before = locale.setlocale(locale.LC_COLLATE)
if spec['mode'] == 'sequential':
    for k, expr in enumerate(WORK):
        results[k] = [one(expr) for _ in range(spec['rounds'])]
else:
    start = threading.Barrier(len(WORK))
    def worker(k, expr):
        sel_results = []
        try:
            start.wait()
            for _ in range(spec['rounds']):
                sel_results.append(one(expr))
        except Exception as e:
            errors.append(repr(e))
        results[k] = sel_results
    ts = [threading.Thread(target=worker, args=(k, e)) for k, e in enumerate(WORK)]
    for t in ts: t.start()
    for t in ts: t.join(120)
    if any(t.is_alive() for t in ts):
        errors.append('thread still alive after 120 s')
print(json.dumps({'results': {str(k): v for k, v in results.items()}, 'errors': errors,
                  'lc_before': lc_before, 'lc_after': locale.setlocale(locale.LC_COLLATE)}))
'''

THREAD_WORK = [
    "matches('abc١٢', '^\\p{L}+\\d+$')", "replace('a1b22', '\\d+', '#')", "tokenize('a, b;c', '[,;]\\s*')",
    "matches('x_y', '^\\w+$')", "analyze-string('a1', '\\p{Nd}')//*:match/string()", "//a[@n = 2]/string()",
    "sum(//a/@n)", "for $x in //a return upper-case($x)", "serialize(/r/b)", "xml-to-json(json-to-xml('{\"k\": [1, 2]}'))",
    "string(json-to-xml('[true]')/*)", "sort(//a, (), function($e) { string($e) }) ! string()",
    "compare('a', 'B', 'http://www.w3.org/2005/xpath-functions/collation/html-ascii-case-insensitive')",
    "//c/tokenize(., ' ') ! xs:integer(.)", "format-number(1234.5, '#,##0.0')", "xs:date('2000-02-29') + xs:yearMonthDuration('P1Y')",
    "1 instance of xs:integer and 'a' instance of xs:string", "(//a)[last()] is //a[2]",
    "matches('Ab', '[\\p{Lu}-[B]]\\P{Lu}')", "string-join(for $i in 1 to 20 return string($i * $i), ',')",
    "random-number-generator(42)?number", "random-number-generator(42)?next()?number",
    "head(random-number-generator('s')?permute(1 to 10))",
]
# evaluations that switch the process locale (a collation backed by an installed locale): two of them in different
# threads contend for LC_COLLATE; whatever the interleaving the locale must be back to its initial value at the end
LOCALE_WORK_FROM = len(THREAD_WORK)
THREAD_WORK += [
    "compare('a', 'B', 'C.utf8')", "sort(('b', 'a', 'C', 'é', 'z', 'B', 'y', 'x'), 'C.utf8')",
    "distinct-values(('a', 'A', 'b', 'a'), 'C.utf8')", "contains-token('a b c', 'B', 'C.utf8')",
    "index-of(('a', 'b', 'a'), 'a', 'C.utf8')", "max(('a', 'b', 'B'), 'C.utf8')",
]


def run_threads(case, out):
    work = [THREAD_WORK[i] for i in case['work']]
    base = None
    for mode in ('sequential', 'threads'):
        spec = {'mode': mode, 'work': work, 'rounds': case['rounds']}
        env = dict(os.environ, PYTHONHASHSEED='0')
        try:
            p = subprocess.run([sys.executable, '-c', THREAD_CHILD % {'repo': bootstrap.REPO}, json.dumps(spec)],
                               capture_output=True, text=True, timeout=300, env=env)
        except subprocess.TimeoutExpired:
            out.dim('thread_trial', 'child-timeout')
            out.fail('C19/threads/hang', 'child did not finish within 300 s (%s)' % mode)
            return
        if p.returncode != 0 or not p.stdout.strip():
            out.fail('C19/threads/child-crashed/%s' % mode, p.stderr[-400:])
            return
        data = json.loads(p.stdout.strip().splitlines()[-1])
        if data['errors']:
            out.fail('C19/threads/worker-error', str(data['errors'][:2]))
        out.dim('thread_locale_checks', mode)
        if data.get('lc_after') != data.get('lc_before'):
            out.fail('C19/threads/LC_COLLATE-not-restored/%s' % mode,
                     'LC_COLLATE was %r before the workload and %r after all workers finished (%s)' % (
                         data.get('lc_before'), data.get('lc_after'), work))
        if mode == 'sequential':
            base = data['results']
            for k, vals in base.items():
                if any(v != vals[0] for v in vals):
                    out.fail('C19/threads/sequential-baseline-not-repeatable', '%s: %s' % (work[int(k)], vals[:3]))
        else:
            out.dim('thread_trial', 'n=%d' % len(work))
            for k, vals in data['results'].items():
                want = base[k][0]
                bad = [v for v in vals if v != want]
                out.dim('thread_results_compared', 'n', len(vals))
                if bad:
                    cls = 'rng' if 'random-number-generator' in work[int(k)] else \
                        ('exception' if str(bad[0]).startswith('EXC') else 'value')
                    out.fail('C19/threads/result-differs-from-sequential/%s' % cls,
                             '%s: sequential %r, concurrent %r (%d of %d rounds, %d threads)'
                             % (work[int(k)], want, bad[0], len(bad), len(vals), len(work)))


# ------------------------------------------------------------------ harness interface
def check_case(kind, case):
    out = Outcome()
    if kind == 'collation_history':
        run_history(case, out)
        out.nontrivial = any(k not in ('codepoint', 'html-ascii', 'malformed') for k, _ in case['history'])
        out.obs = '%s: %s' % (case['config'], [k for k, _ in case['history']])
    elif kind == 'env':
        run_env(case, out)
        out.obs = 'environment functions under default and allow_environment contexts'
    elif kind == 'entity':
        run_entity(case, out)
        out.obs = '13 DOCTYPE/entity payloads x parse-xml/parse-xml-fragment x et/lxml x 3.0/3.1'
    elif kind == 'locale_env':
        run_locale_env(case, out)
        out.obs = 'child interpreters under %d settings of LC_ALL / LC_COLLATE / LANG' % len(LOCALE_ENVS)
    elif kind == 'ambient':
        run_ambient(case, out)
        out.obs = '%d expressions, state monitors after each' % len(case['exprs'])
    elif kind == 'threads':
        run_threads(case, out)
        out.obs = '%d threads x %d rounds vs sequential baseline' % (len(case['work']), case['rounds'])
    return out


def run(h):
    r = h.rng
    if h.shard == 0:
        h.case('env', {'token': str(h.seed), 'exprs': AMBIENT[:20]}, cpu=120)
        h.case('entity', {'token': str(h.seed)}, cpu=120)
        h.case('locale_env', {}, cpu=120)
        h.case('ambient', {'exprs': AMBIENT}, cpu=300)
    mat = ambient_matrix(r, h.n(400))
    mine = mat[h.shard::h.nshards] if h.nshards > 1 else mat
    for i in range(0, len(mine), 40):
        h.case('ambient', {'exprs': mine[i:i + 40]}, cpu=300)
    # fault enumeration: every configuration x every history of length <= 3 over the call kinds
    hist = []
    for n in (1, 2, 3):
        hist.extend(itertools.product(range(len(KINDS)), repeat=n))
    jobs = [(c, hh) for c in sorted(CONFIGS) for hh in hist]
    mine = jobs[h.shard::h.nshards] if h.nshards > 1 else jobs
    for c, hh in mine:
        history = [[KINDS[k], r.choice(FUNCS)] for k in hh]
        h.case('collation_history', {'config': c, 'history': history})
    h.extra['histories_enumerated'] = len(mine)
    h.extra['history_space'] = len(jobs)
    # threads (exploration)
    trials = 6 if h.tier == 'quick' else 12
    for t in range(trials):
        n = r.choice([2, 4, 8])
        work = [r.randrange(len(THREAD_WORK)) for _ in range(n)]
        if t % 2 == 0:
            work[0] = work[-1]     # two threads on the same expression text (own Selector each)
        if t % 3 != 2:
            # at least two workers that switch LC_COLLATE
            for slot in r.sample(range(n), min(n, r.choice([2, 2, 3]))):
                work[slot] = r.randrange(LOCALE_WORK_FROM, len(THREAD_WORK))
        h.case('threads', {'work': work, 'rounds': r.choice([20, 40])}, cpu=600)


def shrink(kind, case):
    if kind == 'collation_history':
        hh = case['history']
        for i in range(len(hh)):
            if len(hh) > 1:
                yield {'config': case['config'], 'history': hh[:i] + hh[i + 1:]}
    elif kind == 'threads':
        w = case['work']
        for i in range(len(w)):
            if len(w) > 2:
                yield {'work': w[:i] + w[i + 1:], 'rounds': case['rounds']}
    elif kind == 'entity' and not case.get('only'):
        for name in payloads('x', 'y'):
            yield dict(case, only=[name])


def floors(v):
    reasons = []
    if v.got('monitor_checks', 'collation') < 5000:
        reasons.append('fewer than 5000 collation evaluations monitored')
    for k in KINDS:
        if v.got('call_kind', k) < 100:
            reasons.append('call kind %s exercised fewer than 100 times' % k)
    if v.got('locale_env_children', 'ok') < 6:
        reasons.append('fewer than 6 child interpreters under locale environment variables')
    if v.got('entity_probe') < 100:
        reasons.append('fewer than 100 entity probes')
    for form, _ in ENV_FORMS:
        if v.got('env_call_form_allowed_visible', form) < 1:
            reasons.append('environment call form %s never exposed the variable under allow_environment=True' % form)
    if v.got('env_probe', 'allowed-visible') < 1:
        reasons.append('the environment monitor was never reached with allow_environment=True')
    if v.got('thread_trial') < 3:
        reasons.append('fewer than 3 thread trials')
    return reasons
