"""C05 - evaluation is pure and repeatable; variable bindings are lexically scoped.

Monitors: before/after snapshots of the input tree, the caller's variable values (deep, incl. timezone of
date/time values and contents of maps/arrays), the namespaces dict and the context's variable table;
repeatability oracle over evaluation histories (one Selector / one token vs freshly parsed expression on a
fresh context); scoping templates whose expected outcome is known from the lexical structure."""
import copy
import xml.etree.ElementTree as ET
from decimal import Decimal

import lxml.etree as LE

from ..core import Outcome
from ..engine import call, describe, PARSERS

import elementpath
from elementpath import XPathContext, Selector, datatypes as dt
from elementpath.xpath_nodes import XPathNode
from elementpath.xpath_tokens import XPathMap, XPathArray, XPathFunction

PROPERTY = 'C05'
LEVEL = 'exploration'
RULE = ('expression templates (paths, predicates, for/let/some/every, inline functions, maps/arrays, date/time '
        'arithmetic and timezone adjustment on variables, string/regex/serialisation functions) instantiated over a pool of '
        'documents, variable maps (incl. mutable atomic values such as xs:dateTime, maps, arrays, node values) and implicit '
        'timezones; kinds: purity (snapshots before/after one evaluation), history (one Selector and one token reused '
        'along 3-7 evaluations over several documents/contexts vs fresh parse + fresh context), scope (binder templates). '
        'A case is non-trivial when the evaluation returned a value (purity) / the history visits >= 2 different '
        'contexts / the template has an outer binding of the same name; distinct by canonical JSON.')
ASSUMPTIONS = [
    'snapshots compare canonical serialisation + per-element (tag, text, tail, attrib) of the input tree and a deep description of variable values',
    'results are compared through a structural description (type label, canonical text, timezone; nodes by document index and position)',
    'expressions whose value legitimately depends on the evaluation time or on randomness are not in the corpus',
]

NS = {'p': 'urn:p'}
DOCS = [
    '<r><a n="1">x</a><a n="2">y<b/>t</a><c>3</c><d xml:lang="en">4.5</d></r>',
    '<r xmlns:p="urn:p"><p:a n="7">zz</p:a><a n="3"/><c>10</c><c>20</c><!--k--><?pi v?></r>',
    '<root><a n="5"><a n="6">deep</a></a><c>1</c><d>2000-01-01T10:00:00</d></root>',
    '<r><c>0</c></r>',
]
TIMEZONES = [None, 'Z', '+05:00', '-08:00']


def make_doc(i, lib):
    if lib == 'et':
        parser = ET.XMLParser(target=ET.TreeBuilder(insert_comments=True, insert_pis=True))
        parser.feed(DOCS[i])
        return parser.close()
    return LE.XML(DOCS[i])


def make_var(spec):
    """variable value from a JSON spec: ['xp', version, expr] (evaluated) or plain JSON atoms"""
    k = spec[0]
    if k == 'int':
        return spec[1]
    if k == 'str':
        return spec[1]
    if k == 'dec':
        return Decimal(spec[1])
    if k == 'dbl':
        return float(spec[1])
    if k == 'seq':
        return [make_var(x) for x in spec[1]]
    if k == 'xp':
        tok = PARSERS['3.1']().parse(spec[1])
        return tok.evaluate(XPathContext(ET.XML('<dummy/>')))
    raise ValueError(spec)


VAR_POOL = {
    'i': [['int', 3], ['int', -1], ['dbl', '2.5']],
    's': [['str', 'abc'], ['str', 'a1b22'], ['str', '']],
    'q': [['seq', [['int', 1], ['int', 2], ['int', 3]]], ['seq', []], ['seq', [['str', 'b'], ['str', 'a']]]],
    'd': [['xp', "xs:dateTime('2000-01-01T10:00:00')"], ['xp', "xs:dateTime('2000-01-01T10:00:00-07:00')"],
          ['xp', "xs:date('1999-12-31')"], ['xp', "xs:time('23:30:00')"]],
    'e': [['xp', "xs:dateTime('2001-06-15T00:00:00')"], ['xp', "xs:dateTime('1999-12-31T23:00:00Z')"]],
    'u': [['xp', "xs:dayTimeDuration('PT36H')"], ['xp', "xs:yearMonthDuration('P1Y2M')"]],
    'm': [['xp', "map{'a': 1, 'b': (2, 3), 'c': [4, ()]}"], ['xp', "map{}"], ['xp', "map{1: map{'x': [1, 2]}}"]],
    'r': [['xp', "[1, (), (2, 3), [4]]"], ['xp', "[]"], ['xp', "['b', 'a', 'c']"]],
    'f': [['xp', "function($x) { $x + 1 }"], ['xp', "abs#1"]],
    # xs:date / xs:time values with a timezone: the adjust functions only re-label them when the day does not change
    'g': [['xp', "xs:date('2002-03-07-07:00')"], ['xp', "xs:date('1999-12-31+02:00')"], ['xp', "xs:date('2000-02-29')"]],
    't': [['xp', "xs:time('10:00:00-07:00')"], ['xp', "xs:time('23:30:00')"]],
    'k': [['str', 'abc'], ['str', 'b1'], ['str', '']],
    'l': [['str', 'xyz'], ['str', 'X'], ['str', '']],
}

# (version set, expression).  '3' = 3.0+, '31' = 3.1 only, '2' = 2.0+, '1' = all
CORPUS = [
    ('2', "adjust-date-to-timezone($g, xs:dayTimeDuration('-PT5H'))"), ('2', "adjust-date-to-timezone($g, xs:dayTimeDuration('PT0S'))"),
    ('2', 'adjust-date-to-timezone($g)'), ('2', 'adjust-date-to-timezone($g, ())'),
    ('2', "(adjust-date-to-timezone($g, xs:dayTimeDuration('PT10H')), $g)"), ('2', "adjust-time-to-timezone($t, xs:dayTimeDuration('-PT7H'))"),
    ('2', "(adjust-time-to-timezone($t), timezone-from-time($t))"), ('2', "(adjust-dateTime-to-timezone($d, ()), $d)"),
    ('1', 'translate($s, $k, $l)'), ('2', "for $m in ($k, $l, 'a') return translate($s, $m, 'z')"),
    ('2', '(position(), last())'), ('1', 'position() = last()'), ('1', 'last() - position()'), ('1', '//a[position() = last()]'),
    ('1', '//a'), ('1', '//a[@n > 1]/text()'), ('1', 'count(//*)'), ('1', "string(/*/c[1]) = '3'"), ('1', '//a[last()]/@n'),
    ('1', "concat(name(/*), '-', count(//a))"), ('1', '/*/a[1]/following-sibling::*'), ('1', 'sum(//c)'),
    ('2', 'for $x in //a return string($x/@n)'), ('2', 'some $x in //a satisfies $x/@n = 2'),
    ('2', 'every $x in //c satisfies number($x) ge 0'), ('2', '(for $i in 1 to 3 return $i * $i)[2]'),
    ('2', 'for $i in $q, $j in $q return ($i, $j)'), ('2', '$i + count($q)'), ('2', 'if ($i gt 0) then $s else upper-case($s)'),
    ('2', 'for $i in (1, 2) return $i + $i'), ('2', 'some $i in $q satisfies $i eq 2'), ('2', '$q[. = $i]'),
    ('2', "replace($s, '[0-9]+', '#')"), ('2', "tokenize($s, 'b')"), ('2', 'reverse($q)'), ('2', 'distinct-values(($q, $q))'),
    ('2', 'index-of($q, 2)'), ('2', 'insert-before($q, 1, 0)'), ('2', 'remove($q, 1)'), ('2', 'subsequence($q, 2)'),
    ('2', '$d + $u'), ('2', '$d - $e'), ('2', '$e - $d'), ('2', '$d lt $e'), ('2', '$d eq $d'), ('2', 'max(($d, $d))'),
    ('2', 'adjust-dateTime-to-timezone($d)'), ('2', 'adjust-dateTime-to-timezone($d, ())'),
    ('2', "adjust-dateTime-to-timezone($e, xs:dayTimeDuration('PT2H'))"), ('2', 'adjust-date-to-timezone($d)'),
    ('2', 'adjust-time-to-timezone($d, ())'), ('2', 'timezone-from-dateTime($d)'), ('2', 'year-from-dateTime($e)'),
    ('2', 'string($d)'), ('2', 'implicit-timezone()'), ('2', '($d, $e)[1] - $e'), ('2', 'min(($e, $d))'),
    ('2', '//a except //a[1]'), ('2', '(//a | //c)[2]'), ('2', '//a[1] << //a[2]'), ('2', 'data(//a/@n)'),
    ('2', 'xs:dateTime(/*/d) + $u'), ('2', 'for $x in //a return $x/@n + $i'),
    ('3', 'let $i := 10 return $i + 1'), ('3', 'let $x := //a return count($x)'), ('3', '//a ! string(@n)'),
    ('3', 'let $f := function($i) { $i * 2 } return $f(5)'), ('3', 'function($s) { concat($s, $s) }("z")'),
    ('3', 'for-each($q, function($i) { $i })'), ('3', 'filter($q, function($x) { $x = 1 })'),
    ('3', 'fold-left($q, 0, function($a, $b) { $a })'), ('3', '$f(4)'), ('3', 'let $d := 1 return $d'),
    ('3', "string-join(for $x in //a return name($x), ',')"), ('3', 'serialize(/*/a[1])'), ('3', "parse-xml('<z a=\"1\"/>')/z/@a/string()"),
    ('3', "analyze-string($s, '[0-9]')/*/string()"), ('3', 'path(//a[1])'), ('3', 'innermost(//a)'), ('3', 'head(//a)/@n'),
    ('31', 'map:put($m, "z", 9)'), ('31', 'map:remove($m, "a")'), ('31', 'map:merge(($m, map{"a": 0}))'),
    ('31', 'map:merge(($m, $m), map{"duplicates": "combine"})'), ('31', 'map:keys($m)'), ('31', '$m?*'), ('31', 'map:size($m)'),
    ('31', 'map:for-each($m, function($k, $v) { $k })'), ('31', 'array:put($r, 1, 0)'), ('31', 'array:append($r, 5)'),
    ('31', 'array:insert-before($r, 1, 0)'), ('31', 'array:remove($r, 1)'), ('31', 'array:reverse($r)'), ('31', 'array:join(($r, $r))'),
    ('31', 'array:flatten($r)'), ('31', 'array:size($r)'), ('31', '$r?*'), ('31', 'array:subarray($r, 1, 1)'), ('31', 'array:head($r)'),
    ('31', 'array:sort($r)'), ('31', 'sort($q)'), ('31', 'serialize($m, map{"method": "json"})'), ('31', 'serialize($r, map{"method": "json"})'),
    ('31', 'array:for-each($r, function($x) { $x })'), ('31', 'array:fold-left($r, 0, function($a, $x) { $a })'),
    ('31', 'map{"k": $q}?k'), ('31', '[$q, $i]'), ('31', '$m("a")'), ('31', '$r(1)'), ('31', 'apply($f, [$i])'),
    # stored sequences reached by reference (map entries, array members, variables) as operands of the comma operator
    ('31', '($m("b"), 9)'), ('31', '(($m("b"), 9), $m("b"))'), ('31', 'count(($r(3), 0))'), ('31', '(array:get($r, 3), 1)'),
    ('31', '(map:get($m, "b"), 1)'), ('31', '($m?b, 1)'), ('31', '($r?3, 1)'), ('31', '(array:head($r), 1)'),
    ('31', "let $n := map{'a': (1, 2)} return (($n('a'), 3), $n('a'))"), ('2', '($q, 1)'), ('2', '(($q, 1), $q)'),
    ('31', "let $n := [(1, 2), 5] return (count((array:get($n, 1), 3)), array:get($n, 1))"), ('31', '($m("b"), $m("b"))'),
    ('31', 'insert-before($m("b"), 1, 0)'), ('31', 'reverse(($m("b"), $r(3)))'), ('3', '(function() { $q }(), 1)'),
    ('31', '(map:for-each($m, function($k, $v) { $v }), 1)'), ('31', '($m?*, 0)'), ('31', '(array:flatten($r), 0)'),
    # map and array constructors used as function items (the callee receives the constructor itself)
    ('31', 'for $x in (10, 20) return for-each(("a", "b"), map{"a": $x, "b": $x + 1})'),
    ('31', '//a ! apply(map{"k": string(@n)}, ["k"])'), ('31', '//a ! for-each("k", map{"k": string(@n)})'),
    ('31', 'for $x in (1, 2) return filter(("a", "b"), map{"a": $x = 1, "b": $x = 2})'),
    ('31', 'for $x in (1, 2) return for-each((1, 2), [$x, $x * 10])'), ('31', '//a ! apply([string(@n), name()], [2])'),
    ('31', 'for $x in (1, 2) return map{"a": $x}("a")'), ('31', 'for $x in (1, 2) return [$x, $x + 1](2)'),
    ('31', 'for $x in (1, 2) return (map{"a": $x} => map:get("a"))'), ('31', '//c ! map{"v": number(.)}?v'),
    ('31', 'for $x in (1, 2) return fold-left(("a", "b"), 0, function($z, $k) { $z + map{"a": $x, "b": $i}($k) })'),
    ('31', 'for $x in (1, 2) return sort(("b", "a"), (), map{"a": $x, "b": 3 - $x})'),
    ('31', 'for $x in ("p", "q") return map:for-each(map{"k": $x}, function($k, $v) { $v })'),
    # serialization of elements that have a tail (and of the other node kinds) under every parameter
    ('3', 'serialize(//b)'), ('31', 'serialize(//b, map{"standalone": true()})'), ('31', 'serialize(//b, map{"indent": true()})'),
    ('31', 'serialize(//b, map{"method": "html"})'), ('31', 'serialize(//b, map{"method": "text"})'),
    ('31', 'serialize(//b, map{"omit-xml-declaration": false()})'), ('31', 'serialize(//b, map{"method": "json"})'),
    ('31', 'serialize(/*/*, map{"item-separator": "|"})'), ('31', 'serialize(/*/*[1], map{"standalone": false(), "indent": true()})'),
    ('31', 'serialize((//b, //@n, //text()), map{"method": "adaptive"})'), ('31', 'serialize(/*, map{"standalone": true()})'),
    ('31', 'serialize(//b, map{"cdata-section-elements": xs:QName("b")})'), ('31', 'serialize(/*/*[2], map{"version": "1.0"})'),
    ('31', 'serialize(/*/*[2], map{"encoding": "utf-8", "doctype-system": "x.dtd"})'),
    ('3', 'serialize(/*/*[2]) = serialize(/*/*[2])'),
    # named function references to context-dependent functions: the focus is the one of each evaluation
    ('3', '/*/*[1] ! name#0()'), ('3', 'for $f in (/*/* ! name#0) return $f()'), ('3', 'count(root#0() | /)'),
    ('3', '/*/*[1] ! string#0()'), ('3', '//a ! (position#0)()'), ('3', '//a ! (last#0)()'), ('3', '(//a ! string#0) ! .()'),
    ('3', 'for-each(//a, name#1)'), ('3', 'let $f := name#0 return //a ! $f()'), ('3', '(//c ! number#0) ! .()'),
    ('3', '/* ! local-name#0()'), ('3', "/*/* ! (function-lookup(xs:QName('fn:name'), 0))()"), ('3', '(//a ! data#0)[last()]()'),
    ('3', '//a ! (generate-id#0() = generate-id(.))'), ('3', '/*/*[last()] ! path#0()'), ('3', '(//@n ! node-name#0) ! .()'),
    ('3', '//a ! has-children#0()'), ('3', '//a ! normalize-space#0()'), ('3', '//a ! string-length#0()'),
    ('3', '//d ! lang#1("en")'), ('3', 'current-dateTime#0() eq current-dateTime()'), ('3', 'implicit-timezone#0()'),
    ('3', '/*/*[2] ! (namespace-uri#0(), local-name#0(), name#0) ! (if (. instance of function(*)) then .() else .)'),
    ('3', 'for $n in //a return ($n ! number#0)() + 0'), ('3', 'let $g := (//a)[1] ! root#0 return count($g() | /)'),
    ('31', "apply(name#0, []) = name()"), ('31', '/*/*[1] ! (name#0 => apply([]))'),
    ('31', 'json-to-xml(\'{"a": [1, 2]}\')//*:number/string()'), ('31', "parse-json('[1, {\"a\": null}]')"),
]

VERSIONS_FOR = {'1': ['1.0', '2.0', '3.1'], '2': ['2.0', '3.0', '3.1'], '3': ['3.0', '3.1'], '31': ['3.1']}


# ------------------------------------------------------------------ snapshots
def tree_snapshot(root):
    is_lxml = hasattr(root, 'getroottree')
    # ET.tostring() depends on the process-wide prefix registry (register_namespace), not only on the tree
    ser = LE.tostring(root) if is_lxml else None
    items = []
    for e in root.iter():
        items.append((len(e), None if is_lxml else id(e), e.tag if not callable(e.tag) else e.tag.__name__, e.text, e.tail,
                      tuple(e.attrib.items()) if hasattr(e, 'attrib') and not callable(e.tag) else ()))
    return ser, items


def deep(v, depth=0):
    """deep description of a value incl. state that evaluation could mutate in place"""
    if depth > 10:
        return '...'
    if isinstance(v, (list, tuple)):
        return [deep(x, depth + 1) for x in v]
    if isinstance(v, dt.AbstractDateTime):
        return [type(v).__name__, str(v), repr(v.tzinfo), repr(getattr(v, '_dt', None)), getattr(v, '_year', None)]
    if isinstance(v, XPathMap):
        try:
            return ['map', [[deep(k, depth + 1), deep(x, depth + 1)] for k, x in v.items()]]
        except Exception as e:
            return ['map', 'unreadable:' + type(e).__name__]
    if isinstance(v, XPathArray):
        try:
            return ['array', [deep(x, depth + 1) for x in v.items()]]
        except Exception as e:
            return ['array', 'unreadable:' + type(e).__name__]
    if isinstance(v, XPathFunction):
        return ['function', str(getattr(v, 'name', '')), getattr(v, 'arity', None),
                sorted(getattr(v, 'variables', None) or {}) if isinstance(getattr(v, 'variables', None), dict) else None]
    if isinstance(v, XPathNode):
        return ['node', type(v).__name__, getattr(v, 'position', None)]
    return describe(v)


def result_desc(res, docs_roots):
    """description of an evaluation outcome that is comparable across fresh/reused evaluations"""
    if res[0] != 'ok':
        return list(res[:2]) if res[0] == 'err' else list(res)
    return ['ok', rdesc(res[1])]


def rdesc(v, depth=0):
    if depth > 10:
        return '...'
    if isinstance(v, (list, tuple)):
        return [rdesc(x, depth + 1) for x in v]
    if hasattr(v, 'tag') or hasattr(v, 'getroot'):
        tag = getattr(v, 'tag', 'DOC')
        return ['elem', tag if not callable(tag) else tag.__name__, (getattr(v, 'text', None) or '')[:10]]
    if isinstance(v, XPathNode):
        return ['node', type(v).__name__, getattr(v, 'position', None), (v.string_value or '')[:12]]
    if isinstance(v, dt.AbstractDateTime):
        return [type(v).__name__, str(v)]
    if isinstance(v, (XPathMap, XPathArray, XPathFunction)):
        d = deep(v)
        return d[:3] if isinstance(v, XPathFunction) else d
    return describe(v)


def build_vars(vspec):
    return {k: make_var(s) for k, s in vspec.items()}


# ------------------------------------------------------------------ purity
def check_purity(case, out):
    root = make_doc(case['doc'], case['lib'])
    variables = build_vars(case['vars'])
    caller_vars = dict(variables)
    ns = dict(NS)
    tree_before = tree_snapshot(root)
    vars_before = {k: deep(v) for k, v in variables.items()}
    ver = case['ver']
    expr = case['expr']
    form = case['form']
    tz = case['tz']

    def run():
        if form == 'select':
            return elementpath.select(root, expr, namespaces=ns, parser=PARSERS[ver], variables=variables, timezone=tz)
        if form == 'iter_select':
            return list(elementpath.iter_select(root, expr, namespaces=ns, parser=PARSERS[ver], variables=variables, timezone=tz))
        if form == 'selector':
            return Selector(expr, namespaces=ns, parser=PARSERS[ver]).select(root, variables=variables, timezone=tz)
        tok = PARSERS[ver](namespaces=ns).parse(expr)
        ctx = XPathContext(root, namespaces=ns, variables=variables, timezone=tz)
        keys = sorted(ctx.variables)
        v = tok.evaluate(ctx)
        after = sorted(ctx.variables)
        if after != keys:
            raise LeakedBinding(sorted(set(after) ^ set(keys)))
        return v
    try:
        res = call(run)
    except LeakedBinding as lb:
        out.fail('C05/context-variable-table-changed/%s' % binder_of(expr),
                 '%s [%s]: names %s appeared in / vanished from context.variables after evaluate()' % (expr, ver, lb.args[0]))
        res = ('ok', None)
    out.dim('purity_outcome', res[0])
    out.dim('form', form)
    tree_after = tree_snapshot(root)
    if tree_after != tree_before:
        what = 'serialisation' if tree_after[0] != tree_before[0] else 'element-fields'
        out.fail('C05/input-tree-modified/%s/%s' % (what, first_fn(expr)), '%s [%s %s]' % (expr, ver, form))
    out.dim('snapshots', 'tree')
    for k, v in variables.items():
        if caller_vars[k] is not v:
            out.fail('C05/variables-dict-rebound', k)
        now = deep(v)
        out.dim('snapshots', 'variable')
        if now != vars_before[k]:
            out.fail('C05/variable-value-modified/%s/%s' % (vkind(v), first_fn(expr)),
                     '%s [%s %s tz=%s]: $%s was %s, now %s' % (expr, ver, form, tz, k, str(vars_before[k])[:150], str(now)[:150]))
    if set(variables) != set(caller_vars):
        out.fail('C05/variables-dict-keys-changed', '%s: %s' % (expr, sorted(set(variables) ^ set(caller_vars))))
    if ns != NS:
        out.fail('C05/namespaces-dict-modified', '%s: %r' % (expr, ns))
    return res


class LeakedBinding(Exception):
    pass


def vkind(v):
    if isinstance(v, dt.AbstractDateTime):
        return 'date-time'
    if isinstance(v, XPathMap):
        return 'map'
    if isinstance(v, XPathArray):
        return 'array'
    if isinstance(v, list):
        return 'sequence'
    return type(v).__name__


def first_fn(expr):
    import re
    m = re.search(r'([a-zA-Z][\w:-]*)\(', expr)
    if m:
        return m.group(1)
    for op in (' - ', ' + ', ' lt ', ' eq '):
        if op in expr:
            return 'operator' + op.strip()
    return 'expr'


def binder_of(expr):
    for b in ('for ', 'let ', 'some ', 'every ', 'function('):
        if b in expr:
            return b.strip(' (')
    return 'none'


# ------------------------------------------------------------------ repeatability over histories
def check_history(case, out):
    ver, expr = case['ver'], case['expr']
    steps = case['steps']
    roots = {}
    sel = call(lambda: Selector(expr, namespaces=NS, parser=PARSERS[ver]))
    tokr = call(lambda: PARSERS[ver](namespaces=NS).parse(expr))
    if sel[0] != 'ok' or tokr[0] != 'ok':
        out.nontrivial = False
        return
    selector, token = sel[1], tokr[1]
    contexts = set()
    for idx, st in enumerate(steps):
        key = (st['doc'], st['lib'])
        if key not in roots:
            roots[key] = make_doc(st['doc'], st['lib'])
        root = roots[key]
        contexts.add((key, st['item'], str(st['vars']), st['tz']))

        def item_of(r):
            if st['item'] is None:
                return None
            els = [e for e in r.iter() if not callable(e.tag)]
            return els[st['item'] % len(els)]

        def fresh():
            r2 = make_doc(st['doc'], st['lib'])
            tok = PARSERS[ver](namespaces=NS).parse(expr)
            ctx = XPathContext(r2, namespaces=NS, item=item_of(r2), variables=build_vars(st['vars']), timezone=st['tz'])
            return tok.get_results(ctx)
        want = result_desc(call(fresh), None)
        kw = dict(item=item_of(root), variables=build_vars(st['vars']), timezone=st['tz'])
        got = {
            'Selector.select': result_desc(call(lambda: selector.select(root, namespaces=NS, **kw)), None),
            'Selector.iter_select': result_desc(call(lambda: list(selector.iter_select(root, namespaces=NS, **kw))), None),
            'token.get_results': result_desc(call(lambda: token.get_results(XPathContext(root, namespaces=NS, **kw))), None),
        }
        out.dim('history_steps', ver)
        for how, g in got.items():
            out.dim('repeat_comparisons', how)
            w = want
            if how == 'Selector.iter_select' and w[0] == 'ok' and not isinstance(w[1], list) or \
                    (how == 'Selector.iter_select' and w[0] == 'ok' and isinstance(w[1], list) and w[1] and
                     not isinstance(w[1][0], list)):
                w = ['ok', [w[1]]]      # select() may return a bare value where iter_select yields one item
            if g != w and not (how == 'Selector.iter_select' and g == want):
                out.fail('C05/repeat/%s/%s/step-%s' % (how, first_fn(expr), 'first' if idx == 0 else 'later'),
                         '%s [%s] step %d (%s): reused %s gives %s, fresh parse + fresh context gives %s' % (
                             expr, ver, idx, st, how, str(g)[:160], str(want)[:160]))
                return
    out.nontrivial = len(contexts) >= 2


# ------------------------------------------------------------------ scoping templates
SCOPE_TEMPLATES = [
    # (version class, template, binder).  {V} is the variable name; {OUT} reads it outside the binder
    ('2', '(for ${V} in (1, 2) return ${V} * 10, {OUT})', 'for'),
    ('2', '((some ${V} in (5, 6) satisfies ${V} eq 6), {OUT})', 'some'),
    ('2', '((every ${V} in (5, 6) satisfies ${V} gt 0), {OUT})', 'every'),
    ('3', '((let ${V} := 77 return ${V} + 1), {OUT})', 'let'),
    ('3', '(function(${V}) { ${V} + 1 }(41), {OUT})', 'inline-function-parameter'),
    ('3', '(let $f := function(${V}) { ${V} * 2 } return $f(8), {OUT})', 'inline-function-parameter'),
    ('2', '(for ${V} in (1, 2) return (for ${V} in (7, 8) return ${V}, ${V}), {OUT})', 'nested-for-shadowing'),
    ('2', 'for ${V} in (1, 2) return ((some ${V} in (5, 6) satisfies ${V} eq 6), ${V})', 'some-inside-for'),
    ('2', 'for ${V} in (1, 2) return ((every ${V} in (5, 6) satisfies ${V} gt 0), ${V})', 'every-inside-for'),
    ('3', 'for ${V} in (1, 2) return ((let ${V} := 9 return ${V}), ${V})', 'let-inside-for'),
    ('3', 'for ${V} in (1, 2) return (function(${V}) { ${V} }(99), ${V})', 'function-inside-for'),
    ('3', 'let ${V} := 1 return ((for ${V} in (4, 5) return ${V}), ${V})', 'for-inside-let'),
    ('3', 'let ${V} := 1, $f := function() { ${V} }, ${V} := 10 return ($f(), ${V})', 'let-rebinding-after-closure'),
    ('2', '(1 to 3)[some ${V} in (1, 2) satisfies ${V} eq .] , {OUT}', 'some-in-predicate'),
    ('3', '(for-each((1, 2), function(${V}) { ${V} + 1 }), {OUT})', 'hof-parameter'),
    ('31', '(array:size(array:for-each([1, 2], function(${V}) { ${V} })), {OUT})', 'array-hof-parameter'),
    ('31', '(map:for-each(map{1: 2}, function(${V}, $w) { ${V} }), {OUT})', 'map-hof-parameter'),
    ('3', '(fold-left((1, 2), 0, function(${V}, $y) { ${V} + $y }), {OUT})', 'fold-parameter'),
    # each activation of a function item has its own parameter binding: the parameter is read AFTER the inner call
    ('3', '(let $k := 7, $f := function(${V}, $g) { if (${V} = 0) then 0 else $g(${V} - 1, $g) + ${V} } '
          'return $f(4, $f), {OUT})', 'recursive-activation'),
    ('3', '(let $f := function(${V}, $g) { if (${V} = 0) then 0 else $g(${V} - 1, $g) + ${V} } '
          'return $f(3, $f), {OUT})', 'recursive-activation-no-closure'),
    ('3', '(let $k := 1, $f := function(${V}) { ${V} * 2 }, $h := function(${V}) { $f(${V} + 1) + ${V} } '
          'return $h(5), {OUT})', 'nested-activation-same-parameter-name'),
]


def expected_scope(template, binder, outer):
    """expected items (as python ints/bools) or 'XPST0008'"""
    O = [outer] if outer is not None else None
    t = {
        'for': [10, 20], 'some': [True], 'every': [True], 'let': [78], 'nested-for-shadowing': None,
        'some-in-predicate': [1, 2], 'hof-parameter': [2, 3], 'array-hof-parameter': [2],
        'map-hof-parameter': [1], 'fold-parameter': [3], 'recursive-activation': [10],
        'recursive-activation-no-closure': [6], 'nested-activation-same-parameter-name': [17],
    }
    if binder in ('some-inside-for',):
        return [True, 1, True, 2]
    if binder == 'every-inside-for':
        return [True, 1, True, 2]
    if binder == 'let-inside-for':
        return [9, 1, 9, 2]
    if binder == 'function-inside-for':
        return [99, 1, 99, 2]
    if binder == 'for-inside-let':
        return [4, 5, 1]
    if binder == 'let-rebinding-after-closure':
        return [1, 10]
    if binder == 'nested-for-shadowing':
        inner = [7, 8, 1, 7, 8, 2]
        return 'XPST0008' if O is None else inner + O
    if binder == 'inline-function-parameter':
        head = [42] if 'f(8)' not in template else [16]
        return 'XPST0008' if O is None else head + O
    if O is None:
        return 'XPST0008'
    return t[binder] + O


def check_scope(case, out):
    ver = case['ver']
    cls, template, binder = SCOPE_TEMPLATES[case['template']]
    name = case['name']
    outer = case['outer']
    expr = template.replace('{V}', name).replace('{OUT}', '$' + name)
    variables = {name: outer} if outer is not None else {}
    want = expected_scope(template, binder, outer)
    for form in ('select', 'token'):
        def run():
            if form == 'select':
                return elementpath.select(None, expr, parser=PARSERS[ver], item=1, variables=dict(variables))
            tok = PARSERS[ver]().parse(expr)
            ctx = XPathContext(item=1, variables=dict(variables))
            v = tok.evaluate(ctx)
            return v, sorted(ctx.variables)
        res = call(run)
        out.dim('scope_probe', binder)
        if form == 'token' and res[0] == 'ok':
            v, names = res[1]
            if names != sorted(variables):
                out.fail('C05/scope/%s/binding-left-in-context' % binder,
                         '%s [%s]: context.variables has %s after evaluation (caller supplied %s)' % (expr, ver, names, sorted(variables)))
            res = ('ok', v)
        if want == 'XPST0008':
            if not (res[0] == 'err' and res[1] in ('XPST0008', 'XPDY0002')):
                out.fail('C05/scope/%s/leak-visible-outside' % binder,
                         '%s [%s %s]: expected XPST0008 (no outer binding), got %s' % (expr, ver, form, str(res)[:160]))
            continue
        if res[0] != 'ok':
            out.fail('C05/scope/%s/raised' % binder, '%s [%s %s] outer=%r -> %r' % (expr, ver, form, outer, res))
            continue
        got = res[1] if isinstance(res[1], list) else [res[1]]
        norm = []
        for x in got:
            if isinstance(x, XPathArray):
                norm.append('array')
            elif isinstance(x, bool):
                norm.append(x)
            elif isinstance(x, (int, float, Decimal)):
                norm.append(int(x) if x == int(x) else x)
            else:
                norm.append(repr(x))
        if norm != want:
            kind = 'outer-overwritten' if (outer is not None and norm[:-1] == want[:-1]) else 'value'
            out.fail('C05/scope/%s/%s' % (binder, kind),
                     '%s [%s %s] outer=%r: got %s expected %s' % (expr, ver, form, outer, norm, want))


# ------------------------------------------------------------------ entry points agree
def check_forms(case, out):
    """select == iter_select == Selector.select == Selector.iter_select == token.get_results, each on fresh inputs"""
    ver, expr, tz = case['ver'], case['expr'], case['tz']

    focus = case.get('focus')

    def fresh_kw():
        kw = dict(namespaces=dict(NS), variables=build_vars(case['vars']), timezone=tz)
        if focus:
            kw.update(position=focus[0], size=focus[1])
        return kw

    def doc():
        return make_doc(case['doc'], case['lib'])

    def ref():
        tok = PARSERS[ver](namespaces=dict(NS)).parse(expr)
        return tok.get_results(XPathContext(doc(), **fresh_kw()))
    forms = {
        'select': lambda: elementpath.select(doc(), expr, parser=PARSERS[ver], **fresh_kw()),
        'iter_select': lambda: list(elementpath.iter_select(doc(), expr, parser=PARSERS[ver], **fresh_kw())),
        'Selector.select': lambda: Selector(expr, namespaces=dict(NS), parser=PARSERS[ver]).select(
            doc(), **{k: v for k, v in fresh_kw().items() if k != 'namespaces'}),
        'Selector.iter_select': lambda: list(Selector(expr, namespaces=dict(NS), parser=PARSERS[ver]).iter_select(
            doc(), **{k: v for k, v in fresh_kw().items() if k != 'namespaces'})),
    }
    if focus:
        out.dim('forms_with_caller_focus', ver)
    rr = call(ref)
    want = result_desc(rr, None)
    out.nontrivial = rr[0] == 'ok'
    out.dim('forms_reference_outcome', rr[0])
    if tz is not None:
        out.dim('forms_with_timezone', ver)
    for how, fn in forms.items():
        g = result_desc(call(fn), None)
        out.dim('forms_comparisons', how)
        w = want
        if how.endswith('iter_select') and w[0] == 'ok' and (
                not isinstance(w[1], list) or (w[1] and not isinstance(w[1][0], list))):
            w = ['ok', [w[1]]]
        if g != w and g != want:
            out.fail('C05/forms-disagree/%s/%s' % (how, first_fn(expr)),
                     '%s [%s tz=%s vars=%s]: %s gives %s, token.get_results on a fresh context gives %s' % (
                         expr, ver, tz, case['vars'], how, str(g)[:200], str(want)[:200]))


# ------------------------------------------------------------------ harness interface
def check_case(kind, case):
    out = Outcome()
    if kind == 'forms':
        check_forms(case, out)
        out.obs = '%s [%s tz=%s]' % (case['expr'], case['ver'], case['tz'])
        return out
    if kind == 'purity':
        res = check_purity(case, out)
        out.nontrivial = res[0] == 'ok'
        out.obs = '%s [%s %s] -> %s' % (case['expr'], case['ver'], case['form'], res[0])
    elif kind == 'history':
        check_history(case, out)
        out.obs = '%s [%s] over %d steps' % (case['expr'], case['ver'], len(case['steps']))
    elif kind == 'scope':
        check_scope(case, out)
        out.nontrivial = case['outer'] is not None
        out.obs = '%s name=%s outer=%r' % (SCOPE_TEMPLATES[case['template']][2], case['name'], case['outer'])
    return out


def g_vars(r, expr):
    import re
    names = set(re.findall(r'\$([a-z])\b', expr))
    spec = {}
    for n in sorted(names):
        if n in VAR_POOL:
            spec[n] = r.choice(VAR_POOL[n])
    # extra unused variables must stay untouched as well
    if r.random() < 0.3:
        spec.setdefault('d', r.choice(VAR_POOL['d']))
    return spec


def run(h):
    r = h.rng
    for _ in range(h.n(9000)):
        cls, expr = r.choice(CORPUS)
        h.case('purity', {'expr': expr, 'ver': r.choice(VERSIONS_FOR[cls]), 'doc': r.randrange(len(DOCS)),
                          'lib': r.choice(['et', 'lxml']), 'vars': g_vars(r, expr), 'tz': r.choice(TIMEZONES),
                          'form': r.choice(['select', 'iter_select', 'selector', 'token'])})
    for _ in range(h.n(3000)):
        cls, expr = r.choice(CORPUS)
        case = {'expr': expr, 'ver': r.choice(VERSIONS_FOR[cls]), 'doc': r.randrange(len(DOCS)),
                'lib': r.choice(['et', 'lxml']), 'vars': g_vars(r, expr), 'tz': r.choice(TIMEZONES)}
        if r.random() < 0.4:
            case['focus'] = r.choice([[2, 5], [1, 3], [4, 4], [3, 7]])     # position, size given by the caller
        h.case('forms', case)
    for _ in range(h.n(2500)):
        cls, expr = r.choice(CORPUS)
        steps = []
        for _ in range(r.randint(3, 7)):
            steps.append({'doc': r.randrange(len(DOCS)), 'lib': r.choice(['et', 'lxml']),
                          'item': r.choice([None, None, 0, 1, 2, 5]), 'vars': g_vars(r, expr), 'tz': r.choice(TIMEZONES)})
        if r.random() < 0.5:
            steps.append(dict(steps[0]))       # come back to the first context
        h.case('history', {'expr': expr, 'ver': r.choice(VERSIONS_FOR[cls]), 'steps': steps})
    for t in range(len(SCOPE_TEMPLATES)):
        cls = SCOPE_TEMPLATES[t][0]
        for ver in VERSIONS_FOR[cls]:
            for name in ('x', 'v'):
                for outer in (None, 555):
                    h.case('scope', {'template': t, 'ver': ver, 'name': name, 'outer': outer})


def shrink(kind, case):
    if kind == 'history':
        st = case['steps']
        for i in range(len(st)):
            if len(st) > 1:
                yield dict(case, steps=st[:i] + st[i + 1:])
    elif kind in ('purity', 'forms'):
        if len(case['vars']) > 1:
            for k in list(case['vars']):
                v = dict(case['vars'])
                del v[k]
                yield dict(case, vars=v)
        if case['tz'] is not None:
            yield dict(case, tz=None)


def floors(v):
    reasons = []
    if v.got('snapshots', 'tree') < 1000:
        reasons.append('fewer than 1000 tree snapshots compared')
    if v.got('snapshots', 'variable') < 1000:
        reasons.append('fewer than 1000 variable snapshots compared')
    if v.got('repeat_comparisons') < 3000:
        reasons.append('fewer than 3000 reused-vs-fresh comparisons')
    if v.got('forms_comparisons') < 4000:
        reasons.append('fewer than 4000 entry-point comparisons')
    if v.got('forms_with_caller_focus') < 300:
        reasons.append('fewer than 300 entry-point cases with a caller-supplied context position/size')
    if v.got('forms_with_timezone') < 300:
        reasons.append('fewer than 300 entry-point cases with an implicit timezone')
    if v.got('scope_probe') < 150:
        reasons.append('fewer than 150 scope probes')
    return reasons
