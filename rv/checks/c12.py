"""C12 - XSD/XPath regular expressions translate to Python regexes with the same language;
fn:matches / fn:replace / fn:tokenize / fn:analyze-string are mutually consistent.

kind 'translate': translate_pattern(P, ...) + re vs the reference parser/matcher (rv.models.xsdregex)
kind 'functions': the four XPath functions on ($s, $p, $flags): fn:matches vs the reference matcher,
                  FORX0002/FORX0003 behaviour, and the engine-only consistency relations.
"""
import re
import warnings
import xml.etree.ElementTree as ET

from ..core import Outcome
from ..engine import call, xselect, where
from ..models import xsdregex as M

from elementpath.regex import translate_pattern, RegexError

PROPERTY = 'C12'
LEVEL = 'exploration'
RULE = ('patterns generated from the XSD/XPath regex grammar (depth <= 4; literals over a 20-symbol alphabet; '
        'character classes with ranges, negation, subtraction, positive/negative multi-character and category '
        'escapes; quantifiers incl. {n,m} and reluctant; groups, back-references, anchors) plus ~12% '
        'single-character mutations; each pattern is judged for validity and matched against the empty string, '
        'every one-character string of a 33-symbol probe alphabet and strings sampled from the pattern, in XPath '
        'mode (search; flags s m i x, i on ASCII only) and XSD mode (implicit full match), XSD 1.0/1.1. '
        'A translate case is non-trivial when the reference rejects the pattern or when the subjects produce both '
        'answers; a functions case when the pattern is valid, does not match the empty string and matches somewhere '
        'in the subject. Distinct by canonical JSON of the case.')
ASSUMPTIONS = [
    'the reference parser/matcher in rv/models/xsdregex.py (transcribed from XSD Part 2 1.0/1.1 and F&O 3.1 5.6.1) is the ground truth where it decides',
    'points on which the two XSD editions or grammar and prose differ are not judged (counted as undecided): unescaped '
    'hyphens inside a class other than first/last, braces as XSD 1.0 characters, {n,m} with n>m, quantified anchors, '
    'reversed ranges, unknown Is-blocks in 1.1, \\i/\\c on code points where XML 1.0 4th and 5th edition differ',
    'flag i is exercised on ASCII patterns and subjects only; subjects are drawn from a fixed vetted 33-symbol alphabet',
    'XPath functions are exercised through the XPath 3.1 parser (F&O 3.1 semantics of . ^ $ and (?:)); XPath 2.0 regex dialect is not exercised',
    'the choice of leftmost match / captured substrings is not modelled: analyze-string, tokenize and replace are only compared with each other',
]

PYFLAG = {'s': re.S, 'm': re.M, 'i': re.I, 'x': re.X}
ROOT = ET.XML('<r/>')
FN_NS = '{http://www.w3.org/2005/xpath-functions}'

SUBJ = ['a', 'b', 'A', 'B', 'z', '0', '5', '٣', '-', '_', ':', ' ', '\n', '\t', '\r', 'é', 'É',
        '.', '^', ']', '[', '$', '\\', '+', '#', '{', '|', ' ', '·', '<', '&', '=', '~']
ASCII_SUBJ = [c for c in SUBJ if ord(c) < 128]
SUBJ_SET = set(SUBJ)


# ============================================================================ generator
LIT = ['a', 'a', 'b', 'b', 'A', 'B', '5', '0', '٣', '_', ':', ' ', '\n', 'é', '-', 'z', '#', '=', '+', '.', '^', '$', '|']
LIT_ASCII = [c for c in LIT if ord(c) < 128]
META_OUT = set('.\\?*+{}()|[]^$')
RANGE_ENDS = ['\t', '\n', ' ', '+', '-', '0', '5', '9', 'A', 'B', 'Z', '^', '_', 'a', 'b', 'z', '|', 'é', '٠', '٣', '٩']
POS_ESC = ['\\s', '\\d', '\\w', '\\i', '\\c']
NEG_ESC = ['\\S', '\\D', '\\W', '\\I', '\\C']
CATS = ['L', 'Lu', 'Ll', 'N', 'Nd', 'P', 'Pd', 'Pc', 'Z', 'Zs', 'S', 'Sm', 'C', 'Cc', 'IsBasicLatin', 'IsLatin-1Supplement',
        'IsArabic', 'IsGreek']
BAD_ESC = ['\\a', '\\f', '\\v', '\\e', '\\q', '\\_', '\\:', '\\ ', '\\#', '\\&', '\\=', '\\,', '\\0', '\\b', '\\A', '\\Z',
           '\\x41', '\\u0041', '\\p{Xx}', '\\p{IsFoo}', '\\pL', '\\/', '\\~', '\\"', '\\<',
           # blanks inside a category/block name are only dropped under the x flag
           '\\p{L u}', '\\P{ Nd }', '\\p{Is BasicLatin}', '\\p{ L}', '\\P{Lu }', '\\p{IsBasic Latin}']


class Gen:
    def __init__(self, r, mode, ascii_only=False, clean=False):
        self.r = r
        self.xpath = mode == 'xpath'
        self.lits = LIT_ASCII if ascii_only else LIT
        self.ascii = ascii_only
        self.clean = clean        # no deliberately invalid material
        self.groups = 0           # capturing groups closed so far
        self.open = 0

    def lit_out(self):
        r = self.r
        c = r.choice(self.lits)
        if c == '\n' and r.random() < 0.5:
            return '\\n'
        if c in META_OUT:
            if self.clean or r.random() < 0.85:
                if c == '$' and not self.xpath:
                    return 'a'
                return '\\' + c
            return c
        if c == '-' and r.random() < 0.3:
            return '\\-'
        return c

    def class_char(self, c):
        if c in '\\[]':
            return '\\' + c
        if c == '-':
            return '\\-'
        if c == '\n':
            return self.r.choice(['\n', '\\n'])
        if c == '\t':
            return '\\t'
        if c in '^|+.' and self.r.random() < 0.5:
            return '\\' + c
        if c == '$' and self.xpath and self.r.random() < 0.5:
            return '\\$'
        return c

    def gclass(self, nest=0, positive_only=False):
        """positive_only: no negation / negative escapes (the library intersects a large positive
        minuend with a negated subtrahend one code point at a time: seconds per pattern)"""
        r = self.r
        neg = r.random() < 0.4 and not positive_only
        parts = []
        big = False
        for _ in range(r.choice([1, 1, 2, 2, 3, 4])):
            x = r.random()
            if positive_only and 0.62 <= x < 0.82:
                x = 0.5
            if positive_only and x >= 0.92:
                x = 0.85
            if x < 0.28:
                parts.append(self.class_char(r.choice(self.lits)))
            elif x < 0.48:
                ends = [e for e in RANGE_ENDS if ord(e) < 128] if self.ascii else RANGE_ENDS
                a, b = r.choice(ends), r.choice(ends)
                if ord(a) > ord(b) and (self.clean or r.random() < 0.97):
                    a, b = b, a
                parts.append(self.class_char(a) + '-' + self.class_char(b))
            elif x < 0.62:
                e = r.choice(POS_ESC)
                big = big or e in ('\\w', '\\i', '\\c')
                parts.append(e)
            elif x < 0.82:
                e = r.choice(NEG_ESC)
                big = big or e in ('\\W', '\\I', '\\C')
                parts.append(e)
            elif x < 0.92:
                big = True
                parts.append('\\p{%s}' % r.choice(CATS))
            else:
                big = True
                parts.append('\\P{%s}' % r.choice(CATS))
        x = r.random()
        if x < 0.08:
            parts.insert(0, '-')
        elif x < 0.16:
            parts.append('-')
        elif x < 0.19 and not self.clean:
            parts.insert(r.randint(0, len(parts)), r.choice(['-', '[', '--', 'a-\\d', '\\1', '\\q', '']))
        body = ''.join(parts)
        if not self.clean and r.random() < 0.02:
            body = ''
        s = '[' + ('^' if neg else '') + body
        if nest < 2 and r.random() < (0.3 if nest == 0 else 0.2):
            s += '-' + self.gclass(nest + 1, positive_only or big)
        if not self.clean and r.random() < 0.015:
            return s
        return s + ']'

    def quant(self):
        r = self.r
        x = r.random()
        if x < 0.55:
            q = r.choice('?*+')
        else:
            n = r.choice([0, 1, 1, 2, 2, 3])
            y = r.random()
            if y < 0.35:
                q = '{%d}' % n
            elif y < 0.55:
                q = '{%d,}' % n
            else:
                m = n + r.choice([0, 1, 2])
                if not self.clean and r.random() < 0.03:
                    m = max(0, n - 1)
                q = '{%d,%d}' % (n, m)
            if not self.clean and r.random() < 0.04:
                q = r.choice(['{', '{,2}', '{1', '{a}', '{1,2', '}', '{}'])
        if r.random() < (0.25 if self.xpath else (0 if self.clean else 0.03)):
            q += '?'
        if not self.clean and r.random() < 0.02:
            q += r.choice('*+?{')
        return q

    def atom(self, depth):
        r = self.r
        x = r.random()
        if x < 0.30:
            return self.lit_out()
        if x < 0.36:
            return '.'
        if x < 0.64:
            return self.gclass()
        if x < 0.72:
            return r.choice(POS_ESC + NEG_ESC)
        if x < 0.76:
            return '\\%s{%s}' % (r.choice('pP'), r.choice(CATS))
        if x < 0.86 and depth < 3:
            if self.xpath and r.random() < 0.2:
                return '(?:' + self.regexp(depth + 1) + ')'
            self.open += 1
            s = '(' + self.regexp(depth + 1) + ')'
            self.open -= 1
            self.groups += 1
            return s
        if x < 0.905 and self.xpath:
            return r.choice('^$')
        if x < 0.96 and self.xpath:
            if self.groups and (self.clean or r.random() < 0.9):
                n = r.randint(1, self.groups)
                return '\\%d' % n + ('0' if r.random() < 0.1 else '')
            if not self.clean:
                return '\\%d' % r.randint(1, 3)
            return 'a'
        if not self.clean:
            if r.random() < 0.7:
                return r.choice(BAD_ESC)
            return r.choice([')', ']', '}', '{', '(?=a)', '(?i)', '*', '\\'])
        return self.lit_out()

    def piece(self, depth):
        a = self.atom(depth)
        if self.r.random() < 0.3:
            a += self.quant()
        return a

    def branch(self, depth):
        n = self.r.choice([0, 1, 1, 1, 2, 2, 3]) if depth else self.r.choice([1, 1, 2, 2, 3, 3, 4])
        return ''.join(self.piece(depth) for _ in range(n))

    def regexp(self, depth=0):
        s = self.branch(depth)
        while self.r.random() < 0.18:
            s += '|' + self.branch(depth)
        return s


MUT_CHARS = '()[]{}?*+|\\^$-,01a '


def mutate(r, p):
    if not p:
        return r.choice(MUT_CHARS)
    i = r.randrange(len(p))
    x = r.random()
    if x < 0.4:
        return p[:i] + p[i + 1:]
    if x < 0.8:
        return p[:i] + r.choice(MUT_CHARS) + p[i:]
    return p[:i] + p[i] + p[i:]


def g_flags(r):
    x = r.random()
    if x < 0.45:
        return ''
    if x < 0.85:
        return r.choice('smix')
    return ''.join(sorted(r.sample('smix', 2)))


def add_x_whitespace(r, p):
    for _ in range(r.randint(1, 3)):
        i = r.randint(0, len(p))
        p = p[:i] + r.choice([' ', ' ', '\n', '\t']) + p[i:]
    return p


def sample(rx, r, alphabet):
    """a string that is likely to match (anchors ignored)"""
    caps = {}

    def pick(node):
        r.shuffle(cands)
        for ch in cands:
            try:
                if rx.atom_contains(node, ch):
                    return ch
            except M.Undecided:
                continue
        return ''

    cands = list(alphabet)

    def go(node):
        k = node[0]
        if k == 'char':
            return node[1]
        if k in ('any', 'esc', 'cat', 'class'):
            return pick(node)
        if k == 'seq':
            return ''.join(go(x) for x in node[1])
        if k == 'alt':
            return go(r.choice(node[1]))
        if k == 'group':
            s = go(node[2])
            if node[1] is not None:
                caps[node[1]] = s
            return s
        if k == 'rep':
            lo, hi = node[2], node[3]
            top = lo + 2 if hi is None else min(hi, lo + 2)
            return ''.join(go(node[1]) for _ in range(r.randint(lo, top)))
        if k == 'backref':
            return caps.get(node[1], '')
        return ''
    return go(rx.root)


def g_subjects(r, p, mode, ver, flags, nrandom=10):
    alphabet = ASCII_SUBJ if 'i' in flags else SUBJ
    subs = ['']
    subs.extend(alphabet)
    try:
        rx = M.parse(p, gmode(mode), ver, flags)
    except (M.Invalid, M.Undecided):
        rx = None
    for _ in range(nrandom):
        if rx is not None and r.random() < 0.75:
            s = sample(rx, r, alphabet)
            x = r.random()
            if x < 0.25 and s:
                i = r.randrange(len(s))
                s = s[:i] + r.choice(alphabet) + s[i + 1:]
            elif x < 0.4:
                s = r.choice(alphabet) + s
            elif x < 0.55:
                s = s + r.choice(alphabet)
            elif x < 0.62:
                s = s + '\n'
        else:
            s = ''.join(r.choice(alphabet) for _ in range(r.randint(2, 5)))
        if len(s) <= 10:
            subs.append(s)
    seen, out = set(), []
    for s in subs:
        if s not in seen:
            seen.add(s)
            out.append(s)
    return out


def gmode(mode):
    """grammar of a mode: 'xpath-anchored' is the XPath grammar (groups, back-references, lazy quantifiers) translated
    with anchors=False, i.e. matched against the whole subject; its patterns carry no '^'/'$' and no flags"""
    return 'xpath' if mode == 'xpath-anchored' else mode


def g_translate_case(r):
    x = r.random()
    mode = 'xpath' if x < 0.55 else 'xsd' if x < 0.9 else 'xpath-anchored'
    ver = '1.0' if r.random() < 0.6 else '1.1'
    flags = g_flags(r) if mode == 'xpath' else ''
    g = Gen(r, gmode(mode), ascii_only='i' in flags, clean=r.random() < 0.5 or mode == 'xpath-anchored')
    p = g.regexp()
    if mode == 'xpath-anchored':
        for _ in range(20):
            # (back-references are left to ONE directed case: the capturing wrapper that shifts them is pinned by
            # the repository's tests and listed as a finding)
            if '^' not in p and '$' not in p and not re.search(r'\\[1-9]', p):
                break
            p = g.regexp()
        else:
            mode = 'xpath'
    if not g.clean and r.random() < 0.25:
        p = mutate(r, p)
    if 'x' in flags and r.random() < 0.7:
        p = add_x_whitespace(r, p)
    return {'p': p, 'flags': flags, 'ver': ver, 'mode': mode, 'subjects': g_subjects(r, p, mode, ver, flags)}


def g_functions_case(r):
    x = r.random()
    flags = '' if x < 0.5 else (r.choice('smixq') if x < 0.8 else ''.join(r.sample('smixq', r.choice([2, 2, 3]))))
    asc = 'i' in flags
    g = Gen(r, 'xpath', ascii_only=asc, clean=r.random() < 0.85)
    p = g.regexp()
    if 'q' in flags:
        p = r.choice([p, ''.join(r.choice(['a', 'b', '.', '*', '\\', '(', '[', ' ', '-', '$', '1', '\\d', '#', '&'])
                                for _ in range(r.randint(1, 3)))])
    elif 'x' in flags and r.random() < 0.5:
        p = add_x_whitespace(r, p)
    alphabet = ASCII_SUBJ if asc else SUBJ
    try:
        rx = M.parse(p, 'xpath', '1.0', flags)
    except (M.Invalid, M.Undecided):
        rx = None
    parts = []
    for _ in range(r.randint(1, 3)):
        if r.random() < 0.6:
            parts.append(''.join(r.choice(alphabet) for _ in range(r.randint(0, 2))))
        if rx is not None:
            parts.append(sample(rx, r, alphabet))
    if r.random() < 0.5:
        parts.append(''.join(r.choice(alphabet) for _ in range(r.randint(0, 2))))
    s = ''.join(parts)[:12]
    if r.random() < 0.03:
        s = ''
    return {'s': s, 'p': p, 'flags': flags}


GROUP_PIECES = ['a', 'b', 'c', 'x', '(a)', '(b?)', '(c*)', '(x?)', '((a)|b)', '(a|)', '(b?)?', '((x?)c)', '(a(b?))',
                '(?:b?)', '(x*)(c?)', 'a?', '.', '(.?)']


def g_group_shape_case(r):
    """capturing groups that take part in a match with an EMPTY capture, preceded/followed by ungrouped text"""
    p = ''.join(r.choice(GROUP_PIECES) for _ in range(r.randint(2, 5)))
    try:
        rx = M.parse(p, 'xpath', '1.0', '')
    except (M.Invalid, M.Undecided):
        rx = None
    parts = []
    for _ in range(r.randint(1, 3)):
        if r.random() < 0.5:
            parts.append(''.join(r.choice('abcx') for _ in range(r.randint(0, 2))))
        if rx is not None:
            parts.append(sample(rx, r, ASCII_SUBJ))
    s = ''.join(parts)[:12]
    return {'s': s, 'p': p, 'flags': ''}


# ============================================================================ engine side
def _translate(p, flags, ver, mode):
    fl = 0
    for c in flags:
        fl |= PYFLAG[c]
    try:
        if mode == 'xpath':
            t = translate_pattern(p, fl, ver)
        elif mode == 'xpath-anchored':
            t = translate_pattern(p, fl, ver, True, True, False)
        else:
            t = translate_pattern(p, 0, ver, False, False, False)
    except RegexError as e:
        return ('regexerror', str(e))
    try:
        with warnings.catch_warnings():
            warnings.simplefilter('ignore')
            return ('ok', re.compile(t, fl), t)
    except re.error as e:
        return ('late', 're.error: %s' % e, t)
    except (OverflowError, RecursionError) as e:
        return ('late', type(e).__name__, t)


_CACHE = {}


def eng_compile(p, flags, ver, mode):
    """('ok', compiled, text) | ('regexerror', msg) | ('late', msg, text) | ('exc', type, where)
    (memoised: translate_pattern is a pure function of its arguments and costs ~10 ms on classes)"""
    k = (p, flags, ver, mode)
    hit = _CACHE.get(k)
    if hit is not None:
        return hit
    r = call(_translate, p, flags, ver, mode)
    if r[0] == 'ok':
        r = r[1]
    elif r[0] == 'err':
        r = ('exc', r[2], 'code=' + r[1])
    if len(_CACHE) > 4000:
        _CACHE.clear()
    _CACHE[k] = r
    return r


def eng_match(comp, s):
    return comp[1].search(s) is not None


def model_parse(p, mode, ver, flags):
    """('valid', rx) | ('invalid', reason) | ('undecided', reason)"""
    try:
        return ('valid', M.parse(p, gmode(mode), ver, flags))
    except M.Invalid as e:
        return ('invalid', e.reason)
    except M.Undecided as e:
        return ('undecided', e.reason)
    except RecursionError:
        return ('undecided', 'model-recursion')


def model_match(rx, s, mode):
    """True | False | None (undecided)"""
    for ch in s:
        if ch not in SUBJ_SET and not (ch.isascii() and ch.isprintable()):
            return None
    try:
        return rx.search(s) if mode == 'xpath' else rx.fullmatch(s)
    except M.Undecided:
        return None
    except RecursionError:
        return None


# ============================================================================ diagnosis (only on the failure path)
PART_KIND = {'c': 'char', 'r': 'range', 'esc': 'esc', 'cat': 'cat'}


def part_src(part):
    k = part[0]

    def ch(c, escaped):
        if c == '\n' and escaped:
            return '\\n'
        if c == '\r' and escaped:
            return '\\r'
        if c == '\t' and escaped:
            return '\\t'
        return ('\\' + c) if escaped else c
    if k == 'c':
        return ch(part[1], part[2])
    if k == 'r':
        return None
    if k == 'esc':
        return '\\' + (part[1].upper() if part[2] else part[1])
    return '\\%s{%s}' % ('P' if part[2] else 'p', part[1])


def class_sig(node):
    """structural signature of a (minimised) class: literal parts are 'single', positive escapes and
    categories 'pos-set', negative ones 'neg-set'; escapes that have their own parsing path keep a name"""
    _, neg, parts, sub = node
    kinds = set()
    for part in parts:
        k = part[0]
        if k == 'c':
            if part[2] and part[1] in '$\\':
                kinds.add({'$': 'escaped-dollar', '\\': 'escaped-backslash'}[part[1]])
            else:
                kinds.add('single')
        elif k == 'r':
            kinds.add('range-escaped-start' if part[4] else ('range-escaped-end' if part[3] else 'single'))
        else:
            kinds.add('neg-set' if part[2] else 'pos-set')
    s = ('^' if neg else '') + '+'.join(sorted(kinds))
    if sub is not None:
        s += '-[' + class_sig(sub) + ']'
    return s


def class_has_category(node):
    return any(p[0] == 'cat' for p in node[2]) or (node[3] is not None and class_has_category(node[3]))


def class_sources(src):
    """split the source of a class expression into (neg, [part sources], sub source) textually,
    re-parsing with the model so the pieces are exactly the model's parts"""
    ps = M._Parser(src, 'xpath', '1.1')
    # walk again recording the extents of parts
    i = 1
    neg = src[1:2] == '^'
    if neg:
        i = 2
    ps.i = i
    parts = []
    sub = None
    while True:
        c = src[ps.i]
        if c == ']':
            break
        if c == '-' and src[ps.i + 1:ps.i + 2] == '[':
            sub = src[ps.i + 1:-1]
            break
        start = ps.i
        item = ps.class_item()
        if item[0] == 'c' and ps.peek() == '-' and ps.peek(1) not in ('', ']', '[') and not (item[1] == '-' and not item[2]):
            ps.i += 1
            ps.class_item()
        parts.append(src[start:ps.i])
    return neg, parts, sub


def atom_mismatch(atom_src, flags, ver, mode, alphabet):
    """does the engine disagree with the model on this one-character atom taken alone?
    -> None | ('match', ch, expected, got) | ('rejected', msg)"""
    st = model_parse(atom_src, mode, ver, flags)
    if st[0] != 'valid':
        return None
    comp = eng_compile(atom_src, flags, ver, mode)
    if comp[0] != 'ok':
        return ('rejected', comp[1])
    for ch in alphabet:
        exp = model_match(st[1], ch, mode)
        if exp is None:
            continue
        got = eng_match(comp, ch)
        if got != exp:
            return ('match', ch, exp, got)
    return None


def minimise_class(src, flags, ver, mode, alphabet, want):
    """greedy removal of class parts / subtraction / negation while the engine still disagrees"""
    try:
        neg, parts, sub = class_sources(src)
    except Exception:
        return src

    def build(neg, parts, sub):
        return '[' + ('^' if neg else '') + ''.join(parts) + (('-' + sub) if sub else '') + ']'

    def bad(cand):
        r = atom_mismatch(cand, flags, ver, mode, alphabet)
        return r is not None and r[0] == want

    changed = True
    while changed:
        changed = False
        if sub is not None:
            # try the subtrahend alone, then dropping it
            if bad(sub):
                return minimise_class(sub, flags, ver, mode, alphabet, want)
            if bad(build(neg, parts, None)):
                sub = None
                changed = True
                continue
        for i in range(len(parts)):
            if len(parts) > 1:
                cand = parts[:i] + parts[i + 1:]
                if bad(build(neg, cand, sub)):
                    parts = cand
                    changed = True
                    break
        if not changed and neg and bad(build(False, parts, sub)):
            neg = False
            changed = True
    return build(neg, parts, sub)


def disagrees(p, flags, ver, mode, s, want):
    """does the engine still disagree with the reference on (p, s)?  (reference must decide)"""
    st = model_parse(p, mode, ver, flags)
    if st[0] != 'valid':
        return False
    comp = eng_compile(p, flags, ver, mode)
    if want == 'rejected':
        return comp[0] in ('regexerror', 'late')
    if comp[0] != 'ok':
        return False
    exp = model_match(st[1], s, mode)
    return exp is not None and exp != eng_match(comp, s)


def relevant_flags(p, flags, ver, mode, s, want):
    """flags whose removal makes the disagreement disappear"""
    rel = ''
    for f in flags:
        if not disagrees(p, flags.replace(f, ''), ver, mode, s, want):
            rel += f
    return rel


STRUCT_ORDER = ['backref', 'anchor', 'lazy', 'quantity', 'noncap', 'group', 'alt', 'quant', 'subtraction', 'class',
                'multi-escape', 'cat-escape', 'dot']


def x_whitespace(p, flags, ver, mode, s, want):
    """flag x: the disagreement disappears when the whitespace is removed by hand and x is dropped"""
    if 'x' not in flags:
        return False
    stripped = M.strip_x(p)
    if stripped == p:
        return False
    return not disagrees(stripped, flags.replace('x', ''), ver, mode, s, want)


def diagnose(rx, p, flags, ver, mode, s, want):
    """mechanism key (without the C12/ prefix) for a disagreement on valid pattern p.
    want = 'match' (subject s answered differently) or 'rejected' (engine refuses p)"""
    verb = 'mismatch' if want == 'match' else 'valid-rejected'
    rel = relevant_flags(p, flags, ver, mode, s, want)
    if 'x' in rel:
        if x_whitespace(p, flags, ver, mode, s, want):
            return 'x-flag/whitespace-not-removed'
        if rx.source is not None and '#' in re.sub(r'\\.|\[[^\]]*\]', '', rx.source):
            return 'x-flag/hash-treated-as-comment'
    seen = set()
    for fl in ('', rel) if rel else ('',):
        alphabet = ASCII_SUBJ if 'i' in fl else SUBJ
        for atom in rx.atoms:
            if (atom.src, fl) in seen:
                continue
            seen.add((atom.src, fl))
            r = atom_mismatch(atom.src, fl, ver, mode, alphabet)
            if r is None or r[0] != want:
                continue
            tail = ('/flags=' + fl) if fl else ''
            if atom.kind == 'class':
                small = minimise_class(atom.src, fl, ver, mode, alphabet, want)
                st = model_parse(small, mode, ver, fl)
                node = st[1].atoms[0].node if st[0] == 'valid' and st[1].atoms else None
                if node is not None and 'i' in fl:
                    return 'i-flag/category-escape-in-class' if class_has_category(node) \
                        else 'i-flag/class-algebra-before-case-folding'
                if '\\-\\' in small.replace('\\\\', ''):
                    return 'class/escape-after-escaped-hyphen'
                sig = class_sig(node) if node is not None else 'unparsed'
                return '%s/class/%s%s' % (verb, sig, tail)
            kind = atom.kind
            if kind == 'char':
                kind = 'char/' + ('ascii' if atom.src.isascii() else 'non-ascii')
            return '%s/%s%s' % (verb, kind, tail)
    if want == 'match' and rx.unset_backref_used:
        return 'mismatch/backref-to-unset-group'
    # no single atom explains it: minimise pattern and subject (disagreement-preserving), then name the structure
    q, t = p, s
    budget = 80
    improved = True
    while improved and budget > 0:
        improved = False
        for cand in _shrink_str(q, 20):
            budget -= 1
            if disagrees(cand, rel, ver, mode, t, want):
                q, improved = cand, True
                break
        if not improved and t:
            for cand in list(_shrink_str(t, 10)) + ['']:
                budget -= 1
                if disagrees(q, rel, ver, mode, cand, want):
                    t, improved = cand, True
                    break
    st = model_parse(q, mode, ver, rel)
    feats = st[1].features if st[0] == 'valid' else rx.features
    feat = 'plain'
    for f in STRUCT_ORDER:
        if f in feats:
            feat = f
            break
    tail = ('/flags=' + rel) if rel else ''
    if t is not None and t.endswith('\n') and not disagrees(q, rel, ver, mode, t[:-1], want):
        return '%s/%s/subject-trailing-newline%s' % (mode, verb, tail)
    return '%s/%s/structure/%s%s' % (mode, verb, feat, tail)


def repeated_nested_groups(rx):
    """capturing groups that have an enclosing capturing group and lie inside a repetition (max > 1): after the last
    iteration such a group may keep a capture from an EARLIER iteration, outside the final span of its parent; what
    fn:replace and fn:analyze-string report for it is not determined by F&O (and not comparable between them)"""
    out = set()

    def walk(node, in_rep, has_parent):
        if not isinstance(node, tuple) or not node:
            return
        tag = node[0]
        if tag == 'rep':
            hi = node[3]
            walk(node[1], in_rep or hi is None or hi > 1, has_parent)
        elif tag == 'group':
            idx = node[1]
            if idx is not None and in_rep and has_parent:
                out.add(idx)
            walk(node[2], in_rep, has_parent or idx is not None)
        else:
            for ch in node[1:]:
                if isinstance(ch, tuple):
                    walk(ch, in_rep, has_parent)
                elif isinstance(ch, list):
                    for c2 in ch:
                        walk(c2, in_rep, has_parent)
    walk(rx.root, False, False)
    return out


def x_reason(p, flags):
    """under flag x: which of the two x-flag mechanisms can explain a disagreement, if any"""
    if 'x' not in flags or 'q' in flags:
        return None
    if '#' in re.sub(r'\\.|\[[^\]]*\]', '', p):
        return 'x-flag/hash-treated-as-comment'
    if M.strip_x(p) != p:
        return 'x-flag/whitespace-not-removed'
    return None


def norm_msg(msg):
    msg = re.sub(r"'[^']*'|\"[^\"]*\"|\d+", '', msg)
    words = re.findall(r'[A-Za-z.]+', msg)
    return '-'.join(words[:5]) or 'error'


# ============================================================================ kind 'translate'
def refine_reason(reason, p, ver):
    """split the model's 'unknown-category' by what is wrong with the name, so that one listed deviation
    (an unknown block name is accepted) does not hide another (blanks in a name are ignored)"""
    if reason != 'unknown-category':
        return reason
    names = re.findall(r'\\[pP]\{([^}]*)\}', p)
    for n in names:
        if n != n.strip() or ' ' in n or '\t' in n or '\n' in n:
            blk = n.replace(' ', '').startswith('Is')
            return 'unknown-category/blank-in-name' + ('/block-xsd-%s' % ver if blk else '')
    if any(n.startswith('Is') for n in names):
        return 'unknown-category/block'
    return 'unknown-category/category'


def check_translate(case, out):
    p, flags, ver, mode, subjects = case['p'], case['flags'], case['ver'], case['mode'], case['subjects']
    st = model_parse(p, mode, ver, flags)
    comp = eng_compile(p, flags, ver, mode)
    out.dim('mode', mode)
    out.dim('xsd_version', ver)
    for f in (flags or '-'):
        out.dim('flag', f)
    out.dim('model_status', st[0])
    out.dim('engine_status', comp[0])
    if comp[0] == 'exc':
        out.fail('C12/%s/exception/%s@%s' % (mode, comp[1], comp[2]), {'pattern': p, 'flags': flags, 'xsd_version': ver})
    if st[0] == 'undecided':
        out.dim('undecided', st[1])
        out.nontrivial = False
        out.obs = 'undecided (%s); engine %s' % (st[1], comp[0])
        return
    if st[0] == 'invalid':
        out.dim('invalid_reason', st[1])
        out.obs = 'invalid (%s); engine %s' % (st[1], comp[0])
        if comp[0] == 'ok':
            reason = refine_reason(st[1], p, ver)
            if 'x' in flags and '#' in re.sub(r'\\.|\[[^\]]*\]', '', p):
                reason = 'x-flag/hash-treated-as-comment'
            elif 'x' in flags and M.strip_x(p) != p and \
                    eng_compile(M.strip_x(p), flags.replace('x', ''), ver, mode)[0] != 'ok':
                reason = 'x-flag/whitespace-not-removed'
            out.fail('C12/%s' % (reason if reason.startswith('x-flag/') else 'invalid-accepted/' + reason),
                     {'pattern': p, 'flags': flags, 'xsd_version': ver, 'mode': mode,
                      'expected': 'RegexError (%s)' % st[1], 'got': 'translated to %r' % comp[2][:80]})
        elif comp[0] == 'late':
            out.dim('invalid_detected_by', 're.compile')
            out.fail('C12/invalid-pattern/re.error-instead-of-RegexError',
                     {'pattern': p, 'flags': flags, 'mode': mode, 'expected': 'RegexError (%s)' % st[1],
                      'got': 'translate_pattern returned %r, which re.compile rejects: %s' % (comp[2][:80], comp[1])})
        elif comp[0] == 'regexerror':
            out.dim('invalid_detected_by', 'RegexError')
            out.dim('agreed_invalid', st[1])
        return
    rx = st[1]
    for f in sorted(rx.features) or ['plain']:
        out.dim('feature', f)
    for a in rx.atoms:
        if a.kind == 'class':
            out.dim('class_shape', class_sig(a.node))
    if comp[0] in ('regexerror', 'late'):
        key = diagnose(rx, p, flags, ver, mode, None, 'rejected')
        if '/structure/' in key:
            key += '/' + norm_msg(comp[1])
        out.fail('C12/' + key, {'pattern': p, 'flags': flags, 'xsd_version': ver, 'mode': mode,
                                'expected': 'valid pattern', 'got': comp[1]})
        out.obs = 'valid; engine rejects: %s' % comp[1][:60]
        return
    if comp[0] != 'ok':
        return
    answers = set()
    keys = set()
    ncmp = 0
    for s in subjects:
        exp = model_match(rx, s, mode)
        if exp is None:
            out.dim('undecided', 'subject')
            continue
        got = eng_match(comp, s)
        ncmp += 1
        answers.add(exp)
        if got != exp:
            if len(keys) >= 3:
                continue
            key = diagnose(rx, p, flags, ver, mode, s, 'match')
            if key in keys:
                continue
            keys.add(key)
            out.fail('C12/' + key, {'pattern': p, 'flags': flags, 'xsd_version': ver, 'mode': mode, 'subject': s,
                                    'expected': exp, 'got': got,
                                    'translated': comp[2][:120].encode('unicode_escape').decode('ascii')})
    out.dim('subject_comparisons', mode, ncmp)
    out.dim('answers', '+'.join(sorted(str(a) for a in answers)) or 'none')
    out.nontrivial = len(answers) == 2
    out.obs = 'valid; %d subjects compared, answers %s, %d disagreement keys' % (ncmp, sorted(answers), len(keys))


# ============================================================================ kind 'functions'
def fn_call(expr, s, p, f, extra=None):
    v = {'s': s, 'p': p, 'f': f}
    if extra:
        v.update(extra)
    return call(xselect, expr, '3.1', ROOT, variables=v)


def unwrap(v):
    if isinstance(v, list) and len(v) == 1:
        return v[0]
    return v


def text_of(e):
    return ''.join(e.itertext())


def check_functions(case, out):
    s, p, flags = case['s'], case['p'], case['flags']
    st = model_parse(p, 'xpath', '1.0', flags)
    out.dim('fn_model_status', st[0])
    for f in (flags or '-'):
        out.dim('fn_flag', f)
    ctx = {'s': s, 'pattern': p, 'flags': flags}
    rm = fn_call('matches($s,$p,$f)', s, p, flags)
    rr = fn_call('replace($s,$p,"$0",$f)', s, p, flags)
    rt = fn_call('tokenize($s,$p,$f)', s, p, flags)
    ra = fn_call('analyze-string($s,$p,$f)', s, p, flags)
    results = {'matches': rm, 'replace': rr, 'tokenize': rt, 'analyze-string': ra}
    out.nontrivial = False
    markup = '<' in s or '&' in s
    for name in ('matches', 'replace', 'tokenize', 'analyze-string'):
        r = results[name]
        if r[0] == 'exc':
            if name == 'analyze-string' and markup and r[1] == 'ParseError':
                out.fail('C12/analyze-string/result-built-from-xml-text/markup',
                         dict(ctx, got='%s at %s' % (r[1], r[2]), expected='result tree with the text escaped'))
            else:
                out.fail('C12/functions/exception/%s/%s@%s' % (name, r[1], r[2]), ctx)
        out.dim('fn_outcome:' + name, r[0] if r[0] != 'err' else r[1])

    if st[0] == 'invalid':
        out.obs = 'invalid pattern (%s): %s' % (st[1], {k: (v[0] if v[0] != 'err' else v[1]) for k, v in results.items()})
        for name, r in results.items():
            if r[0] == 'ok':
                xr = x_reason(p, flags)
                if xr and fn_call('matches($s,$p,$f)', s, M.strip_x(p), flags.replace('x', ''))[0] == 'ok':
                    xr = None
                out.fail('C12/%s' % (xr or 'invalid-accepted/' + refine_reason(st[1], p, '1.0')),
                         dict(ctx, function=name, expected='FORX0002', got='a result'))
                break
            if r[0] == 'err' and r[1] != 'FORX0002':
                out.fail('C12/functions/invalid-pattern-error-code/%s/%s' % (name, r[1]), dict(ctx, expected='FORX0002'))
        out.nontrivial = True
        return

    rx = st[1] if st[0] == 'valid' else None
    if st[0] == 'undecided':
        out.dim('undecided', st[1])
    # ---- fn:matches against the reference
    exp = empty = None
    if rx is not None:
        for name, r in results.items():
            if r[0] == 'err' and r[1] == 'FORX0002':
                key = diagnose(rx, p, flags, '1.0', 'xpath', None, 'rejected') if 'q' not in flags \
                    else ('functions/q-flag/with-x-flag' if 'x' in flags else 'functions/q-flag/valid-rejected')
                out.fail('C12/' + key, dict(ctx, function=name, expected='valid pattern', got='FORX0002'))
                break
        exp = model_match(rx, s, 'xpath')
        unset_s = rx.unset_backref_used
        rx.unset_backref_used = False
        empty = model_match(rx, '', 'xpath')
        unset_e = rx.unset_backref_used
        if exp is not None and rm[0] == 'ok':
            got = bool(unwrap(rm[1]))
            out.dim('fn_matches_compared', exp)
            if got != exp:
                if 'q' in flags:
                    key = 'functions/q-flag/with-x-flag' if 'x' in flags else 'functions/q-flag/mismatch'
                else:
                    rx.unset_backref_used = unset_s
                    key = diagnose(rx, p, flags, '1.0', 'xpath', s, 'match')
                out.fail('C12/' + key, dict(ctx, function='matches', expected=exp, got=got))
    # ---- zero-length matches
    three = ('replace', 'tokenize', 'analyze-string')
    forx3 = [n for n in three if results[n][0] == 'err' and results[n][1] == 'FORX0003']
    if empty is True:
        out.dim('fn_zero_length', 'yes')
        for n in three:
            if results[n][0] == 'ok':
                xr = x_reason(p, flags)
                out.fail('C12/' + (xr or ('mismatch/backref-to-unset-group' if unset_e else 'functions/FORX0003-missing')),
                         dict(ctx, function=n, expected='FORX0003 (pattern matches the zero-length string)', got='a result'))
                break
        out.obs = 'pattern matches the empty string: %s' % forx3
        return
    if empty is False and forx3:
        xr = x_reason(p, flags)
        out.fail('C12/' + (xr or 'functions/FORX0003-spurious'),
                 dict(ctx, functions=forx3, expected='a result'))
        return
    if forx3:
        if len(forx3) != 3 and all(results[n][0] in ('ok', 'err') for n in three):
            out.fail('C12/functions/FORX0003-inconsistent', dict(ctx, raised_by=forx3))
        return
    # ---- engine-only consistency
    if ra[0] != 'ok':
        return
    res = unwrap(ra[1])
    if not hasattr(res, 'itertext'):
        out.fail('C12/analyze-string/result-not-an-element', dict(ctx, got=repr(res)[:80]))
        return
    children = [(ch.tag.replace(FN_NS, ''), text_of(ch), ch) for ch in res]
    out.dim('fn_analyze_checked', 'yes')
    nmatch = sum(1 for c in children if c[0] == 'match')
    out.nontrivial = nmatch > 0
    out.obs = 'analyze-string: %s' % [(c[0], c[1]) for c in children][:6]
    if any(c[0] not in ('match', 'non-match') for c in children):
        out.fail('C12/analyze-string/unexpected-child', dict(ctx, got=[c[0] for c in children]))
    if ''.join(c[1] for c in children) != s:
        if '\r' in s and ''.join(c[1] for c in children) == s.replace('\r\n', '\n').replace('\r', '\n'):
            out.fail('C12/analyze-string/result-built-from-xml-text/carriage-return',
                     dict(ctx, got=[(c[0], c[1]) for c in children], expected='#xD preserved'))
        else:
            out.fail('C12/analyze-string/parts-do-not-concatenate', dict(ctx, got=[(c[0], c[1]) for c in children]))
        return
    if rm[0] == 'ok' and bool(unwrap(rm[1])) != (nmatch > 0):
        out.fail('C12/functions/matches-vs-analyze-string', dict(ctx, matches=unwrap(rm[1]), match_elements=nmatch))
    if rx is not None:
        shape = 'capturing-groups' if rx.ngroups else ('anchors' if 'anchor' in rx.features else 'plain')
    else:
        bare = re.sub(r'\\.|\[[^\]]*\]', '', p)
        shape = 'capturing-groups' if re.search(r'\((?!\?)', bare) else ('anchors' if re.search(r'[$^]', bare) else 'plain')
    if rt[0] == 'ok':
        toks = rt[1] if isinstance(rt[1], list) else [rt[1]]
        expect = []
        if s:
            cur = ''
            for kind, text, _ in children:
                if kind == 'match':
                    expect.append(cur)
                    cur = ''
                else:
                    cur = text
            expect.append(cur)
        out.dim('fn_tokenize_compared', shape)
        if [str(t) for t in toks] != expect:
            out.fail('C12/functions/tokenize-vs-analyze-string/%s' % shape,
                     dict(ctx, expected=expect, got=[str(t) for t in toks]))
    if rr[0] == 'ok':
        repl = '$0' if 'q' in flags else None
        expect = ''.join(text if kind != 'match' or repl is None else repl for kind, text, _ in children)
        out.dim('fn_replace_compared', 'q' if repl else '$0')
        got = unwrap(rr[1])
        if got != expect and not (rr[1] == [] and expect == ''):
            if repl and '\\' in s:
                key = 'replace-q-flag/backslash-in-input'
            elif repl:
                key = 'replace-q-flag/not-literal'
            elif got == expect.replace('\\$', '$'):
                key = 'replace/unescaping-applied-to-input-text'
            else:
                key = 'replace/dollar0-not-identity'
            out.fail('C12/functions/' + key, dict(ctx, expected=expect, got=got))
    # ---- groups of analyze-string vs replace('$N') on the matched substring, nesting vs the pattern
    if rx is None or not rx.ngroups or 'q' in flags or 'anchor' in rx.features or rx.ngroups > 9:
        return
    done = 0
    for kind, text, elem in children:
        if kind != 'match':
            continue
        done += 1
        if done > 2:
            break
        found = {}
        bad_nest = None

        def walk(e, parent_nr):
            nonlocal bad_nest
            for g in e:
                if g.tag != FN_NS + 'group':
                    bad_nest = 'unexpected element %s' % g.tag
                    continue
                try:
                    nr = int(g.get('nr'))
                except (TypeError, ValueError):
                    bad_nest = 'bad nr'
                    continue
                found[nr] = text_of(g)
                if rx.parent.get(nr, 'missing') != parent_nr:
                    bad_nest = 'group %s is inside %s, the pattern nests it in %s' % (nr, parent_nr, rx.parent.get(nr))
                walk(g, nr)
        walk(elem, None)
        out.dim('fn_group_matches_checked', 'yes')
        if bad_nest:
            out.fail('C12/analyze-string/group-nesting', dict(ctx, match=text, got=bad_nest,
                                                             xml=ET.tostring(elem, encoding='unicode')[:200]))
        for n in range(1, rx.ngroups + 1):
            rc = fn_call('replace($s,$p,$r,$f)', text, p, flags, {'r': '$%d' % n})
            if rc[0] != 'ok':
                break
            cap = unwrap(rc[1])
            cap = '' if cap == [] else cap
            if n in found:
                if found[n] != cap and '\\' in text and found[n].replace('\\', '') == cap.replace('\\', ''):
                    # fn:replace un-escapes backslashes of the INPUT text (listed finding), analyze-string is right
                    out.fail('C12/functions/replace/unescaping-applied-to-input-text',
                             dict(ctx, match=text, group=n, analyze_string=found[n], replace=cap))
                    break
                if found[n] != cap:
                    out.fail('C12/functions/analyze-string-group-vs-replace',
                             dict(ctx, match=text, group=n, analyze_string=found[n], replace=cap))
                    break
            elif cap != '' and n in repeated_nested_groups(rx):
                out.dim('undecided', 'stale-capture-of-a-group-inside-a-repeated-group')
            elif cap != '':
                # under the x flag the listed x-flag mechanisms change which groups the engine's pattern has
                out.fail('C12/' + (x_reason(p, flags) or 'functions/analyze-string-group-missing'),
                         dict(ctx, match=text, group=n, replace=cap, xml=ET.tostring(elem, encoding='unicode')[:200]))
                break


# ============================================================================ harness interface
def engine_only(kind, case):
    """the engine's share of a case: one translation / one call of each function"""
    if kind == 'translate':
        eng_compile(case['p'], case['flags'], case['ver'], case['mode'])
    elif kind == 'functions':
        for e in ('matches($s,$p,$f)', 'tokenize($s,$p,$f)', 'analyze-string($s,$p,$f)'):
            fn_call(e, case['s'], case['p'], case['flags'])


def check_case(kind, case):
    out = Outcome()
    if kind == 'translate':
        check_translate(case, out)
    elif kind == 'functions':
        check_functions(case, out)
    return out


def _shrink_str(p, limit=14):
    n = len(p)
    k = 0
    for size in (n // 2, n // 4, 3, 2, 1):
        if size < 1 or size >= n:
            continue
        for i in range(0, n - size + 1, max(1, size)):
            yield p[:i] + p[i + size:]
            k += 1
            if k >= limit:
                return


def shrink(kind, case):
    if kind == 'translate':
        subs = case['subjects']
        if len(subs) > 1:
            for s in subs:
                yield dict(case, subjects=[s])
            return
        for f in case['flags']:
            yield dict(case, flags=case['flags'].replace(f, ''))
        for q in _shrink_str(case['p']):
            yield dict(case, p=q)
        for s in subs:
            for t in _shrink_str(s):
                yield dict(case, subjects=[t])
            if len(s) == 1:
                yield dict(case, subjects=[''])
    elif kind == 'functions':
        for f in case['flags']:
            yield dict(case, flags=case['flags'].replace(f, ''))
        for q in _shrink_str(case['p']):
            yield dict(case, p=q)
        for t in _shrink_str(case['s']):
            yield dict(case, s=t)
        if len(case['s']) == 1:
            yield dict(case, s='')


# hand-written seeds: the class algebra named in the property statement and the F&O examples
SEED_TRANSLATE = [
    ('\\p{L u}', '', 'xpath'), ('\\P{ Nd }', '', 'xpath'), ('\\p{Is BasicLatin}', '', 'xpath'), ('\\p{L u}', 'x', 'xpath'),
    ('a\\p{Lu }b', '', 'xsd'), ('\\p{ L}+', 'i', 'xpath'),
    ('[^a\\D]', '', 'xpath'), ('[^5\\D]', '', 'xsd'), ('[^\\D\\S]', '', 'xsd'), ('[\\D\\S]', '', 'xsd'),
    ('[\\d-[^5]]', '', 'xsd'), ('[^\\W-[^a\\D]]', '', 'xpath'), ('[\\w-[^\\d]]', '', 'xsd'), ('[^a-[\\D]]', '', 'xsd'),
    ('[a-z-[aeiou]]', '', 'xsd'), ('[A-Z-[IO]]', 'i', 'xpath'), ('[^Q]', 'i', 'xpath'), ('([ab])[5a]\\1', 'i', 'xpath'),
    ('\\p{Lu}', 'i', 'xpath'), ('(a)|b\\1', '', 'xpath'), ('^a$', 'm', 'xpath'), ('a.b', 's', 'xpath'), ('a.b', '', 'xsd'),
    ('a b', 'x', 'xpath'), ('[a b]', 'x', 'xpath'), ('\\s', '', 'xsd'), ('\\w', '', 'xsd'), ('\\W', '', 'xpath'),
    ('\\i\\c*', '', 'xsd'), ('[\\i-[:]][\\c-[:]]*', '', 'xsd'), ('a{2,3}', '', 'xsd'), ('(ab|a)(bc|c)?', '', 'xpath'),
    ('a*?b', '', 'xpath'), ('(?:a|b)+', '', 'xpath'), ('(a)\\10', '', 'xpath'), ('[\\n-a]', '', 'xsd'), ('[\\$]', '', 'xpath'),
    ('a}', '', 'xpath'), ('\\$', '', 'xsd'), ('^a', '', 'xsd'), ('a$', '', 'xsd'),
]


SEED_TRANSLATE += [
    # one witness per mechanism seen on the unchanged tree, so that the set of keys does not depend on the seed
    ('[\\\\s]', '', 'xsd'), ('[\\-\\d]', '', 'xsd'), ('[ -\\-\\S]', '', 'xsd'), ('[a-\\n]', '', 'xsd'), ('[\\t-\\n]', '', 'xsd'),
    ('[\\p{Ll}]', 'i', 'xpath'), ('[^9-a]', 'i', 'xpath'), ('[Aa-[a]]', 'i', 'xpath'), ('a#b', 'x', 'xpath'), ('a {2}', 'x', 'xpath'),
    ('a{1, 2}', 'x', 'xpath'), ('a b', 'x', 'xpath'), ('\\ d', 'x', 'xpath'), ('\\_', '', 'xpath'), ('\\a', '', 'xsd'),
    ('[\\q]', '', 'xsd'), ('[\\p]', '', 'xsd'), ('\\0', '', 'xpath'), ('[a-[b]c', '', 'xsd'), ('[a-[b]', '', 'xsd'),
    ('\\q', '', 'xsd'), ('\\1(a)', '', 'xpath'), ('(a\\1)', '', 'xpath'), ('\\p{Is}', '', 'xsd'), ('a\\', '', 'xsd'),
    ('#\\2', 'x', 'xpath'), ('\\\t1[_]', 'x', 'xpath'), ('[\\-\\P{L}#]', '', 'xsd'), ('[\n-\\-\\c]', '', 'xsd'), ('[\\\\-\\s]', '', 'xsd'),
]
SEED_TRANSLATE += [
    # negated and positive category/block escapes outside a class under the i flag: the flag folds literals, never the
    # members of a category, so the complement must not be folded either (only the positive form was directed before)
    ('\\P{Lu}', 'i', 'xpath'), ('\\P{Ll}', 'i', 'xpath'), ('\\P{L}', 'i', 'xpath'), ('\\P{Nd}', 'i', 'xpath'),
    ('\\P{IsBasicLatin}', 'i', 'xpath'), ('a\\P{Lu}b', 'i', 'xpath'), ('\\P{Lu}\\p{Ll}', 'i', 'xpath'),
    ('\\P{Ll}+', 'is', 'xpath'), ('(\\P{Lu})\\1', 'i', 'xpath'), ('\\p{Ll}\\P{Ll}', 'im', 'xpath'),
    ('\\P{Lu}', '', 'xpath'), ('\\P{Lu}', '', 'xsd'), ('\\p{IsBasicLatin}\\P{Lu}', 'ix', 'xpath'),
]
SEED_FUNCTIONS = [
    ('aBc', '\\P{Ll}', 'i'), ('aBc', '\\P{Lu}', 'i'), ('aBc1', '\\P{L}', 'i'), ('xAby', 'a\\P{Lu}', 'i'),
    ('1ab2ab', '(a)(b)', ''), ('1ab2', '(a)b', ''), ('aa', '^a', ''), ('abc', '(a(b)?c)', ''), ('abcd', '((a)(b))((c)(d))', ''),
    ('1<2', '1', ''), ('a&b', 'b', ''), ('a\rb', 'b', ''), ('a\\b', '\\', 'q'), (' a', ' a', 'qx'), ('a.b', '.', 'q'),
    ('\\$x', 'x', ''), ('b', '(a)|b\\1', ''), ('ab', '(a)|\\1', ''), ('abcd', '(ab)|(a)', ''), ('a', '#', 'x'), ('abc', 'b*', ''),
    ('Mum', '([md])[aeiou]\\1', 'i'), ('abracadabra', 'bra', ''), ('abracadabra', 'a.*?a', ''), ('', 'a', ''),
    ('The cat sat', '\\s+', ''), ('a1b22c', '\\d+', ''), ('+', '(()[\\C])', ''), ('ac', 'a((x)|(c))', ''),
    ('ac', 'a(b?)c', ''), ('xacy', 'a(b?)c', ''), ('k=;j=1;', '([a-z])=([0-9]*);', ''), ('aXc', 'a(x?)X(y*)c', ''),
    ('ab', '(x*)a(y*)b(z*)', ''), ('abab', 'a(x?)(y?)b', ''), ('ac', 'a((b?)c)', ''),
    # flag combinations: every letter must take effect in every function
    ('1A\nb2', 'a.b', 'is'), ('1A\nb2', 'a.b', 'si'), ('xAby', 'a b', 'ix'), ('xAby', 'a b', 'xi'), ('Ab\nAB', 'b.a', 'is'),
    ('xA\nby', 'a . b', 'isx'), ('xA\nby', 'a . b', 'xsi'), ('q\nQ', 'q.q', 'smi'),
]


def run(h):
    r = h.rng
    if h.shard == 0:
        for p, flags, mode in SEED_TRANSLATE:
            for ver in ('1.0', '1.1'):
                h.case('translate', {'p': p, 'flags': flags, 'ver': ver, 'mode': mode,
                                     'subjects': g_subjects(h.sub_rng('seed', p, ver), p, mode, ver, flags)})
        for sj, p, flags in SEED_FUNCTIONS:
            h.case('functions', {'s': sj, 'p': p, 'flags': flags})
    if h.shard == 0:
        # multi-digit back-references: \NM is group NM if that many groups are open, else \N followed by M
        letters = 'abcdefghijklmn'
        for n in (9, 10, 11, 12):
            groups = ''.join('(%s)' % c for c in letters[:n])
            for k in sorted({n - 1, n, n + 1, 10, 11}):
                if k < 10:
                    continue
                p = groups + '\\' + str(k)
                subjects = [letters[:n] + letters[k - 1] if k <= n else letters[:n] + letters[k // 10 - 1] + str(k % 10),
                            letters[:n] + letters[0] + str(k % 10), letters[:n] + letters[min(k, n) - 1],
                            letters[:n], letters[:n] + 'zz']
                for ver in ('1.0', '1.1'):
                    h.case('translate', {'p': p, 'flags': '', 'ver': ver, 'mode': 'xpath', 'subjects': subjects})
                h.case('functions', {'s': subjects[0], 'p': p, 'flags': ''})
    if h.shard == 0:
        # anchors=False with the XPath grammar: directed cases, one of them with back-references (listed finding)
        for p, subjects in (('(a)(b)\\2', ['abb', 'aba', 'ab']), ('(a|b)*c', ['abc', 'c', 'abcd', 'xabc']),
                            ('a+?b', ['aab', 'b', 'aabb']), ('(?:ab)+', ['abab', 'aba', '']),
                            ('x(y(z))', ['xyz', 'xy', 'wxyz'])):
            h.case('translate', {'p': p, 'flags': '', 'ver': '1.0', 'mode': 'xpath-anchored', 'subjects': subjects})
    for _ in range(h.n(1300)):
        h.case('translate', g_translate_case(r), cpu=60)
    for _ in range(h.n(230)):
        # translating one pattern with large negated classes takes seconds (set algebra over code point lists) and a
        # functions case translates it a dozen times: slow is not hung, the budget is sized accordingly
        h.case('functions', g_functions_case(r), cpu=120)
    for _ in range(h.n(300)):
        h.case('functions', g_group_shape_case(r), cpu=120)


def floors(v):
    reasons = []
    if v.got('model_status', 'valid') < 400:
        reasons.append('fewer than 400 valid patterns judged by the reference')
    if v.got('agreed_invalid') < 40:
        reasons.append('fewer than 40 invalid patterns rejected by both sides')
    if v.got('mode', 'xpath-anchored') < 50:
        reasons.append('fewer than 50 patterns in the XPath grammar translated with anchors=False')
    if v.got('subject_comparisons', 'xpath') < 3000 or v.got('subject_comparisons', 'xsd') < 3000:
        reasons.append('fewer than 3000 subject comparisons in one of the modes')
    for f in ('class', 'subtraction', 'range', 'backref', 'anchor', 'lazy', 'quantity', 'group', 'alt', 'multi-escape',
              'cat-escape', 'dot', 'noncap'):
        if v.got('feature', f) < 5:
            reasons.append('feature %s in fewer than 5 valid patterns' % f)
    for f in 'smix':
        if v.got('flag', f) < 10:
            reasons.append('flag %s in fewer than 10 translate cases' % f)
    for ver in ('1.0', '1.1'):
        if v.got('xsd_version', ver) < 100:
            reasons.append('XSD %s in fewer than 100 cases' % ver)
    if v.got('class_shape') < 200:
        reasons.append('fewer than 200 character classes in valid patterns')
    if v.got('fn_analyze_checked') < 60:
        reasons.append('fewer than 60 analyze-string results checked')
    if v.got('fn_tokenize_compared') < 60:
        reasons.append('fewer than 60 tokenize results compared')
    if v.got('fn_matches_compared') < 100:
        reasons.append('fewer than 100 fn:matches results compared with the reference')
    return reasons
