"""C07 - comparisons, effective boolean value and logic match the specification tables.

Reference model: rv/models/compare.py (value-space order per type, comparability matrix, untypedAtomic
conversion rules, EBV table, XPath 1.0 comparison rules).  Independent engine for the compatibility-mode
part: libxml2 through lxml.
"""
import math
import xml.etree.ElementTree as ET
from fractions import Fraction

from lxml import etree as LX

from ..core import Outcome
from ..engine import call, PARSERS, describe
from ..models import compare as M
from ..models.compare import UNDECIDED, EITHER, VALUE_OPS, GENERAL_OPS

from elementpath import XPathContext, XPath1Parser, XPath2Parser

PROPERTY = 'C07'
LEVEL = 'exploration'
RULE = ('value comparisons: every ordered pair of 29 atomic type names (type-pair matrix) x >=2 value pairs '
        'from boundary pools x 6 operators x both operand orders, XPath 2.0/3.0/3.1 rotating; general '
        'comparisons: the same matrix with singletons plus homogeneous sequences of length 0-3 per side x 6 '
        'operators; law triples per type (reflexive/antisymmetric/transitive/lt-gt duality, engine against '
        'engine); EBV of sequences of every item kind through boolean/not/if/and/or; and/or over operand '
        'pairs incl. erroring operands; compatibility mode (XPath1Parser, XPath2Parser(compatibility_mode)) '
        'node-set/string/number/boolean operands x 6 operators against libxml2 and the XPath 1.0 rules. '
        'A case is non-trivial when at least one of its comparisons was decided by the oracle; distinct by '
        'canonical JSON of the case.')
ASSUMPTIONS = [
    'rv/models/compare.py (transcription of XPath 2.0/3.1 section 3.5, F&O 3.1 op:* comparison functions, XSD '
    'Part 2 lexical mappings) is the ground truth for non-compatibility mode',
    'date/time operands are either all with an explicit timezone or all without; mixed cases are left to the '
    'implicit-timezone property and counted as undecided',
    'outcomes the specification leaves open (true pair + erroring pair, and/or with an erroring operand that '
    'the other operand makes irrelevant, empty operand next to an erroring one, untypedAtomic vs QName) are '
    'counted as undecided, never as violations',
    'compatibility mode: a violation needs libxml2 and the XPath 1.0 model to agree with each other; strings '
    'whose number() differs between XPath 1.0 and fn:number are not decided for the 2.0 compatibility parser',
    'xs:hexBinary/xs:base64Binary ordering is required only under XPath 3.1 (XPTY0004 before)',
    'default collation is the Unicode code point collation',
]

NS = {'p': 'urn:x', 'q': 'urn:x', 'r': 'urn:y'}
VERSIONS = ('2.0', '3.0', '3.1')

# ------------------------------------------------------------------ value pools
# tname -> list of lexical forms, or {'z': [...with timezone], 'n': [...without]}
POOLS = {
    'integer': ['0', '1', '-1', '2', '10', '16777216', '16777217', '9007199254740992', '9007199254740993',
                '-9007199254740993', '18446744073709551616'],
    'long': ['0', '1', '-1', '9007199254740993', '9223372036854775807'],
    'int': ['0', '1', '-1', '2', '16777217'],
    'unsignedByte': ['0', '1', '2', '255'],
    'nonPositiveInteger': ['0', '-1', '-2', '-16777217'],
    'decimal': ['0', '0.0', '-0.0', '1', '1.0', '1.5', '-1.5', '0.1', '0.3', '0.30000000000000001', '1.00000001',
                '1.1', '16777217', '9007199254740993', '2.5', '10', '0.000000000000000000001', '2',
                '9007199254740992', '9007199254740992.5', '1.00000000000000000001', '-9007199254740993',
                '18446744073709551616'],
    'float': ['0', '-0', '1', '1.1', '1.5', '-1.5', '0.1', '16777216', '16777217', '1.0000001', '1.00000001',
              'INF', '-INF', 'NaN', '3.4028235e38', '1e-37', '2', '10', '0.3'],
    'double': ['0', '-0', '1', '1.1', '1.5', '-1.5', '0.1', '0.3', '1.00000001', '1.0000000000000002', '16777217',
               '9007199254740992', '1e308', '5e-324', 'INF', '-INF', 'NaN', '2', '10', '1e21',
               '0.30000000000000004'],
    'string': ['', 'a', 'b', 'ab', 'B', 'a ', ' a', '1', '01', '1.0', 'true', 'é', 'é', '\U0001F600',
               '￿', 'P1Y', '2000-01-01Z', "it's"],
    'normalizedString': ['a', 'a\tb', 'a b', ' a'],
    'token': ['a', ' a  b ', 'a b', 'B'],
    'NCName': ['a', 'b', ' a ', 'B'],
    'untypedAtomic': ['', 'a', 'b', 'abc', '1', '01', ' 1 ', '1.0', 'true', 'false', '0', 'NaN', 'INF', '1e0',
                      'B', 'a '],
    'anyURI': ['', 'a', 'b', 'B', 'http://x/a', 'http://x/A', ' a '],
    'boolean': ['true', 'false', '1', '0'],
    'QName': ['a', 'b', 'p:a', 'q:a', 'r:a', 'p:b', 'xs:a', 'xml:a'],
    'dateTime': {
        'z': ['2000-01-01T00:00:00Z', '2000-12-31T23:00:00-05:00', '2001-01-01T04:00:00Z', '2001-01-01T00:00:00Z',
              '2000-01-01T12:00:00+01:00', '2000-01-01T11:00:00Z', '1999-12-31T23:59:59.999Z',
              '2000-01-01T00:00:00.001Z', '-0002-03-01T00:00:00Z', '-0001-03-01T00:00:00Z',
              '0001-01-01T00:00:00+14:00', '2000-02-29T24:00:00Z', '2000-03-01T00:00:00Z',
              '2000-01-01T00:00:00+00:00', '1999-12-31T19:00:00-05:00'],
        'n': ['2000-01-01T00:00:00', '2000-01-01T00:00:00.001', '1999-12-31T23:59:59', '2000-03-01T00:00:00',
              '2000-02-29T24:00:00', '-0001-12-31T00:00:00', '2000-01-01T00:00:00.000', '0999-12-31T00:00:00'],
    },
    'date': {
        'z': ['2000-01-01Z', '2000-01-01+14:00', '1999-12-31-10:00', '2000-01-02Z', '2000-01-01-05:00',
              '2000-02-29Z', '-0001-03-01Z', '2000-01-01+00:00', '1999-12-31Z'],
        'n': ['2000-01-01', '1999-12-31', '2000-02-29', '2000-03-01', '0999-01-01', '-0001-03-01'],
    },
    'time': {
        'z': ['00:00:00Z', '12:00:00+01:00', '11:00:00Z', '23:00:00-05:00', '01:00:00+02:00', '23:59:59.999Z',
              '24:00:00Z', '11:00:00+00:00'],
        'n': ['00:00:00', '12:00:00', '12:00:00.5', '23:59:59', '24:00:00', '12:00:00.500'],
    },
    'gYear': {'z': ['2000Z', '2001Z', '2000+01:00', '1999Z', '2000-05:00', '2000+00:00'],
              'n': ['2000', '2001', '0001', '-0001', '1999']},
    'gYearMonth': {'z': ['2000-01Z', '2000-02Z', '2000-01+01:00', '2000-01+00:00'],
                   'n': ['2000-01', '2000-12', '1999-12']},
    'gMonth': {'z': ['--01Z', '--12Z', '--01+01:00', '--01+00:00'], 'n': ['--01', '--12', '--02']},
    'gMonthDay': {'z': ['--01-01Z', '--12-31Z', '--02-29Z', '--01-01-05:00', '--01-01+00:00'],
                  'n': ['--01-01', '--02-29', '--12-31']},
    'gDay': {'z': ['---01Z', '---31Z', '---01+01:00', '---02Z', '---01+00:00'], 'n': ['---01', '---02', '---31']},
    'duration': ['P1Y', 'P12M', 'P1Y2M', 'P14M', 'P1D', 'PT24H', 'P30D', 'P1M', 'PT0S', 'P0M', '-P1D', 'P1Y1D',
                 'PT0.5S', 'P1DT1S', 'P13M', 'P2Y', 'PT25H'],
    'yearMonthDuration': ['P1Y', 'P12M', 'P13M', 'P0M', '-P1M', 'P2Y', 'P1Y2M', 'P14M'],
    'dayTimeDuration': ['P1D', 'PT24H', 'PT25H', 'PT0S', '-P1D', 'PT0.001S', 'PT86400S', 'P365D', 'P1DT1S', 'PT0.5S'],
    'hexBinary': ['', '00', '01', 'ff', 'FF', '7f', '00ff', '0001', 'ab'],
    'base64Binary': ['', 'AA==', 'AQ==', '/w==', 'fw==', 'AAA=', 'AAE=', 'AP8=', ' AA=='],
}
TYPES = list(POOLS)
LITERAL_OK = {'integer': lambda s: s.lstrip('-').isdigit(),
              'decimal': lambda s: '.' in s and s.lstrip('-')[0].isdigit(),
              'string': lambda s: True, 'boolean': lambda s: s in ('true', 'false')}
DT_TYPES = set(M.DATETIME_CLASSES)
# extra untypedAtomic lexicals that are not castable to the other side
JUNK = ['abc', '', ' ', '1', 'true', '2000-13-01Z', 'P1', 'zz', 'A']


def pool(t, z):
    p = POOLS[t]
    if isinstance(p, dict):
        return p['z' if z else 'n']
    return p


# ------------------------------------------------------------------ rendering
def qstr(s):
    return "'" + s.replace("'", "''") + "'"


def render_item(it):
    t, lex = it[0], it[1]
    form = it[2] if len(it) > 2 else 'c'
    if form == 'l':
        if t == 'integer':
            return '(%s)' % lex if lex.startswith('-') else lex
        if t == 'decimal':
            return '(%s)' % lex if lex.startswith('-') else lex
        if t == 'string':
            return qstr(lex)
        if t == 'boolean':
            return lex + '()'
    return 'xs:%s(%s)' % (t, qstr(lex))


def render_seq(items):
    if len(items) == 1:
        return render_item(items[0])
    return '(' + ', '.join(render_item(i) for i in items) + ')'


def model_item(it):
    """-> Val or None when the lexical form is outside the model"""
    try:
        return M.parse_atomic(it[0], it[1], dict(NS, xs='http://www.w3.org/2001/XMLSchema',
                                                 xml='http://www.w3.org/XML/1998/namespace'))
    except M.LexicalError:
        return None


# ------------------------------------------------------------------ engine access
class Eng:
    def __init__(self, version, root=None, compat=False):
        self.version = version
        if version == '1.0':
            self.parser = XPath1Parser(namespaces=NS)
        elif compat:
            self.parser = XPath2Parser(namespaces=NS, compatibility_mode=True)
        else:
            self.parser = PARSERS[version](namespaces=NS)
        self.root = root

    def _run(self, expr):
        tok = self.parser.parse(expr)
        ctx = None if self.root is None else XPathContext(root=self.root)
        return tok.evaluate(ctx)

    def ev(self, expr):
        """-> True | False | 'empty' | error code | 'exc:...' | 'other:...'"""
        o = call(self._run, expr)
        if o[0] == 'ok':
            v = o[1]
            if v is True or v is False:
                return v
            if v == [] or v is None:
                return 'empty'
            if isinstance(v, list) and len(v) == 1 and (v[0] is True or v[0] is False):
                return v[0]
            return 'other:%s' % (describe(v),)
        if o[0] == 'err':
            return o[1] or 'err:nocode'
        return 'exc:%s@%s' % (o[1], o[2])


def cls_of(x):
    """outcome class for keys"""
    if x is True or x is False:
        return 'bool'
    if isinstance(x, str) and x.startswith('other:'):
        return 'other'
    return str(x)


def agrees(exp, got):
    """exp: True/False/'empty'/'CODE' or 'CODE1|CODE2'"""
    if exp is True or exp is False:
        return got is exp
    if exp == 'empty':
        return got == 'empty'
    return isinstance(got, str) and got in exp.split('|')


# ------------------------------------------------------------------ classifiers
import re as _re
_CODE = _re.compile(r'^[A-Z]{4}[0-9]{4}$')


def is_code(x):
    return isinstance(x, str) and bool(_CODE.match(x))


def softened(exp, got):
    """a disagreement between two *error codes* where the expected one is a failed untypedAtomic cast
    (FORG0001): not decided (the engine may detect an unsupported operand type first)"""
    return isinstance(exp, str) and 'FORG0001' in exp.split('|') and is_code(got)


def _exact(val):
    """exact rational denoted by the *lexical form* of a numeric value (None for NaN/INF)"""
    try:
        if val.v[0] in ('float', 'double'):
            k, fr, _ = M.parse_double_lex(val.lex)
            return fr if k == 'num' else None
        return val.v[1]
    except Exception:
        return None


def num_tag(a, b, exp, got, op):
    """mechanism tag for a numeric mismatch (both outcomes are booleans)"""
    ea, eb = _exact(a), _exact(b)
    kinds = (a.v[0], b.v[0])
    fl = 'float' if 'float' in kinds else 'nofloat'
    if ea is not None and eb is not None:
        x, y = M.promote(a.v, b.v)
        if x == y and ea != eb:
            return 'promotion-makes-equal/%s' % fl        # e.g. 2^53+1 vs 2^53 as double, 2^24+1 as float
        if x == y and kinds[0] != kinds[1]:
            return 'promotion-makes-equal/%s' % fl
        if ea == eb and x != y:
            return 'same-lexical-distinct-values'          # xs:float('1.1') vs xs:double('1.1')
        scale = max(abs(ea), abs(eb))
        if ea != eb and abs(ea - eb) <= scale * Fraction(1, 10 ** 6):
            return 'near-equal-distinct-values'            # tolerance instead of IEEE/decimal equality
    nan = any(isinstance(v.v[1], float) and v.v[1] != v.v[1] for v in (a, b))
    if nan:
        return 'NaN/%s' % op
    return 'other/%s-%s/%s->%s' % (kinds[0], kinds[1], cls_of(exp), cls_of(got))


def grp(c):
    if c in ('dateTime', 'date', 'time', 'gregorian'):
        return 'datetime'
    if c in ('duration', 'ymd', 'dtd'):
        return 'duration'
    if c in ('hexBinary', 'base64Binary'):
        return 'binary'
    return c


def pair_key(family, op, a, b, exp, got, untyped=''):
    """a, b: operands after the untypedAtomic conversion of the comparison family (when it succeeded);
    untyped: which operands were xs:untypedAtomic originally ('', 'L', 'R', 'LR')"""
    if isinstance(got, str) and got.startswith('exc:'):
        return 'C07/exception/%s' % got[4:]
    opc = 'eq' if op in ('eq', 'ne', '=', '!=') else 'ord'
    ca, cb = M.key_class(a), M.key_class(b)
    if ca == 'untyped':
        ca = 'string'
    if cb == 'untyped':
        cb = 'string'
    isb = exp is True or exp is False
    if a.cls == 'num' and b.cls == 'num' and isb and (got is True or got is False):
        return 'C07/%s/num/%s' % (family, num_tag(a, b, exp, got, op))
    if a.cls == b.cls and a.cls in M.DATETIME_CLASSES and a.tz is not None and b.tz is not None \
            and a.tz != b.tz and isb and (got is True or got is False):
        return 'C07/%s/%s/timezone-offsets-differ' % (family, grp(ca))
    if exp == 'XPTY0004' and (got is True or got is False):
        if a.cls == b.cls:
            return 'C07/%s/%s/unordered-type-accepted/%s' % (family, opc, ca if ca == cb else 'duration-mixed')
        if family == 'general' and not untyped:
            return 'C07/general/%s/incomparable-accepted/left=%s' % (opc, grp(ca))
        pr = sorted([grp(ca), grp(cb)])
        return 'C07/%s/%s/incomparable-accepted/%s~%s' % (family, opc, pr[0], pr[1])
    if untyped == 'LR' and opc == 'ord' and family == 'general':
        return 'C07/general/ord/untyped-vs-untyped-not-compared-as-strings'
    if untyped == 'R' and opc == 'eq' and grp(ca) == 'datetime' and (got is True or got is False):
        return 'C07/general/eq/datetime-vs-untyped-right-operand-not-cast'
    if untyped:
        return 'C07/%s/%s/%s~%s/untyped=%s/%s->%s' % (family, opc, grp(ca), grp(cb), untyped, cls_of(exp), cls_of(got))
    pr = sorted([grp(ca), grp(cb)])
    return 'C07/%s/%s/%s~%s/%s->%s' % (family, opc, pr[0], pr[1], cls_of(exp), cls_of(got))


def value_key(op, x, y, exp, got):
    ut = ('L' if x.cls == 'untyped' else '') + ('R' if y.cls == 'untyped' else '')
    return pair_key('value', op, x, y, exp, got, '')


def general_key(op, a, b, exp, got, namespaces):
    ut = ('L' if a.cls == 'untyped' else '') + ('R' if b.cls == 'untyped' else '')
    c = M.general_convert(a, b, namespaces)
    if not isinstance(c, str):
        a, b = c
    return pair_key('general', op, a, b, exp, got, ut)


# ------------------------------------------------------------------ kinds: value / general
def check_value(case, out):
    v = case['v']
    ia, ib = case['l'], case['r']
    a, b = model_item(ia), model_item(ib)
    eng = Eng(v)
    out.dim('version', v)
    out.dim('cell:value', '%s x %s' % (ia[0], ib[0]))
    if a is None or b is None:
        out.dim('undecided', 'lexical-outside-model')
        out.nontrivial = False
        return
    out.dim('classpair:value', '%s~%s' % (M.key_class(a), M.key_class(b)))
    decided = 0
    res = {}
    for (x, y, ix, iy, tag) in ((a, b, ia, ib, 'ab'), (b, a, ib, ia, 'ba')):
        for op in VALUE_OPS:
            exp = M.value_compare(x, y, op, v)
            expr = '%s %s %s' % (render_item(ix), op, render_item(iy))
            got = eng.ev(expr)
            res[(tag, op)] = got
            if exp == UNDECIDED:
                out.dim('undecided', 'value:timezone-mixed-or-unmodelled')
                continue
            decided += 1
            out.dim('op:value', op)
            out.dim('oracle_comparisons', 'model')
            out.dim('expected:value', cls_of(exp) if not isinstance(exp, bool) else str(exp))
            if not agrees(exp, got):
                out.fail(value_key(op, x, y, exp, got),
                         '%s [%s]: expected %s, got %s' % (expr, v, exp, got))
    # relation dimension (from the model)
    r = M.value_compare(a, b, 'eq', v)
    if r is True:
        out.dim('relation', 'equal')
    elif r is False:
        lt = M.value_compare(a, b, 'lt', v)
        out.dim('relation', 'less' if lt is True else ('greater' if M.value_compare(a, b, 'gt', v) is True
                                                       else ('unordered' if lt is False else 'eq-only')))
    else:
        out.dim('relation', 'incomparable' if r == 'XPTY0004' else 'undecided')
    # engine-against-engine duality laws (need no model)
    def isb(x):
        return x is True or x is False
    lawful = not out.fails          # a model mismatch already explains any broken law in this case
    if not lawful:
        out.dim('law_checks_skipped', 'model-mismatch-in-case')
    for (o1, o2) in (('lt', 'gt'), ('le', 'ge'), ('eq', 'eq'), ('ne', 'ne'), ('gt', 'lt'), ('ge', 'le')):
        x, y = res[('ab', o1)], res[('ba', o2)]
        if lawful and isb(x) and isb(y):
            out.dim('law_checks', 'duality')
            if x is not y:
                out.fail('C07/law/duality/%s-%s/%s~%s' % ((o1, o2) + tuple(sorted([M.key_class(a), M.key_class(b)]))),
                         '%s %s %s = %s but swapped %s = %s' % (render_item(ia), o1, render_item(ib), x, o2, y))
    e, n = res[('ab', 'eq')], res[('ab', 'ne')]
    if lawful and isb(e) and isb(n):
        out.dim('law_checks', 'ne=not-eq')
        if e is n:
            out.fail('C07/law/ne-is-not-eq/%s~%s' % tuple(sorted([M.key_class(a), M.key_class(b)])),
                     '%s eq/ne %s -> %s/%s' % (render_item(ia), render_item(ib), e, n))
    out.nontrivial = decided > 0
    out.obs = '%s eq %s -> %s' % (render_item(ia), render_item(ib), res[('ab', 'eq')])


def check_value_seq(case, out):
    """value comparison with operands of length 0..3"""
    v = case['v']
    L, R = case['L'], case['R']
    eng = Eng(v)
    out.dim('value_seq_lengths', '%d,%d' % (len(L), len(R)))
    ml, mr = [model_item(i) for i in L], [model_item(i) for i in R]
    if any(x is None for x in ml + mr):
        out.nontrivial = False
        return
    decided = 0
    for op in VALUE_OPS:
        expr = '%s %s %s' % (render_seq(L) if L else '()', op, render_seq(R) if R else '()')
        got = eng.ev(expr)
        if len(L) == 1 and len(R) == 1:
            exp = M.value_compare(ml[0], mr[0], op, v)
        elif not L or not R:
            # an empty operand gives (); the other operand need not be evaluated, so its cardinality error is optional
            exp = 'empty' if max(len(L), len(R)) <= 1 else UNDECIDED
        else:
            exp = 'XPTY0004'
        if exp == UNDECIDED:
            out.dim('undecided', 'value_seq')
            continue
        decided += 1
        out.dim('oracle_comparisons', 'model')
        if not agrees(exp, got):
            if len(L) == 1 and len(R) == 1:
                out.fail(value_key(op, ml[0], mr[0], exp, got), '%s [%s]: expected %s, got %s' % (expr, v, exp, got))
                continue
            shape = 'empty' if (not L or not R) else 'multi'
            out.fail('C07/value/cardinality/%s/%s->%s' % (shape, cls_of(exp), cls_of(got)),
                     '%s [%s]: expected %s, got %s' % (expr, v, exp, got))
    out.nontrivial = decided > 0
    out.obs = 'lengths %d,%d' % (len(L), len(R))


def pair_witness(eng, out, op, v, L, R, ml, mr, namespaces, expr, exp, got):
    """a wrong result on sequences is attributed to the first pair that is already wrong as singletons"""
    for i, a in enumerate(ml):
        for j, b in enumerate(mr):
            pe = M.general_pair(a, b, op, v, namespaces)
            if pe == UNDECIDED:
                continue
            pg = eng.ev('%s %s %s' % (render_item(L[i]), op, render_item(R[j])))
            if not agrees(pe, pg) and not softened(pe, pg):
                out.fail(general_key(op, a, b, pe, pg, namespaces),
                         '%s [%s]: expected %s, got %s (pair %d,%d: expected %s got %s)'
                         % (expr, v, exp, got, i, j, pe, pg))
                return True
    return False


def check_general(case, out):
    v = case['v']
    L, R = case['L'], case['R']
    eng = Eng(v)
    out.dim('version', v)
    out.dim('general_lengths', '%d,%d' % (len(L), len(R)))
    ml, mr = [model_item(i) for i in L], [model_item(i) for i in R]
    tl = L[0][0] if L else 'empty'
    tr = R[0][0] if R else 'empty'
    out.dim('cell:general', '%s x %s' % (tl, tr))
    if any(x is None for x in ml + mr):
        out.dim('undecided', 'lexical-outside-model')
        out.nontrivial = False
        return
    decided = 0
    first = None
    namespaces = dict(NS, xs='http://www.w3.org/2001/XMLSchema', xml='http://www.w3.org/XML/1998/namespace')
    for op in GENERAL_OPS:
        exp, outs = M.general_compare(ml, mr, op, v, namespaces)
        expr = '%s %s %s' % (render_seq(L) if L else '()', op, render_seq(R) if R else '()')
        got = eng.ev(expr)
        if first is None:
            first = '%s -> %s' % (expr, got)
        if exp == UNDECIDED:
            out.dim('undecided', 'general:unmodelled-pair')
            continue
        if exp == EITHER:
            out.dim('undecided', 'general:true-pair-and-error-pair')
            # still: the engine must produce true or an error
            if got is True or is_code(got):
                continue
            if not pair_witness(eng, out, op, v, L, R, ml, mr, namespaces, expr, 'true or an error', got):
                if isinstance(got, str) and got.startswith('exc:'):
                    out.fail('C07/exception/%s' % got[4:], '%s [%s] -> %s' % (expr, v, got))
                else:
                    out.fail('C07/general/either-violated/%s' % cls_of(got), '%s [%s]: expected true or an error, got %s'
                             % (expr, v, got))
            continue
        decided += 1
        out.dim('op:general', op)
        out.dim('oracle_comparisons', 'model')
        out.dim('expected:general', str(exp))
        if ml and mr:
            if any(x.cls == 'untyped' for x in ml + mr):
                oth = [x for x in (ml[0], mr[0]) if x.cls != 'untyped']
                out.dim('untyped_rule', 'vs-' + (M.key_class(oth[0]) if oth else 'untyped'))
        if agrees(exp, got):
            continue
        if softened(exp, got):
            out.dim('undecided', 'general:FORG0001-expected-other-error-code')
            continue
        if len(ml) == 1 and len(mr) == 1:
            out.fail(general_key(op, ml[0], mr[0], exp, got, namespaces),
                     '%s [%s]: expected %s, got %s' % (expr, v, exp, got))
            continue
        # sequences: find a witness pair whose singleton comparison is already wrong -> its key
        if pair_witness(eng, out, op, v, L, R, ml, mr, namespaces, expr, exp, got):
            continue
        if isinstance(got, str) and got.startswith('exc:'):
            out.fail('C07/exception/%s' % got[4:], '%s [%s]: expected %s, got %s' % (expr, v, exp, got))
        else:
            shape = 'empty-operand' if (not ml or not mr) else 'existential'
            out.fail('C07/general/%s/%s->%s' % (shape, cls_of(exp), cls_of(got)),
                     '%s [%s]: expected %s, got %s although every pair alone is right' % (expr, v, exp, got))
    out.nontrivial = decided > 0
    out.obs = first


def check_triple(case, out):
    """order laws on three values of one type, engine against engine (plus the model on each pair)"""
    v = case['v']
    items = case['items']
    eng = Eng(v)
    vals = [model_item(i) for i in items]
    if any(x is None for x in vals):
        out.nontrivial = False
        return
    t = items[0][0]
    out.dim('triple_type', t)
    n = len(items)
    rel = {}
    for op in ('eq', 'le', 'lt'):
        for i in range(n):
            for j in range(n):
                expr = '%s %s %s' % (render_item(items[i]), op, render_item(items[j]))
                got = eng.ev(expr)
                rel[(op, i, j)] = got
                exp = M.value_compare(vals[i], vals[j], op, v)
                if exp != UNDECIDED:
                    out.dim('oracle_comparisons', 'model')
                    if not agrees(exp, got):
                        out.fail(value_key(op, vals[i], vals[j], exp, got),
                                 '%s [%s]: expected %s, got %s' % (expr, v, exp, got))

    def isb(x):
        return x is True or x is False
    if out.fails:
        out.dim('law_checks_skipped', 'model-mismatch-in-case')
        out.obs = '%s: %s' % (t, [i[1] for i in items])
        return
    kc = M.key_class(vals[0])
    nan = [isinstance(x.v, tuple) and x.cls == 'num' and isinstance(x.v[1], float) and x.v[1] != x.v[1] for x in vals]
    for i in range(n):
        e = rel[('eq', i, i)]
        if isb(e):
            out.dim('law_checks', 'reflexive')
            if e is not (not nan[i]):
                out.fail('C07/law/reflexive/%s%s' % (kc, '/NaN' if nan[i] else ''),
                         '%s eq itself -> %s' % (render_item(items[i]), e))
    for op, name in (('eq', 'eq'), ('le', 'le'), ('lt', 'lt')):
        for i in range(n):
            for j in range(n):
                for k in range(n):
                    x, y, z = rel[(op, i, j)], rel[(op, j, k)], rel[(op, i, k)]
                    if isb(x) and isb(y) and isb(z):
                        out.dim('law_checks', 'transitive-' + name)
                        if x and y and not z:
                            out.fail('C07/law/transitive/%s/%s' % (name, kc),
                                     '%s, %s, %s: %s holds for (1,2),(2,3) but not (1,3)'
                                     % (render_item(items[i]), render_item(items[j]), render_item(items[k]), op))
    for i in range(n):
        for j in range(n):
            x, y, e = rel[('le', i, j)], rel[('le', j, i)], rel[('eq', i, j)]
            if isb(x) and isb(y) and isb(e):
                out.dim('law_checks', 'antisymmetric')
                if x and y and not e:
                    out.fail('C07/law/antisymmetric/%s' % kc, '%s le/ge %s but not eq'
                             % (render_item(items[i]), render_item(items[j])))
            lt, le = rel[('lt', i, j)], rel[('le', i, j)]
            if isb(lt) and isb(le) and isb(e):
                out.dim('law_checks', 'le=lt-or-eq')
                if le is not (lt or e):
                    out.fail('C07/law/le-is-lt-or-eq/%s' % kc, '%s vs %s: lt=%s eq=%s le=%s'
                             % (render_item(items[i]), render_item(items[j]), lt, e, le))
    out.obs = '%s: %s' % (t, [i[1] for i in items])


# ------------------------------------------------------------------ kinds: ebv / logic
EBV_XML = '<r><a x="1">t</a><a/><b>0</b></r>'
_roots = {}


def ebv_root():
    if 'ebv' not in _roots:
        _roots['ebv'] = ET.ElementTree(ET.fromstring(EBV_XML))
    return _roots['ebv']


# sequence item specs: ['a', tname, lex, form] | ['n', path, count] | ['o', expr, minversion]
NODE_ITEMS = [['n', '/r/a[1]', 1], ['n', '/r/a', 2], ['n', '/r/a[1]/@x', 1], ['n', '/r/a[1]/text()', 1],
              ['n', '/', 1], ['n', '/r/b', 1], ['n', '/r/none', 0], ['n', '/r/a[1]/@none', 0], ['n', '/r/*', 3]]
OTHER_ITEMS = [['o', 'map{}', '3.1'], ['o', 'map{1:1}', '3.1'], ['o', '[]', '3.1'], ['o', '[1]', '3.1'],
               ['o', 'true#0', '3.0'], ['o', 'function($x){$x}', '3.0'], ['o', '[true()]', '3.1']]


def render_s(S):
    parts = []
    for it in S:
        if it[0] == 'a':
            parts.append(render_item(it[1:]))
        else:
            parts.append(it[1])
    if len(parts) == 1:
        return '(%s)' % parts[0]
    return '(' + ', '.join(parts) + ')'


def model_s(S):
    """-> list for M.ebv, or None (not modelled)"""
    items = []
    for it in S:
        if it[0] == 'a':
            val = model_item(it[1:])
            if val is None:
                return None
            items.append(('atomic', val))
        elif it[0] == 'n':
            items.extend([('node',)] * it[2])
        else:
            items.append(('other', it[1]))
    return items


def s_kind(S):
    if not S:
        return 'empty'
    return '+'.join(it[1] if it[0] == 'a' else ('node%d' % it[2] if it[0] == 'n' else 'fn-item') for it in S)


def min_version(S):
    m = '2.0'
    for it in S:
        if it[0] == 'o' and it[2] > m:
            m = it[2]
    return m


EBV_FORMS = [('boolean', 'boolean(%s)', False), ('not', 'not(%s)', True),
             ('if', 'if (%s) then true() else false()', False),
             ('and-right-true', '%s and true()', False), ('and-left-true', 'true() and %s', False),
             ('or-right-false', '%s or false()', False), ('or-left-false', 'false() or %s', False),
             ('predicate-free-some', 'some $v in 1 satisfies %s', False),
             ('not-not', 'not(not(%s))', False)]


def check_ebv(case, out):
    v = case['v']
    S = case['S']
    if min_version(S) > v:
        v = min_version(S)
    ms = model_s(S)
    if ms is None:
        out.nontrivial = False
        return
    exp = M.ebv(ms)
    eng = Eng(v, root=ebv_root())
    text = render_s(S)
    kind = s_kind(S)
    out.dim('version', v)
    out.dim('ebv_sequence_kind', kind if len(kind) < 40 else kind[:40])
    out.dim('ebv_expected', str(exp))
    row = ('empty' if not ms else 'node-first' if ms[0][0] == 'node' else 'multi-atomic' if len(ms) > 1 else
           ('singleton-' + (M.key_class(ms[0][1]) if ms[0][0] == 'atomic' else 'function-item')))
    out.dim('ebv_table_row', row)
    for name, form, neg in EBV_FORMS:
        expr = form % text
        got = eng.ev(expr)
        want = exp if isinstance(exp, str) else (exp != neg)
        out.dim('oracle_comparisons', 'model')
        out.dim('ebv_form', name)
        if not agrees(want, got):
            rowgroup = row if row in ('empty', 'node-first', 'multi-atomic', 'singleton-boolean', 'singleton-string',
                                      'singleton-num', 'singleton-untyped', 'singleton-anyURI') else 'singleton-no-ebv'
            out.fail('C07/ebv/%s/%s/%s->%s' % (rowgroup, name if name in ('boolean', 'not', 'if') else 'logic-operand',
                                                cls_of(want), cls_of(got)),
                     '%s [%s]: expected %s, got %s' % (expr, v, want, got))
    out.obs = 'boolean(%s) expected %s' % (text, exp)


def logic_expect(op, a, b, compat=False):
    """a, b: True/False/'FORG0006' -> True/False/'FORG0006'/EITHER"""
    ea, eb = isinstance(a, str), isinstance(b, str)
    dec = (op == 'and' and False) or (op == 'or' and True)   # the deciding value of the operator
    if not ea and not eb:
        return (a and b) if op == 'and' else (a or b)
    if ea and eb:
        return a
    if ea:
        if compat:
            return a
        return EITHER if b is dec else a
    # only b errors
    if a is dec:
        return dec if compat else EITHER
    return b


def check_logic(case, out):
    v = case['v']
    A, B = case['A'], case['B']
    mv = max(min_version(A), min_version(B))
    if mv > v:
        v = mv
    ma, mb = model_s(A), model_s(B)
    if ma is None or mb is None:
        out.nontrivial = False
        return
    a, b = M.ebv(ma), M.ebv(mb)
    eng = Eng(v, root=ebv_root())
    ta, tb = render_s(A), render_s(B)
    out.dim('logic_operands', '%s,%s' % ('err' if isinstance(a, str) else a, 'err' if isinstance(b, str) else b))

    def neg(x):
        return x if isinstance(x, str) else (not x)
    forms = [
        ('and', '%s and %s' % (ta, tb), logic_expect('and', a, b)),
        ('or', '%s or %s' % (ta, tb), logic_expect('or', a, b)),
        ('not-and', 'not(%s and %s)' % (ta, tb), None),
        ('de-morgan', 'not(%s) or not(%s)' % (ta, tb), None),
        ('if-and', 'if (%s and %s) then true() else false()' % (ta, tb), logic_expect('and', a, b)),
        ('nested', '(%s or %s) and (%s or %s)' % (ta, tb, tb, ta), None),
    ]
    x = logic_expect('and', a, b)
    forms[2] = (forms[2][0], forms[2][1], x if x == EITHER else neg(x))
    forms[3] = (forms[3][0], forms[3][1], logic_expect('or', neg(a), neg(b)))
    o1, o2 = logic_expect('or', a, b), logic_expect('or', b, a)
    forms[5] = (forms[5][0], forms[5][1], EITHER if EITHER in (o1, o2) else logic_expect('and', o1, o2))
    decided = 0
    for name, expr, want in forms:
        got = eng.ev(expr)
        if want == EITHER:
            out.dim('undecided', 'logic:error-operand-not-deciding')
            if not (got is True or got is False or got == 'FORG0006'):
                out.fail('C07/logic/either-violated/%s' % cls_of(got), '%s [%s] -> %s' % (expr, v, got))
            continue
        decided += 1
        out.dim('oracle_comparisons', 'model')
        out.dim('logic_form', name)
        if not agrees(want, got):
            out.fail('C07/logic/%s/%s->%s' % (name, cls_of(want), cls_of(got)),
                     '%s [%s]: expected %s, got %s (EBVs %s, %s)' % (expr, v, want, got, a, b))
    out.nontrivial = decided > 0
    out.obs = '%s and %s: EBVs %s,%s' % (ta, tb, a, b)


# ------------------------------------------------------------------ kind: compat (XPath 1.0 semantics vs libxml2)
COMPAT_DOCS = [
    "<r><a x='1'>1</a><a x='2'>02</a><b> 2 </b><b>abc</b><c/><d>true</d><e>-3.5</e><f>10</f><f>9</f></r>",
    "<r><a x='10'>2</a><a x='2'>2.0</a><b>2</b><c></c><d>0</d><e>NaN</e><f>1<g>0</g></f><f/></r>",
]
COMPAT_PATHS = ['//a', '//b', '//c', '//d', '//e', '//f', '//none', '//a/@x', '//a[1]', '//b[2]', '//f/text()',
                '//a[2]/@x', '//*[not(*)]', '//g']
COMPAT_STRINGS = ['', 'a', 'abc', '1', '01', '1.0', ' 2 ', '02', '2', '-3.5', 'true', '10', '9', 'NaN', '0',
                  '.5', '5.', '-.5', '2.0']
# lexical forms on which Python float(), XPath 1.0 number() and fn:number() differ
TRICKY_STRINGS = ['1e3', '+1', 'INF', 'inf', 'Infinity', '1_0', '- 1', '--1', '0x10', '١', 'nan', '1E1']
COMPAT_NUMBERS = ['0', '1', '2', '1.0', '-3.5', '10', '9', '0.5', 'INF', '-INF', 'NaN', '1000']


def compat_docs(i):
    k = 'compat%d' % i
    if k not in _roots:
        _roots[k] = (ET.fromstring(COMPAT_DOCS[i]), LX.fromstring(COMPAT_DOCS[i]))
    return _roots[k]


def render_compat(opd, target):
    """target: 'xp1' (also libxml2) or 'xp2c'"""
    k, p = opd
    if k == 'nodeset':
        return p
    if k == 'string':
        return qstr(p)
    if k == 'boolean':
        return 'true()' if p else 'false()'
    if target == 'xp1':
        return {'INF': '(1 div 0)', '-INF': '(-1 div 0)', 'NaN': '(0 div 0)'}.get(p, '(%s)' % p if p[0] == '-' else p)
    return {'INF': "xs:double('INF')", '-INF': "xs:double('-INF')", 'NaN': "xs:double('NaN')"}.get(
        p, '(%s)' % p if p[0] == '-' else p)


def _pyfloat_ok(s):
    try:
        float(s)
        return True
    except ValueError:
        return False


def compat_model_operand(opd, lroot):
    k, p = opd
    if k == 'nodeset':
        vals = []
        for n in lroot.xpath(p):
            if isinstance(n, str):
                vals.append(str(n))
            else:
                vals.append(''.join(n.itertext()))
        return ('nodeset', vals)
    if k == 'number':
        return ('number', {'INF': math.inf, '-INF': -math.inf, 'NaN': math.nan}.get(p) if p in ('INF', '-INF', 'NaN')
                else float(Fraction(p)))
    return (k, p)


def compat_key(ptag, op, ml, mr, exp, got):
    rel = op in ('<', '<=', '>', '>=')
    kinds = sorted([ml[0], mr[0]])
    if isinstance(got, str) and got.startswith('exc:'):
        return 'C07/exception/%s' % got[4:]
    strings = []
    for k, p in (ml, mr):
        if k == 'string':
            strings.append(p)
        elif k == 'nodeset':
            strings.extend(p)
    number = M.number10 if ptag == 'xp1' else M.number20
    nonnum = [s for s in strings if number(s) != number(s)]
    if kinds == ['boolean', 'nodeset']:
        ns = ml if ml[0] == 'nodeset' else mr
        if not ns[1]:
            return 'C07/compat/boolean-vs-empty-nodeset'
        return 'C07/compat/boolean-vs-nodeset/ebv-of-atomized-values'
    if 'boolean' in kinds and rel and ptag == 'xp1' and (got is True or got is False):
        return 'C07/compat/xp1/relational/boolean-vs-%s-not-compared-as-numbers' % (
            'string' if 'string' in kinds else 'number' if 'number' in kinds else 'boolean')
    if got == 'FORG0001' and nonnum:
        return 'C07/compat/%s/non-numeric-string-raises-FORG0001' % ('relational' if rel else ptag + '/equality')
    if (got is True or got is False) and any(_pyfloat_ok(s.strip()) for s in nonnum) and (rel or 'number' in kinds):
        return 'C07/compat/python-float-lexical-accepted'
    if not rel and 'number' in kinds and ('string' in kinds or 'nodeset' in kinds):
        if got is True or got is False:
            return 'C07/compat/%s/equality/number-vs-string-not-converted' % ptag
        return 'C07/compat/%s/equality/number-vs-string/%s' % (ptag, cls_of(got))
    return 'C07/compat/%s/%s/%s~%s/%s->%s' % (ptag, 'rel' if rel else 'eq', kinds[0], kinds[1], cls_of(exp), cls_of(got))


def check_compat(case, out):
    eroot, lroot = compat_docs(case['doc'])
    l, r = case['l'], case['r']
    ml, mr = compat_model_operand(l, lroot), compat_model_operand(r, lroot)
    out.dim('compat_kinds', '%s,%s' % (l[0], r[0]))
    strings = [p for k, p in (ml, mr) if k == 'string'] + [s for k, p in (ml, mr) if k == 'nodeset' for s in p]

    def same_num(s):
        x, y = M.number10(s), M.number20(s)
        return (x != x and y != y) or x == y
    v2_ok = all(same_num(s) for s in strings)
    engines = [('xp1', Eng('1.0', root=eroot)), ('xp2c', Eng('2.0', root=eroot, compat=True))]
    decided = 0
    first = None
    for op in GENERAL_OPS:
        lexpr = '%s %s %s' % (render_compat(l, 'xp1'), op, render_compat(r, 'xp1'))
        try:
            lib = lroot.xpath(lexpr)
        except Exception as e:            # noqa
            lib = 'liberr:%s' % type(e).__name__
        model = M.compat_compare(ml, mr, op, M.number10)
        if lib is not model:
            out.dim('undecided', 'compat:libxml2-vs-model-disagree')
            out.dim('oracle_disagreement', '%s,%s %s' % (l[0], r[0], 'rel' if op in ('<', '<=', '>', '>=') else 'eq'))
            continue
        out.dim('oracle_comparisons', 'libxml2')
        for ptag, eng in engines:
            want = model
            if ptag == 'xp2c':
                if not v2_ok:
                    out.dim('undecided', 'compat:number-lexical-1.0-vs-2.0')
                    continue
                # XPath 2.0 3.5.2 rule 1 (boolean operand -> EBV of the other, for every operator)
                want = M.compat_compare(ml, mr, op, M.number20, boolean_first=True)
                if want is not model:
                    out.dim('compat_2.0_rule_differs_from_1.0', '%s,%s' % (l[0], r[0]))
            expr = '%s %s %s' % (render_compat(l, ptag), op, render_compat(r, ptag))
            got = eng.ev(expr)
            if first is None:
                first = '%s -> libxml2 %s, %s %s' % (expr, lib, ptag, got)
            decided += 1
            out.dim('op:compat:' + ptag, op)
            out.dim('cell:compat', '%s:%s,%s' % (ptag, l[0], r[0]))
            if got is not want:
                out.fail(compat_key(ptag, op, ml, mr, want, got),
                         '%s [%s]: expected %s (libxml2: %s), got %s' % (expr, ptag, want, lib, got))
    out.nontrivial = decided > 0
    out.obs = first


def check_compat_logic(case, out):
    eroot, lroot = compat_docs(case['doc'])
    A, B = case['A'], case['B']
    ma, mb = compat_model_operand(A, lroot), compat_model_operand(B, lroot)

    def tb(m):
        k, p = m
        if k in ('nodeset', 'string'):
            return len(p) > 0
        if k == 'number':
            return not (p != p or p == 0)
        return p
    a, b = tb(ma), tb(mb)
    engines = [('xp1', Eng('1.0', root=eroot)), ('xp2c', Eng('2.0', root=eroot, compat=True))]
    forms = [('boolean', 'boolean(%(a)s)', a), ('not', 'not(%(a)s)', not a), ('and', '%(a)s and %(b)s', a and b),
             ('or', '%(a)s or %(b)s', a or b), ('de-morgan', 'not(%(a)s and %(b)s) = (not(%(a)s) or not(%(b)s))', True)]
    out.dim('compat_logic_kinds', '%s,%s' % (A[0], B[0]))
    for name, form, want in forms:
        lexpr = form % {'a': render_compat(A, 'xp1'), 'b': render_compat(B, 'xp1')}
        try:
            lib = lroot.xpath(lexpr)
        except Exception as e:            # noqa
            lib = 'liberr'
        if lib is not want:
            out.dim('undecided', 'compat:libxml2-vs-model-disagree')
            continue
        out.dim('oracle_comparisons', 'libxml2')
        for ptag, eng in engines:
            expr = form % {'a': render_compat(A, ptag), 'b': render_compat(B, ptag)}
            got = eng.ev(expr)
            out.dim('compat_logic_form', name)
            if got is not want:
                out.fail('C07/compat/logic/%s/%s/%s->%s' % (name, A[0] if name in ('boolean', 'not') else 'any',
                                                            cls_of(want), cls_of(got)),
                         '%s [%s]: expected %s, got %s' % (expr, ptag, want, got))
    out.obs = 'EBVs %s,%s' % (a, b)


# ------------------------------------------------------------------ dispatch
def check_stamp(case, out):
    """xs:dateTimeStamp (XSD 1.1: a dateTime with a required timezone) against xs:dateTime and itself, both comparison
    families: the answer is the one of the same two instants typed xs:dateTime"""
    v, la, lb, ta, tb = case['v'], case['a'], case['b'], case['ta'], case['tb']
    a, b = model_item(['dateTime', la]), model_item(['dateTime', lb])
    out.dim('stamp_pair', '%s~%s' % (ta, tb))
    if a is None or b is None:
        out.nontrivial = False
        return
    parser = PARSERS[v](namespaces=NS, xsd_version='1.1')

    def ev(expr):
        o = call(lambda: parser.parse(expr).evaluate(None))
        if o[0] == 'ok':
            return o[1] if isinstance(o[1], bool) else 'other:%s' % (describe(o[1]),)
        return (o[1] or 'err:nocode') if o[0] == 'err' else 'exc:%s@%s' % (o[1], o[2])
    ea, eb = "xs:%s('%s')" % (ta, la), "xs:%s('%s')" % (tb, lb)
    for vop, gop in zip(VALUE_OPS, ('=', '!=', '<', '<=', '>', '>=')):
        exp = M.value_compare(a, b, vop, v)
        if exp == UNDECIDED:
            out.dim('undecided', 'stamp:unmodelled')
            continue
        for fam, op in (('value', vop), ('general', gop)):
            expr = '%s %s %s' % (ea, op, eb)
            got = ev(expr)
            out.dim('stamp_comparisons', fam)
            if got != exp:
                out.fail('C07/%s/dateTimeStamp~%s/%s' % (fam, 'dateTime' if 'dateTime' in (ta, tb) else 'dateTimeStamp',
                                                         'raises' if not isinstance(got, bool) else 'wrong-verdict'),
                         '%s [%s, XSD 1.1]: expected %s, got %s' % (expr, v, exp, got))
    out.obs = '%s vs %s' % (ea, eb)


KINDS = {'stamp': check_stamp, 'value': check_value, 'value_seq': check_value_seq, 'general': check_general, 'triple': check_triple,
         'ebv': check_ebv, 'logic': check_logic, 'compat': check_compat, 'compat_logic': check_compat_logic}


def check_case(kind, case):
    out = Outcome()
    KINDS[kind](case, out)
    return out


def shrink(kind, case):
    if kind in ('general', 'value_seq'):
        for side in ('L', 'R'):
            s = case[side]
            if len(s) > 1:
                for i in range(len(s)):
                    c = dict(case)
                    c[side] = s[:i] + s[i + 1:]
                    yield c
    elif kind == 'ebv':
        S = case['S']
        if len(S) > 1:
            for i in range(len(S)):
                yield dict(case, S=S[:i] + S[i + 1:])


# ------------------------------------------------------------------ generators
NUMERIC = ('integer', 'long', 'int', 'unsignedByte', 'nonPositiveInteger', 'decimal', 'float', 'double')
STRINGY = ('string', 'normalizedString', 'token', 'NCName', 'untypedAtomic', 'anyURI')
DURS = ('duration', 'yearMonthDuration', 'dayTimeDuration')
DIRECTED = [
    ('double', '1', 'double', '1.00000001'), ('double', '1.0000000000000002', 'double', '1'),
    ('float', '1', 'float', '1.0000001'), ('float', '1.1', 'double', '1.1'), ('float', '16777217', 'integer', '16777216'),
    ('integer', '9007199254740993', 'double', '9007199254740992'), ('decimal', '0.30000000000000001', 'double', '0.3'),
    ('decimal', '1.00000001', 'decimal', '1'), ('untypedAtomic', '0.30000000000000001', 'decimal', '0.3'),
    ('untypedAtomic', '9007199254740993', 'integer', '9007199254740992'),
    ('dateTime', '2000-12-31T23:00:00-05:00', 'dateTime', '2001-01-01T04:00:00Z'),
    ('dateTime', '2000-12-31T23:00:00-05:00', 'dateTime', '2001-01-01T00:00:00Z'),
    ('date', '2000-01-01+14:00', 'date', '1999-12-31-10:00'), ('time', '23:00:00-05:00', 'time', '01:00:00+02:00'),
    ('gDay', '---01-10:00', 'gDay', '---02+14:00'),
    ('duration', 'P1Y', 'duration', 'P13M'), ('duration', 'P1D', 'dayTimeDuration', 'PT25H'),
    ('gYear', '2000Z', 'gYear', '2001Z'), ('QName', 'p:a', 'QName', 'q:a'), ('QName', 'a', 'string', 'a'),
    ('hexBinary', 'ff', 'hexBinary', '00ff'), ('hexBinary', '00', 'base64Binary', 'AA=='),
    ('boolean', 'true', 'integer', '1'), ('integer', '1', 'date', '2000-01-01'), ('time', '11:00:00Z', 'untypedAtomic', '11:00:00Z'),
    ('untypedAtomic', 'B', 'untypedAtomic', ''), ('untypedAtomic', '1.0', 'untypedAtomic', '1'),
    ('yearMonthDuration', 'P0M', 'dayTimeDuration', 'PT0S'), ('yearMonthDuration', 'P1Y', 'duration', 'P1Y'), ('untypedAtomic', 'b', 'decimal', '1.0'),
    ('date', '2000-01-01Z', 'untypedAtomic', 'abc'), ('date', '2000-01-02Z', 'untypedAtomic', '2000-01-01Z'),
    ('double', 'NaN', 'double', 'NaN'), ('float', 'NaN', 'integer', '1'), ('double', '0', 'double', '-0'),
    ('string', 'a', 'anyURI', 'a'), ('anyURI', 'a', 'untypedAtomic', ' a '), ('untypedAtomic', ' a ', 'anyURI', 'a'), ('untypedAtomic', 'a', 'string', 'a'), ('untypedAtomic', '1', 'integer', '1'),
]


def g_item(r, t, z, other=None):
    """one item of type t; for untypedAtomic prefer lexical forms castable to the other side's type"""
    if t == 'untypedAtomic' and other is not None and other != 'untypedAtomic' and r.random() < 0.75:
        if other == 'QName':
            lex = r.choice(['a', 'b'])
        else:
            lex = r.choice(pool(other, z)) if r.random() < 0.8 else r.choice(JUNK)
        return ['untypedAtomic', lex, 'c']
    lex = r.choice(pool(t, z))
    form = 'c'
    if t in LITERAL_OK and LITERAL_OK[t](lex) and r.random() < 0.35:
        form = 'l'
    return [t, lex, form]


def g_equal_partner(r, a_item, tb, z, v):
    """try to find an item of type tb that the model says is eq to a_item"""
    a = model_item(a_item)
    if a is None:
        return None
    cands = list(pool(tb, z))
    r.shuffle(cands)
    for lex in cands[:12]:
        b = model_item([tb, lex])
        if b is not None and M.value_compare(a, b, 'eq', v) is True:
            return [tb, lex, 'c']
    return None


def run(h):
    r = h.rng
    vi = 0

    def nextv():
        nonlocal vi
        vi += 1
        return VERSIONS[(vi + h.shard) % 3]

    # xs:dateTimeStamp (XSD 1.1 parsers) against xs:dateTime and itself
    if h.shard == 0:
        zs = POOLS['dateTime']['z']
        for i, la in enumerate(zs[:8]):
            for lb in (zs[(i + 1) % 8], la, zs[(i + 3) % 8]):
                for ta, tb in (('dateTimeStamp', 'dateTime'), ('dateTime', 'dateTimeStamp'), ('dateTimeStamp', 'dateTimeStamp')):
                    h.case('stamp', {'v': nextv(), 'a': la, 'b': lb, 'ta': ta, 'tb': tb})
    # 0. directed pairs: one per mechanism the spec pins down precisely (kept in every run)
    for ta, la, tb, lb in DIRECTED:
        for v in VERSIONS:
            h.case('value', {'v': v, 'l': [ta, la, 'c'], 'r': [tb, lb, 'c']})
            h.case('general', {'v': v, 'L': [[ta, la, 'c']], 'R': [[tb, lb, 'c']]})
    # 0b. numeric tower: ALL ordered pairs of pool values of the four primitive numeric types (promotion must not
    #     round one side only: 2^53+1 vs 2^53 as integer/decimal/double, 0.1 as decimal/float/double, ...)
    core = ('integer', 'decimal', 'float', 'double')
    for ta in core:
        for tb in core:
            for la in POOLS[ta]:
                for lb in POOLS[tb]:
                    h.case('value', {'v': nextv(), 'l': [ta, la, 'c'], 'r': [tb, lb, 'c']})
    # 1. value comparison matrix
    reps = max(1, h.n(2))
    for ta in TYPES:
        for tb in TYPES:
            n = reps
            if ta == tb or (ta in NUMERIC and tb in NUMERIC) or (ta in STRINGY and tb in STRINGY) \
                    or (ta in DURS and tb in DURS):
                n = reps * 4
            for k in range(n):
                z = r.random() < 0.6
                a = g_item(r, ta, z, tb)
                b = g_item(r, tb, z, ta)
                h.case('value', {'v': nextv(), 'l': a, 'r': b})
            z = r.random() < 0.6
            a = g_item(r, ta, z, tb)
            v = nextv()
            b = g_equal_partner(r, a, tb, z, v)
            if b is not None:
                h.case('value', {'v': v, 'l': a, 'r': b})
    # 2. general comparison matrix: singletons, then sequences
    for ta in TYPES:
        for tb in TYPES:
            n = 1
            if ta == tb or (ta in NUMERIC and tb in NUMERIC) or (ta in STRINGY and tb in STRINGY) \
                    or (ta in DURS and tb in DURS) or 'untypedAtomic' in (ta, tb):
                n = 5
            for k in range(n):
                z = r.random() < 0.6
                h.case('general', {'v': nextv(), 'L': [g_item(r, ta, z, tb)], 'R': [g_item(r, tb, z, ta)]})
            for k in range(max(1, h.n(2))):
                z = r.random() < 0.6
                nl, nr = r.choice([0, 1, 2, 2, 3, 3]), r.choice([0, 1, 2, 2, 3, 3])
                h.case('general', {'v': nextv(), 'L': [g_item(r, ta, z, tb) for _ in range(nl)],
                                   'R': [g_item(r, tb, z, ta) for _ in range(nr)]})
    # 3. value comparison cardinalities
    for _ in range(h.n(150)):
        ta, tb = r.choice(TYPES), r.choice(TYPES)
        z = r.random() < 0.5
        nl, nr = r.choice([0, 0, 1, 2, 3]), r.choice([0, 1, 1, 2])
        h.case('value_seq', {'v': nextv(), 'L': [g_item(r, ta, z) for _ in range(nl)],
                             'R': [g_item(r, tb, z) for _ in range(nr)]})
    # 4. law triples per type
    for t in TYPES:
        for _ in range(max(1, h.n(6))):
            z = r.random() < 0.6
            items = [g_item(r, t, z) for _ in range(3)]
            h.case('triple', {'v': nextv(), 'items': items})
    # 5. EBV
    def g_s(maxlen=3):
        x = r.random()
        if x < 0.08:
            return []
        n = 1 if x < 0.6 else r.randint(2, maxlen)
        S = []
        for _ in range(n):
            y = r.random()
            if y < 0.62:
                t = r.choice(TYPES)
                S.append(['a'] + g_item(r, t, r.random() < 0.5))
            elif y < 0.9:
                S.append(list(r.choice(NODE_ITEMS)))
            else:
                S.append(list(r.choice(OTHER_ITEMS)))
        return S
    for t in TYPES:                      # every singleton row at least a few times
        for lex in pool(t, True):
            h.case('ebv', {'v': nextv(), 'S': [['a', t, lex, 'c']]})
    for it in NODE_ITEMS + OTHER_ITEMS:
        h.case('ebv', {'v': nextv(), 'S': [list(it)]})
    for _ in range(h.n(700)):
        h.case('ebv', {'v': nextv(), 'S': g_s()})
    # 6. logic
    for _ in range(h.n(900)):
        h.case('logic', {'v': nextv(), 'A': g_s(2), 'B': g_s(2)})
    # 7. compatibility mode
    def g_opd(kind=None):
        k = kind or r.choice(['nodeset', 'nodeset', 'string', 'number', 'boolean'])
        if k == 'nodeset':
            return ['nodeset', r.choice(COMPAT_PATHS)]
        if k == 'string':
            return ['string', r.choice(COMPAT_STRINGS) if r.random() < 0.8 else r.choice(TRICKY_STRINGS)]
        if k == 'number':
            return ['number', r.choice(COMPAT_NUMBERS)]
        return ['boolean', r.random() < 0.5]
    ck = ['nodeset', 'string', 'number', 'boolean']
    for a in ck:
        for b in ck:
            for _ in range(max(1, h.n(60))):
                h.case('compat', {'doc': r.randrange(len(COMPAT_DOCS)), 'l': g_opd(a), 'r': g_opd(b)})
    for _ in range(h.n(300)):
        h.case('compat_logic', {'doc': r.randrange(len(COMPAT_DOCS)), 'A': g_opd(), 'B': g_opd()})


def floors(v):
    reasons = []
    if v.got('stamp_comparisons') < 300:
        reasons.append('fewer than 300 xs:dateTimeStamp comparisons')
    nt = len(TYPES)
    for fam in ('value', 'general'):
        cells = v.counters.get('cell:' + fam, {})
        want = nt * nt
        seen = sum(1 for k in cells if ' x empty' not in k and not k.startswith('empty'))
        if seen < want:
            reasons.append('%s comparison matrix: %d of %d type-pair cells visited' % (fam, seen, want))
    for op in VALUE_OPS:
        if v.got('op:value', op) < 500:
            reasons.append('value operator %s decided fewer than 500 times' % op)
    for op in GENERAL_OPS:
        if v.got('op:general', op) < 300:
            reasons.append('general operator %s decided fewer than 300 times' % op)
        for p in ('xp1', 'xp2c'):
            if v.got('op:compat:' + p, op) < 100:
                reasons.append('compatibility operator %s (%s) compared with libxml2 fewer than 100 times' % (op, p))
    for rel in ('equal', 'less', 'greater', 'incomparable'):
        if v.got('relation', rel) < 50:
            reasons.append('relation %s seen fewer than 50 times' % rel)
    for row in ('empty', 'node-first', 'multi-atomic', 'singleton-boolean', 'singleton-string', 'singleton-num',
                'singleton-untyped', 'singleton-anyURI', 'singleton-function-item', 'singleton-date'):
        if v.got('ebv_table_row', row) < 3:
            reasons.append('EBV table row %s exercised fewer than 3 times' % row)
    if v.got('law_checks') < 2000:
        reasons.append('fewer than 2000 order-law checks')
    if v.got('oracle_comparisons', 'libxml2') < 500:
        reasons.append('fewer than 500 comparisons against libxml2')
    if v.got('logic_form') < 500:
        reasons.append('fewer than 500 decided and/or expressions')
    return reasons
