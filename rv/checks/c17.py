"""C17 - JSON and XML serialisation round-trip through their parsers.

Three families, all evaluated with XPath31Parser at token level (engine.evaluate):
  json_value : v -> serialize(v, map{'method':'json'}) -> parse-json, compared with the value model
               and with an independent RFC 8259 reading of the serialised text;
  json_text  : JSON text t in many spellings -> xml-to-json(json-to-xml(t[, escape])) read back by the
               independent reader and compared with the reading of t;
  xml_tree   : generated trees (ElementTree and lxml) -> parse-xml(serialize(.)) compared with the
               source by an independent XDM deep-equal over the etree data, and with fn:deep-equal.
"""
import json
import math
from decimal import Decimal
import xml.etree.ElementTree as ET

import lxml.etree as LX

from ..core import Outcome
from ..engine import call, evaluate
from ..models import jsonmodel as jm

from elementpath.xpath_tokens import XPathMap, XPathArray

PROPERTY = 'C17'
LEVEL = 'exploration'
RULE = ('json_value: random JSON-representable XDM values (depth<=3; strings over 14 character classes incl. '
        'quote/backslash/solidus/escape look-alikes/C1/astral; integers up to 10^30, doubles incl. subnormal/max/'
        'exponent forms, decimals with 0-12 fraction digits; empty sequence at top/array-member/map-value; keys '
        'differing only by case or normalisation form) bound through variables; json_text: the same value space '
        'plus non-XML code points (NUL, C0, lone surrogates, U+FFFE/F) written with random RFC 8259 spellings '
        '(raw / short escape / \\uXXXX either case / surrogate-pair escapes / \\/ / inter-token whitespace / number '
        'lexical forms with exponents, fractions, negative zero, trailing zeros), with and without escape=true, on '
        'ElementTree and lxml; xml_tree: random documents (<=25 nodes, depth<=4, namespaces with default/prefixed/'
        'undeclared-default, attributes, mixed content, comments, PIs, markup and non-ASCII characters), context = '
        'document node, root element or inner element (with tail). A case is non-trivial when the value/tree has at '
        'least one container or special character class / at least 3 nodes; distinct by canonical JSON of the case.')
ASSUMPTIONS = [
    "CPython's json module with parse_constant/duplicate hooks is the independent RFC 8259 reader",
    'all numbers are compared as IEEE doubles (nearest double of the exact value): a JSON number is an xs:double '
    'for parse-json and xml-to-json, and deep-equal promotes integer/decimal to double against a double',
    'for an element node the statement is read as deep-equal(parse-xml(serialize(.))/*, .): a document node is '
    'never deep-equal to an element node, so the literal reading would be unsatisfiable',
    'json_text without escape=true: code points that are not XML 1.0 characters are expected as U+FFFD (the '
    'default fallback of fn:json-to-xml); with escape=true the value must be preserved exactly',
    'texts whose numbers overflow the double range and texts with duplicate keys are not decided',
    'XML 1.0 characters only in generated trees and XDM strings; lxml (libxml2) is the independent XML parser '
    'used to read the output of fn:serialize',
    'the result tree of parse-xml is read from DocumentNode.value (the etree object the caller would receive)',
]

J = 'map{"method":"json"}'
ET_DUMMY = None
LX_DUMMY = None


def dummy(lib):
    global ET_DUMMY, LX_DUMMY
    if lib == 'lxml':
        if LX_DUMMY is None:
            LX_DUMMY = LX.fromstring('<dummy/>')
        return LX_DUMMY
    if ET_DUMMY is None:
        ET_DUMMY = ET.XML('<dummy/>')
    return ET_DUMMY


def xp(root, expr, **kw):
    """token-level evaluation (elementpath.select would flatten arrays into Python lists)"""
    return call(evaluate, expr, '3.1', root, **kw)


def symptom(o):
    if o[0] == 'err':
        return 'error:%s' % (o[1] or o[2])
    return 'exception:%s@%s' % (o[1], o[2])


def short(x, n=160):
    s = x if isinstance(x, str) else repr(x)
    s = json.dumps(s, ensure_ascii=True) if isinstance(x, str) else s
    return s if len(s) <= n else s[:n] + '...'


# =========================================================================== value generators
STR_ATOMS = {
    'ascii': ['a', 'Z', '0', '_', '-', '.', ':', ',', '{', '}', '[', ']', 'true', 'null', 'e', 'E'],
    'space': [' '],
    'quote': ['"'],
    'apos': ["'"],
    'backslash': ['\\'],
    'solidus': ['/'],
    'xml-markup': ['<', '>', '&', '&amp;', ']]>', '<!--'],
    'tab-lf-cr': ['\n', '\r', '\t', '\r\n'],
    'del-c1': ['\x7f', '\x80', '\x85', '\x9f'],
    'latin1': ['\xe9', '\xdf', '\xa0', '\xff'],
    'bmp': ['\u20ac', '\u4e2d', 'e\u0301', '\ufffd', '\u2028', '\u01c5', '\ufb01', '\ud7ff', '\ue000'],
    'astral': ['\U0001F600', '\U00010000', '\U0010FFFF', '\U0001D11E'],
    'escape-lookalike': ['\\n', '\\u0041', '\\"', '\\\\', '\\/', '\\t', '\\u00e9', '\\b', '\\ud83d\\ude00',
                         '\\\\n', '\\\\u0041'],
}
NONXML_ATOMS = {
    'nul': ['\x00'],
    'bs-ff': ['\b', '\f'],
    'c0-other': ['\x01', '\x0b', '\x1b', '\x1f'],
    'lone-surrogate': ['\ud800', '\udfff', '\udc00\ud800', '\ud83d', 'a\ude00'],
    'nonchar-fffe-ffff': ['\ufffe', '\uffff'],
}
XDM_CLASSES = sorted(STR_ATOMS)
ALL_CLASSES = sorted(list(STR_ATOMS) + list(NONXML_ATOMS))
KEY_FAMILIES = [['a', 'A'], ['k', 'K', '\u212a'], ['\xe9', 'e\u0301', '\xc9'], ['ss', '\xdf', 'SS'],
                ['1', '1.0', '01'], ['', ' ', '  '], ['a/b', 'a\\/b', 'a\\b'], ['\ufb01', 'fi'],
                ['\u212b', '\xc5', 'A\u030a']]


def g_string(r, nonxml=False):
    x = r.random()
    if x < 0.06:
        return ''
    pool = ALL_CLASSES if nonxml else XDM_CLASSES
    n = 1 if x < 0.45 else (2 if x < 0.8 else r.randint(3, 5))
    parts = []
    for _ in range(n):
        c = r.choice(pool) if r.random() < 0.8 else 'ascii'
        atoms = STR_ATOMS.get(c) or NONXML_ATOMS[c]
        parts.append(r.choice(atoms))
    if r.random() < 0.08:
        parts.insert(0, ' ')
    if r.random() < 0.08:
        parts.append(' ')
    return ''.join(parts)


def g_keys(r, n, nonxml=False):
    keys = []
    fam = r.choice(KEY_FAMILIES)
    for _ in range(n):
        x = r.random()
        if x < 0.45:
            k = r.choice(fam)
        elif x < 0.7:
            k = r.choice(['a', 'b', 'key', 'x1', 'id'])
        else:
            k = g_string(r, nonxml)
        if k not in keys:
            keys.append(k)
    return keys


INTS = [0, 1, -1, 7, 42, -12, 100, 1000000, 2 ** 31, -2 ** 31 - 1, 2 ** 53, 2 ** 53 + 1, 2 ** 63 - 1, -2 ** 63,
        2 ** 64, 10 ** 20, 10 ** 30, 12345678901234567890, 10 ** 15, 10 ** 16, 10 ** 21, 10 ** 22]
DOUBLES = [0.0, -0.0, 1.0, -1.0, 1.5, 0.1, 1 / 3, 2.5, 1e15, 1e16, 1e20, 1e21, 1e22, 1e100, 1.7976931348623157e308,
           4.9e-324, 2.2250738585072014e-308, 1e-5, 1e-4, 1e-7, 1e-10, 1.5e-10, 123456789.125, 9007199254740993.0,
           1e300, -1e-300, 100.0, 120.0, 1200000.0, 3.0e10, 1.25e20, 2e-20]
DECIMALS = ['0', '1', '-1', '1.5', '0.1', '0.25', '100.25', '1.10', '3.14159', '0.005', '1.005', '-2.675', '-0.004',
            '0.001', '12345678.123456789', '0.000001', '0.333333333333', '99.999', '1.0', '123456789012345678.5',
            '0.0000000001', '-7.125', '2.50', '19.99', '0.015', '1000000.001']


def g_int(r):
    x = r.random()
    if x < 0.5:
        return r.choice(INTS)
    if x < 0.8:
        return r.randint(-1000, 1000)
    return r.randint(-10 ** 25, 10 ** 25)


def g_double(r):
    x = r.random()
    if x < 0.45:
        return r.choice(DOUBLES)
    if x < 0.7:
        return round(r.uniform(-1000, 1000), r.randint(0, 6))
    m = r.randint(1, 10 ** r.randint(1, 17))
    e = r.randint(-320, 291)
    try:
        v = float('%de%d' % (m, e))
    except (ValueError, OverflowError):
        v = 1.0
    if math.isinf(v):
        v = 1e308
    return -v if r.random() < 0.3 else v


def g_decimal(r):
    x = r.random()
    if x < 0.5:
        return r.choice(DECIMALS)
    nd = r.randint(0, 12)
    n = r.randint(-10 ** r.randint(1, 16), 10 ** r.randint(1, 16))
    return str(Decimal(n).scaleb(-nd))


def g_leaf(r, nonxml, decimals):
    x = r.random()
    if x < 0.38:
        return ['s', g_string(r, nonxml)]
    if x < 0.46:
        return ['b', r.random() < 0.5]
    if x < 0.56:
        return ['e']
    if x < 0.70:
        return ['i', str(g_int(r))]
    if x < 0.86 or not decimals:
        return ['d', repr(g_double(r))]
    return ['dec', g_decimal(r)]


def g_value(r, depth=0, nonxml=False, decimals=True):
    x = r.random()
    if depth >= 3 or x < (0.25 if depth == 0 else 0.55):
        return g_leaf(r, nonxml, decimals)
    n = r.choice([0, 1, 1, 2, 2, 3, 4])
    if x < 0.78:
        return ['a', [g_value(r, depth + 1, nonxml, decimals) for _ in range(n)]]
    return ['m', [[k, g_value(r, depth + 1, nonxml, decimals)] for k in g_keys(r, n, nonxml)]]


# number lexical forms for json_text (value, spelled in ways repr() never produces)
NUM_LEX = ['0', '-0', '0.0', '-0.0', '0e0', '0E-5', '1', '-1', '10', '100', '1e0', '1E0', '1e+0', '1e-0', '1e1', '1e2',
           '1E+3', '1e10', '1e15', '1e16', '1e17', '1e20', '1E20', '1e21', '1e22', '1e100', '1e300', '2.50', '2.500e0',
           '1.0', '1.10', '0.1', '0.10', '1.5e-7', '1e-5', '1e-6', '1e-7', '1e-10', '1e-20', '1e-100', '1e-400',
           '4.9e-324', '1.7976931348623157e308', '12345678901234567890', '9007199254740993', '100000000000000000000',
           '123456789.123456789123', '0.000001', '0.0000001', '3.14159', '-2.675', '120', '1200', '12000000000000000000',
           '1.2e20', '5e-324', '2e-324', '0.1e1', '10e-1', '100e-2', '1234.5E-2', '6.02214076e23', '6.62607015e-34']


def g_numlex(r):
    x = r.random()
    if x < 0.6:
        s = r.choice(NUM_LEX)
    else:
        ip = str(r.randint(0, 10 ** r.randint(1, 18)))
        s = ip
        if r.random() < 0.6:
            s += '.' + ''.join(r.choice('0123456789') for _ in range(r.randint(1, 10)))
        if r.random() < 0.6:
            s += r.choice('eE') + r.choice(['', '+', '-', '-']) + str(r.randint(0, 40) if r.random() < 0.8
                                                                     else r.randint(0, 280))
    if r.random() < 0.25 and not s.startswith('-'):
        s = '-' + s
    return s


def g_text_value(r, depth=0):
    """spec for json_text: numbers are ['num', lexical]"""
    x = r.random()
    if depth >= 3 or x < (0.2 if depth == 0 else 0.55):
        y = r.random()
        if y < 0.45:
            return ['s', g_string(r, True)]
        if y < 0.53:
            return ['b', r.random() < 0.5]
        if y < 0.6:
            return ['e']
        return ['num', g_numlex(r)]
    n = r.choice([0, 1, 1, 2, 2, 3, 4])
    if x < 0.75:
        return ['a', [g_text_value(r, depth + 1) for _ in range(n)]]
    return ['m', [[k, g_text_value(r, depth + 1)] for k in g_keys(r, n, True)]]


# =========================================================================== atoms (failure isolation)
GROUPS = {
    'escape=false': {'nul': 'non-xml-char', 'bs-ff': 'non-xml-char', 'c0-other': 'non-xml-char',
                     'lone-surrogate': 'non-xml-char', 'nonchar-fffe-ffff': 'non-xml-char',
                     'escape-lookalike': 'backslash'},
    'escape=true': {'nul': 'needs-escape', 'bs-ff': 'needs-escape', 'c0-other': 'needs-escape',
                    'lone-surrogate': 'needs-escape', 'nonchar-fffe-ffff': 'needs-escape',
                    'escape-lookalike': 'needs-escape', 'backslash': 'needs-escape', 'tab-lf-cr': 'needs-escape',
                    'del-c1': 'needs-escape'},
}


def atoms(spec, where='top', acc=None):
    """[(class, mini spec)] of the independent ingredients of a value (at most 3 minis per class)"""
    if acc is None:
        acc = []
    t = spec[0]

    def add(cls, mini):
        same = [m for c, m in acc if c == cls]
        if len(same) < 10 and mini not in same:
            acc.append((cls, mini))

    if t == 's':
        string_atoms(spec[1], 'string', lambda s: ['a', [['s', s]]], add)
    elif t == 'b':
        add('boolean', ['a', [spec]])
    elif t == 'e':
        mini = {'top': ['e'], 'array-member': ['a', [['e']]], 'map-value': ['m', [['k', ['e']]]]}[where]
        add('empty-sequence/' + where, mini)
    elif t in ('i', 'd', 'dec', 'num'):
        add(jm.number_class(spec), ['a', [spec]])
    elif t == 'a':
        if not spec[1]:
            add('array/empty', ['a', []])
        for x in spec[1]:
            atoms(x, 'array-member', acc)
    elif t == 'm':
        if not spec[1]:
            add('map/empty', ['m', []])
        for k, v in spec[1]:
            string_atoms(k, 'key', lambda s: ['m', [[s, ['s', 'x']]]], add)
            if v[0] != 's' and jm.string_classes(k):
                # second-order ingredient: the same key in front of a value that is not a string
                mini = {'b': ['b', True], 'e': ['e'], 'a': ['a', []], 'm': ['m', []]}.get(v[0], ['num', '1'])
                add('key-with-non-string-value', ['m', [[k, mini]]])
            atoms(v, 'map-value', acc)
    return acc


def string_atoms(s, prefix, wrap, add):
    classes = jm.string_classes(s)
    for c in classes:
        if c == 'empty':
            add('%s/empty' % prefix, wrap(''))
        elif c == 'edge-space':
            lead = len(s) - len(s.lstrip(' '))
            trail = len(s) - len(s.rstrip(' '))
            add('%s/edge-space' % prefix, wrap(' ' * lead + ('a' if s.strip(' ') else '') + ' ' * trail))
        elif c == 'escape-lookalike':
            for i, ch in enumerate(s[:-1]):
                if ch == '\\' and s[i + 1] in 'ubfnrt"/\\':
                    add('%s/escape-lookalike' % prefix, wrap(s[i:i + (6 if s[i + 1] == 'u' else 2)]))
        else:
            # (lone surrogates are kept apart so that they cannot pair up)
            chars = ('a' if c == 'lone-surrogate' else '').join(
                dict.fromkeys(ch for ch in s if jm.char_class(ch) == c))
            add('%s/%s' % (prefix, c), wrap(chars))
    if not classes:
        add('%s/%s' % (prefix, jm.string_label(s)), wrap(s))


def has_container_or_special(spec):
    t = spec[0]
    if t in ('a', 'm'):
        return True
    if t == 's':
        return bool(jm.string_classes(spec[1]))
    return t in ('dec', 'd', 'num', 'e')


# =========================================================================== family 1: json_value
def xdm_to_model(v, notes):
    """engine result of parse-json -> model value (numbers as doubles)"""
    if isinstance(v, list):
        if not v:
            return None
        raise ValueError('sequence of %d items' % len(v))
    if v is None:
        return None
    if isinstance(v, bool):
        return v
    if isinstance(v, XPathMap):
        d = {}
        for k, x in v.items():
            if not isinstance(k, str):
                raise ValueError('non-string key %r' % (k,))
            d[str(k)] = xdm_to_model(x, notes)
        return d
    if isinstance(v, XPathArray):
        return [xdm_to_model(x, notes) for x in v.items()]
    if isinstance(v, float):
        notes.add('number-as-double')
        return float(v)
    if isinstance(v, int):
        notes.add('number-as-integer')
        return jm.to_double(int(v))
    if isinstance(v, Decimal):
        notes.add('number-as-decimal')
        return jm.to_double(v)
    if isinstance(v, str):
        return str(v)
    raise ValueError('unexpected item %s' % type(v).__name__)


def value_expr(spec, variables):
    t = spec[0]

    def var(val):
        name = 'v%d' % len(variables)
        variables[name] = val
        return '$' + name

    if t == 's':
        return var(spec[1])
    if t == 'b':
        return 'true()' if spec[1] else 'false()'
    if t == 'e':
        return '()'
    if t == 'i':
        return var(int(spec[1]))
    if t == 'd':
        return var(float(spec[1]))
    if t == 'num':
        return var(jm.to_double(spec[1]))
    if t == 'dec':
        return var(Decimal(spec[1]))
    if t == 'a':
        return '[' + ', '.join(value_expr(x, variables) for x in spec[1]) + ']'
    if t == 'm':
        return 'map{' + ', '.join('%s: %s' % (var(k), value_expr(v, variables)) for k, v in spec[1]) + '}'
    raise ValueError(spec)


def value_pipeline(spec, lib):
    """-> list of (symptom, class-or-None, detail); empty when the value round-trips"""
    problems = []
    variables = {}
    expr = value_expr(spec, variables)
    root = dummy(lib)
    ser = 'serialize(%s, %s)' % (expr, J)
    o = xp(root, ser, variables=variables)
    if o[0] != 'ok':
        return [('serialize/' + symptom(o), None, {'expr': ser})], None
    text = o[1]
    if isinstance(text, list) and len(text) == 1:
        text = text[0]
    if not isinstance(text, str):
        return [('serialize/not-a-string', None, {'expr': ser, 'got': short(text)})], None
    text_class = None
    try:
        ind = jm.loads(text)
    except jm.NotJSON as e:
        problems.append(('serialize/output-not-json', None, {'text': short(text), 'reader': str(e)}))
    except jm.DuplicateKey as e:
        problems.append(('serialize/output-duplicate-key', None, {'text': short(text), 'key': short(str(e))}))
    else:
        d = jm.diff(spec, ind)
        if d is not None:
            text_class = d[0]
            problems.append(('serialize/text-meaning', d[0],
                             {'text': short(text), 'expected': short(d[1]), 'independent-reader': short(d[2])}))
    o = xp(root, 'parse-json(%s)' % ser, variables=variables)
    rt_equal = None
    notes = set()
    if o[0] != 'ok':
        problems.append(('roundtrip/parse-json-' + symptom(o), None, {'text': short(text)}))
    else:
        try:
            got = xdm_to_model(o[1], notes)
        except ValueError as e:
            problems.append(('roundtrip/parse-json-result-shape', None, {'text': short(text), 'why': str(e)}))
        else:
            d = jm.diff(spec, got)
            rt_equal = d is None
            if d is not None and d[0] != text_class:
                problems.append(('roundtrip/value-changed', d[0],
                                 {'text': short(text), 'expected': short(d[1]), 'parse-json': short(d[2])}))
    o = xp(root, 'deep-equal(parse-json(%s), %s)' % (ser, expr), variables=variables)
    if o[0] != 'ok':
        if rt_equal is not None:
            problems.append(('deep-equal/' + symptom(o), None, {'text': short(text)}))
    elif rt_equal is not None and isinstance(o[1], bool) and o[1] != rt_equal:
        problems.append(('deep-equal/engine-%s-model-%s' % (str(o[1]).lower(), 'equal' if rt_equal else 'differs'),
                         None, {'text': short(text)}))
    # the property as stated: the very same XDM value (bound to a variable) is serialised, parsed back and
    # compared with itself; serialize() must not modify it on the way
    from ..engine import describe
    v = xp(root, '(%s)' % expr, variables=variables)
    if v[0] == 'ok':
        vs = dict(variables, v=v[1])
        before = describe(v[1])
        o = xp(root, 'deep-equal(parse-json(serialize($v, %s)), $v)' % J, variables=vs)
        after = describe(v[1])
        if before != after:
            problems.append(('serialize/operand-modified', None,
                             {'before': short(before), 'after': short(after)}))
        elif o[0] == 'ok' and isinstance(o[1], bool) and rt_equal is True and o[1] is False \
                and not any(p[0].startswith('deep-equal/') for p in problems):
            problems.append(('deep-equal/same-value-bound-to-variable/engine-false-model-equal', None,
                             {'text': short(text)}))
    return problems, (text, sorted(notes))


def grouped(cls, group):
    head, _, tail = cls.partition('/')
    g = GROUPS.get(group, {})
    return head + '/' + g.get(tail, tail) if tail else cls


def neutral_prefix(prefix, cls):
    """the escape option only concerns strings and keys: other ingredients get one key for both settings"""
    if cls.startswith(('string/', 'key/', 'key-with-')):
        return prefix
    return prefix.replace('/escape=true', '/escape=any').replace('/escape=false', '/escape=any')


def keys_collide_after_replacement(spec):
    """some map has two distinct keys that are equal once every code point that is not an XML character is
    replaced by U+FFFD"""
    def ok(cp):
        return cp in (9, 10, 13) or 0x20 <= cp <= 0xD7FF or 0xE000 <= cp <= 0xFFFD or 0x10000 <= cp <= 0x10FFFF

    def walk(v):
        if not isinstance(v, list) or not v:
            return False
        if v[0] == 'm':
            keys = [k for k, _ in v[1]]
            rep = [''.join(ch if ok(ord(ch)) else '\ufffd' for ch in k) for k in keys]
            if len(set(rep)) < len(set(keys)):
                return True
            return any(walk(x) for _, x in v[1])
        if v[0] == 'a':
            return any(walk(x) for x in v[1])
        return False
    return walk(spec)


def keys_collide_after_unescaping(spec):
    """some map of the value has two distinct keys that become equal when backslash sequences inside the key
    TEXT are (wrongly) interpreted once more, e.g. 'é' and the six characters '\\u00e9'"""
    import re as _re

    def unesc(k):
        k = _re.sub(r'\\u([0-9a-fA-F]{4})', lambda m: chr(int(m.group(1), 16)), k)
        return k.replace('\\\\', '\\')

    def walk(v):
        if not isinstance(v, list) or not v:
            return False
        if v[0] == 'm':
            keys = [k for k, _ in v[1]]
            un = [unesc(k) for k in keys]
            if len(set(un)) < len(set(keys)):
                return True
            return any(walk(x) for _, x in v[1])
        if v[0] == 'a':
            return any(walk(x) for x in v[1])
        return False
    return walk(spec)


def run_isolated(spec, problems, pipeline, out, prefix, group=None):
    """emit one failure per failing ingredient; fall back to the whole-value classification"""
    emitted = set()
    symptoms = set()
    n = 0
    ingredients = atoms(spec)
    # second-order ingredients (a special key in front of a non-string value) are reported only when they
    # fail with a symptom that no first-order ingredient of this case shows
    ordered = [a for a in ingredients if not a[0].startswith('key-with-')] + \
        [a for a in ingredients if a[0].startswith('key-with-')]
    for cls, mini in ordered:
        n += 1
        if n > 150:
            break
        second = cls.startswith('key-with-')
        sub = pipeline(mini)
        for sym, c, detail in sub:
            if second and sym in symptoms:
                continue
            key = '%s/%s/%s' % (neutral_prefix(prefix, cls), sym, grouped(cls, group))
            if key not in emitted:
                emitted.add(key)
                detail = dict(detail)
                detail['isolated-ingredient'] = mini
                detail['ingredient-class'] = cls
                out.fail(key, detail)
        if not second:
            symptoms.update(sym for sym, _, _ in sub)
    if not emitted:
        for sym, c, detail in problems:
            cls = grouped(c.split('+')[0], group) if c else 'unclassified'
            if c is None and 'FOJS0006' in sym and keys_collide_after_replacement(spec):
                # two keys that differ only in characters XML cannot hold both become U+FFFD (escape=false is
                # lossy by design): the duplicate is a consequence of the input, not a defect
                out.dim('undecided', 'keys-collide-after-U+FFFD-replacement')
                continue
            if c is None and 'FOJS0006' in sym and keys_collide_after_unescaping(spec):
                # two distinct keys, one of them with a literal backslash: only their combination fails
                cls = 'keys-differing-by-an-escaped-backslash-taken-for-duplicates'
            key = '%s/%s/combination/%s' % (prefix, sym, cls)
            if key not in emitted:
                emitted.add(key)
                out.fail(key, detail)


def check_json_value(case, out):
    spec, lib = case['v'], case.get('lib', 'et')
    problems, info = value_pipeline(spec, lib)
    out.dim('json_value_lib', lib)
    out.dim('json_value_top', spec[0])
    for cls, _ in atoms(spec):
        out.dim('json_value_ingredient', cls)
    out.dim('oracle_comparisons', 'json_value', 3)
    if info is not None:
        for nt in info[1]:
            out.dim('parse_json_number_type', nt)
    out.nontrivial = has_container_or_special(spec)
    out.obs = 'text=%s problems=%d' % (short(info[0], 80) if info else None, len(problems))
    if problems:
        run_isolated(spec, problems, lambda m: value_pipeline(m, lib)[0], out, 'C17/json-value')


# =========================================================================== family 2: json_text
def text_pipeline(text, escape, lib, spec=None):
    """-> (problems, out text)"""
    try:
        pyv = json.loads(text, parse_float=Decimal, parse_constant=jm._reject_constant,
                         object_pairs_hook=jm._pairs)
        if spec is None:
            spec = numify(jm.spec_of_python(pyv))
        expected = jm.loads(text)
    except jm.DuplicateKey:
        return 'undecided:duplicate-keys', None
    except (jm.NotJSON, ValueError, RecursionError):
        return 'undecided:not-json-for-the-reader', None
    if has_inf(expected):
        return 'undecided:number-overflow', None
    root = dummy(lib)
    expr = 'xml-to-json(json-to-xml($t%s))' % (', map{"escape": true()}' if escape else '')
    o = xp(root, expr, variables={'t': text})
    if o[0] != 'ok':
        stage = 'pipeline'
        o1 = xp(root, 'json-to-xml($t%s)' % (', map{"escape": true()}' if escape else ''), variables={'t': text})
        if o1[0] != 'ok':
            stage = 'json-to-xml'
        else:
            stage = 'xml-to-json'
        return [('%s/%s' % (stage, symptom(o)), None, {'t': short(text), 'escape': escape})], None
    res = o[1]
    if isinstance(res, list) and len(res) == 1:
        res = res[0]
    if not isinstance(res, str):
        return [('xml-to-json/not-a-string', None, {'t': short(text), 'got': short(res)})], None
    try:
        got = jm.loads(res)
    except jm.NotJSON as e:
        return [('output-not-json', None, {'t': short(text), 'escape': escape, 'out': short(res),
                                           'reader': str(e)})], res
    except jm.DuplicateKey:
        return [('output-duplicate-key', None, {'t': short(text), 'escape': escape, 'out': short(res)})], res
    d = jm.diff(spec, got, replace_nonxml=not escape)
    if d is not None:
        return [('value-changed', d[0], {'t': short(text), 'escape': escape, 'out': short(res),
                                         'expected': short(d[1]), 'got': short(d[2]),
                                         'xml': intermediate(text, escape, lib)})], res
    return [], res


def intermediate(text, escape, lib):
    try:
        o = xp(dummy(lib), 'json-to-xml($t%s)' % (', map{"escape": true()}' if escape else ''),
               variables={'t': text})
        if o[0] != 'ok':
            return list(o)
        doc = o[1][0] if isinstance(o[1], list) else o[1]
        doc = getattr(doc, 'value', doc)
        mod = LX if lib == 'lxml' else ET
        return short(mod.tostring(doc.getroot(), encoding='unicode'), 300)
    except Exception as e:  # diagnostics only
        return 'unavailable:%s' % type(e).__name__


def has_inf(v):
    if isinstance(v, float):
        return math.isinf(v) or v != v
    if isinstance(v, list):
        return any(has_inf(x) for x in v)
    if isinstance(v, dict):
        return any(has_inf(x) for x in v.values())
    return False


def canonical_text(spec):
    """plain ASCII spelling of a mini spec (numbers verbatim)"""
    t = spec[0]
    if t == 's':
        return json.dumps(spec[1], ensure_ascii=True)
    if t == 'b':
        return 'true' if spec[1] else 'false'
    if t == 'e':
        return 'null'
    if t in ('i', 'dec', 'num'):
        return spec[1]
    if t == 'd':
        return repr(float(spec[1]))
    if t == 'a':
        return '[' + ','.join(canonical_text(x) for x in spec[1]) + ']'
    return '{' + ','.join(json.dumps(k, ensure_ascii=True) + ':' + canonical_text(v) for k, v in spec[1]) + '}'


def text_spec(text):
    """spec of a JSON text with numbers kept lexically where possible"""
    pyv = json.loads(text, parse_float=Decimal, parse_constant=jm._reject_constant, object_pairs_hook=jm._pairs)
    return jm.spec_of_python(pyv)


def numify(spec):
    """['i'/'dec', lex] -> ['num', lex] so that isolation re-spells numbers verbatim"""
    t = spec[0]
    if t in ('i', 'dec'):
        return ['num', spec[1]]
    if t == 'a':
        return ['a', [numify(x) for x in spec[1]]]
    if t == 'm':
        return ['m', [[k, numify(v)] for k, v in spec[1]]]
    return spec


def check_json_text(case, out):
    text, escape, lib = case['t'], bool(case.get('escape')), case.get('lib', 'et')
    out.dim('json_text_lib', lib)
    out.dim('json_text_escape', escape)
    problems, res = text_pipeline(text, escape, lib)
    if isinstance(problems, str):
        out.dim('undecided', problems)
        out.nontrivial = False
        out.obs = problems
        return
    spec = numify(text_spec(text))
    for cls, _ in atoms(spec):
        out.dim('json_text_ingredient', cls)
    for name, pat in (('u-escape', '\\u'), ('short-escape-n', '\\n'), ('solidus-escaped', '\\/'),
                      ('quote-escaped', '\\"'), ('backslash-escaped', '\\\\')):
        if pat in text:
            out.dim('json_text_spelling', name)
    if any(ord(c) > 127 for c in text):
        out.dim('json_text_spelling', 'raw-non-ascii')
    if any(c in text for c in '\t\n\r'):
        out.dim('json_text_spelling', 'inter-token-whitespace')
    out.dim('oracle_comparisons', 'json_text')
    out.nontrivial = has_container_or_special(spec)
    out.obs = 'out=%s problems=%d' % (short(res, 80) if res is not None else None, len(problems))
    if problems:
        def pipe(mini):
            p, _ = text_pipeline(canonical_text(mini), escape, lib)
            return [] if isinstance(p, str) else p
        grp = 'escape=%s' % ('true' if escape else 'false')
        run_isolated(spec, problems, pipe, out, 'C17/json-xml/' + grp, grp)


# =========================================================================== family 3: xml_tree
URIS = {'p': 'urn:p', 'q': 'urn:q'}
TEXT_ATOMS = ['t', 'u', 'word', ' ', '  ', ' x ', '\n', '\n  ', '\t', '&', '<', '>', '"', "'", '\xe9', '\u4e2d',
              '\U0001F600', ']]>', 'a&b<c', '\xa0', '\u2028', '\x85', '&amp;', '&#13;', '<!--', '1', '-0', 'gt;']
ATTR_ATOMS = ['1', '2', 'v', '', ' ', ' a  b ', '&', '<', '>', '"', "'", '\n', '\t', '\xe9', '\U0001F600', 'a"b\'c',
              '\r', 'x y', '&lt;']
TAGS = ['a', 'b', 'c', 'item']
PI_TARGETS = ['pi', 'tgt', 'xml-stylesheet', 'map', 'x']


def g_text(r, cr_ok=True):
    n = 1 if r.random() < 0.6 else r.randint(2, 3)
    s = ''.join(r.choice(TEXT_ATOMS) for _ in range(n))
    if cr_ok and r.random() < 0.03:
        s += r.choice(['\r', '\r\n', 'a\rb'])
    return s


def g_misc(r):
    if r.random() < 0.5:
        return ['c', r.choice(['c', ' note ', 'a - b', '<x>&', '', '\xe9'])]
    return ['p', r.choice(PI_TARGETS), r.choice(['', 'd', 'a="b"', 'x > y & z', 'href="s.css" '])]


def g_elem(r, depth, budget, default_ns, declared):
    """declared: set of prefixes in scope; default_ns: uri or ''"""
    ns = []
    x = r.random()
    if x < 0.12:
        default_ns = 'urn:d' if default_ns != 'urn:d' else ('' if r.random() < 0.6 else 'urn:d2')
        ns.append(['', default_ns])
    pfx = ''
    if r.random() < 0.25:
        pfx = r.choice(['p', 'q'])
    local = r.choice(TAGS)
    declared = set(declared)
    if pfx and (pfx not in declared or r.random() < 0.1):
        ns.append([pfx, URIS[pfx]])
        declared.add(pfx)
    att = []
    seen = set()
    for _ in range(r.choice([0, 0, 1, 1, 2, 3])):
        ap = ''
        y = r.random()
        if y < 0.2:
            ap = r.choice(['p', 'q'])
        elif y < 0.27:
            ap = 'xml'
        an = r.choice(['lang', 'space']) if ap == 'xml' else r.choice(['x', 'y', 'z', 'id'])
        name = (ap + ':' if ap else '') + an
        if name in seen:
            continue
        seen.add(name)
        if ap in ('p', 'q') and ap not in declared:
            ns.append([ap, URIS[ap]])
            declared.add(ap)
        if ap == 'xml':
            val = 'preserve' if an == 'space' else r.choice(['en', 'it', ''])
        else:
            val = r.choice(ATTR_ATOMS) if r.random() < 0.8 else r.choice(ATTR_ATOMS) + r.choice(ATTR_ATOMS)
        att.append([name, val])
    if r.random() < 0.05 and 'q' not in declared:
        ns.append(['q', URIS['q']])     # declared but unused
        declared.add('q')
    kids = []
    nk = 0 if depth >= 4 else r.choice([0, 1, 1, 2, 3, 4])
    for _ in range(nk):
        if budget[0] <= 0:
            break
        y = r.random()
        if y < 0.38:
            kids.append(['t', g_text(r)])
            budget[0] -= 1
        elif y < 0.5:
            kids.append(g_misc(r))
            budget[0] -= 1
        else:
            budget[0] -= 1
            kids.append(g_elem(r, depth + 1, budget, default_ns, declared))
    return {'tag': (pfx + ':' if pfx else '') + local, 'ns': ns, 'att': att, 'kids': kids}


def g_doc(r, lib):
    budget = [r.choice([3, 6, 10, 16, 25])]
    root = g_elem(r, 0, budget, '', set())
    pre, post = [], []
    if lib == 'lxml' and r.random() < 0.2:
        pre = [g_misc(r) for _ in range(r.randint(0, 2))]
        post = [g_misc(r) for _ in range(r.randint(0, 1))]
    return {'pre': pre, 'root': root, 'post': post}


def g_big_doc(r, lib, target):
    """a document whose serialization exceeds `target` characters (buffers of the serializers are 8 KB and 64 KB):
    a generated root with many generated children"""
    doc = g_doc(r, lib)
    doc['pre'], doc['post'] = [], []
    root = doc['root']
    plainify(root)
    size = len(render_elem(root))
    while size < target:
        kid = g_elem(r, 1, [r.choice([3, 6, 10])], '', set())
        plainify(kid)
        root['kids'].append(kid)
        size += len(render_elem(kid))
        if r.random() < 0.4:
            t = g_text(r, cr_ok=False).replace('\x85', ' ').replace('\u2028', ' ')
            if t:
                root['kids'].append(['t', t])
                size += len(esc_text(t))
                kid = g_elem(r, 1, [3], '', set())
                plainify(kid)
                root['kids'].append(kid)
                size += len(render_elem(kid))
    return doc


def plainify(e):
    """big documents avoid the ingredients of recorded defects (carriage returns, comments and PIs), whose first
    difference would otherwise hide anything else that goes wrong in a large document"""
    kids = []
    for k in e['kids']:
        if isinstance(k, dict):
            plainify(k)
            kids.append(k)
        elif k[0] == 't':
            t = k[1].replace('\r', ' ').replace('\x85', ' ').replace('\u2028', ' ')
            if kids and not isinstance(kids[-1], dict) and kids[-1][0] == 't':
                kids[-1] = ['t', kids[-1][1] + t]
            elif t:
                kids.append(['t', t])
    e['kids'] = kids
    e['att'] = [[n, v.replace('\r', ' ').replace('\x85', ' ').replace('\u2028', ' ')] for n, v in e['att']]


def esc_text(s):
    return s.replace('&', '&amp;').replace('<', '&lt;').replace('>', '&gt;').replace('\r', '&#13;')


def esc_attr(s):
    return (s.replace('&', '&amp;').replace('<', '&lt;').replace('"', '&quot;').replace('\n', '&#10;')
            .replace('\t', '&#9;').replace('\r', '&#13;'))


def render_misc(m):
    if m[0] == 'c':
        return '<!--%s-->' % m[1]
    return '<?%s%s?>' % (m[1], (' ' + m[2]) if m[2] else '')


def render_elem(e):
    parts = ['<', e['tag']]
    for p, u in e['ns']:
        parts.append(' xmlns%s="%s"' % ((':' + p) if p else '', esc_attr(u)))
    for n, v in e['att']:
        parts.append(' %s="%s"' % (n, esc_attr(v)))
    if not e['kids']:
        parts.append('/>')
        return ''.join(parts)
    parts.append('>')
    for k in e['kids']:
        if isinstance(k, dict):
            parts.append(render_elem(k))
        elif k[0] == 't':
            parts.append(esc_text(k[1]))
        else:
            parts.append(render_misc(k))
    parts.append('</%s>' % e['tag'])
    return ''.join(parts)


def render_doc(d):
    return ''.join(render_misc(m) for m in d['pre']) + render_elem(d['root']) + \
        ''.join(render_misc(m) for m in d['post'])


def et_parse(text):
    parser = ET.XMLParser(target=ET.TreeBuilder(insert_comments=True, insert_pis=True))
    return ET.fromstring(text, parser=parser)


def is_elem(e):
    return isinstance(e.tag, str)


def xcanon(e, lenient=False):
    """independent XDM view of an etree element: [name, sorted attributes, children] where children
    are strings (text nodes) and element views; comments/PIs are dropped but (strict mode) still
    separate the text nodes around them"""
    items = []
    if e.text:
        items.append(e.text)
    for ch in e:
        if is_elem(ch):
            items.append(xcanon(ch, lenient))
        elif not lenient:
            items.append(None)
        if ch.tail:
            items.append(ch.tail)
    kids = []
    prev_text = False
    for it in items:
        if it is None:
            prev_text = False
            continue
        if isinstance(it, str):
            if prev_text:
                kids[-1] += it
            else:
                kids.append(it)
            prev_text = True
        else:
            kids.append(it)
            prev_text = False
    return [str(e.tag), sorted((str(k), str(v)) for k, v in e.attrib.items()), kids]


def text_class(s):
    if '\r' in s:
        return 'carriage-return'
    if not s.strip(' \t\n'):
        return 'whitespace-only'
    if any(c in s for c in '<>&'):
        return 'markup-chars'
    if any(ord(c) > 0xFFFF for c in s):
        return 'astral'
    if any(ord(c) > 0x7F for c in s):
        return 'non-ascii'
    if any(c in s for c in '\n\t'):
        return 'tab-or-newline'
    return 'plain'


def xdiff(a, b):
    """first difference of two canonical views -> class | None"""
    if a[0] != b[0]:
        la, lb = a[0].rpartition('}'), b[0].rpartition('}')
        return 'element-name/' + ('namespace' if la[2] == lb[2] else 'local-name')
    if a[1] != b[1]:
        if len(a[1]) != len(b[1]):
            return 'attributes/count'
        if [k for k, _ in a[1]] != [k for k, _ in b[1]]:
            return 'attributes/name'
        for (k, v), (_, w) in zip(a[1], b[1]):
            if v != w:
                return 'attribute-value/' + text_class(v)
    ka, kb = a[2], b[2]
    for x, y in zip(ka, kb):
        if isinstance(x, str) != isinstance(y, str):
            return 'children/kind-sequence'
        if isinstance(x, str):
            if x != y:
                return 'text/' + text_class(x)
        else:
            d = xdiff(x, y)
            if d is not None:
                return d
    if len(ka) != len(kb):
        return 'children/count'
    return None


def elem_order(e, acc=None, tail=False):
    """[(index in document order, followed by a text node?)] of the elements of a tree spec"""
    if acc is None:
        acc = []
    acc.append((len(acc), tail))
    kids = e['kids']
    for i, k in enumerate(kids):
        if isinstance(k, dict):
            nxt = kids[i + 1] if i + 1 < len(kids) else None
            elem_order(k, acc, bool(nxt is not None and not isinstance(nxt, dict) and nxt[0] == 't' and nxt[1]))
    return acc


def count_nodes(e):
    n = 1 + len(e['att'])
    for k in e['kids']:
        n += count_nodes(k) if isinstance(k, dict) else 1
    return n


def features(e):
    f = set()
    if e['ns']:
        f.add('ns-decl')
        if any(p == '' and u == '' for p, u in e['ns']):
            f.add('default-ns-undeclared')
        if any(p == '' and u for p, u in e['ns']):
            f.add('default-ns')
    if ':' in e['tag']:
        f.add('prefixed-element')
    for n, v in e['att']:
        f.add('attribute')
        if n.startswith('xml:'):
            f.add('xml-prefix-attribute')
        elif ':' in n:
            f.add('prefixed-attribute')
    prev = None
    for k in e['kids']:
        if isinstance(k, dict):
            f.add('child-element')
            f |= features(k)
            kind = 'e'
        elif k[0] == 't':
            f.add('text')
            f.add('text:' + text_class(k[1]))
            kind = 't'
        else:
            f.add('comment' if k[0] == 'c' else 'pi')
            kind = 'm'
            if prev == 't':
                f.add('misc-after-text')
        if kind == 't' and prev == 'm':
            f.add('text-after-misc')
        prev = kind
    if 'text' in f and 'child-element' in f:
        f.add('mixed-content')
    return f


def check_xml_tree(case, out):
    doc, lib, node = case['doc'], case['lib'], case['node']
    text = render_doc(doc)
    try:
        if lib == 'lxml':
            root = LX.fromstring(text.encode('utf-8'))
            tree = root.getroottree()
        else:
            root = et_parse(text)
            tree = ET.ElementTree(root)
    except (ET.ParseError, LX.XMLSyntaxError) as e:
        out.dim('undecided', 'generator-produced-ill-formed-xml')
        out.nontrivial = False
        out.obs = 'generator text not well-formed: %s' % str(e)[:80]
        return
    elems = [e for e in root.iter() if is_elem(e)]
    if node == 'document':
        kind = 'document'
        ctx_elem = root
        kw = {}
        xroot = tree
        step = ''
    else:
        idx = int(node) % len(elems)
        ctx_elem = elems[idx]
        kind = 'root-element' if idx == 0 else 'inner-element'
        xroot = tree if case.get('asdoc') else root
        kw = {'item': ctx_elem}
        step = '/*'
    has_tail = bool(ctx_elem.tail) and kind == 'inner-element'
    feats = features(doc['root'])
    for f in sorted(feats):
        out.dim('xml_feature', f)
    out.dim('xml_lib', lib)
    n_text = len(text) if isinstance(locals().get('text'), str) else len(render_doc(case['doc']))
    out.dim('xml_size', '<8K' if n_text < 8192 else '8K-64K' if n_text < 65536 else '>=64K')
    out.dim('xml_context', kind + ('+tail' if has_tail else ''))
    if doc['pre'] or doc['post']:
        out.dim('xml_feature', 'document-level-comment-or-pi')
    out.nontrivial = count_nodes(doc['root']) >= 3
    src = xcanon(ctx_elem)
    detail0 = {'xml': short(text, 300), 'lib': lib, 'context': kind}

    # ---- stage 1: fn:serialize, read back by libxml2
    ser_ok = False
    back_canon = back_lenient = None
    o = xp(xroot, 'serialize(.)', **kw)
    s = None
    if o[0] != 'ok':
        why = 'document-has-comment-or-pi-children' if (kind == 'document' and (doc['pre'] or doc['post'])) \
            else kind
        out.fail('C17/xml/serialize/%s/%s' % (symptom(o), why), detail0)
    else:
        s = o[1][0] if isinstance(o[1], list) and len(o[1]) == 1 else o[1]
        if not isinstance(s, str):
            out.fail('C17/xml/serialize/not-a-string', dict(detail0, got=short(s)))
            s = None
    if s is not None:
        out.dim('oracle_comparisons', 'xml_serialize_vs_libxml2')
        try:
            back = LX.fromstring(s.encode('utf-8'))
        except (LX.XMLSyntaxError, ValueError) as e:
            tail = ctx_elem.tail or ''
            if has_tail and any(c in tail for c in '&<>\r'):
                why = 'context-element-tail-emitted'
            else:
                why = 'other'
            out.fail('C17/xml/serialize/output-not-well-formed/%s' % why,
                     dict(detail0, serialized=short(s, 300), tail=short(tail), reader=str(e)[:100]))
        else:
            back_canon, back_lenient = xcanon(back), xcanon(back, True)
            d = xdiff(src, back_canon)
            if d is None:
                ser_ok = True
            else:
                out.fail('C17/xml/serialize/%s/%s' % (lib, d), dict(detail0, serialized=short(s, 300)))

    # ---- stage 2: parse-xml(serialize(.)) compared structurally
    model_equal = None
    model_diff = None
    misc_lost = False
    o = xp(xroot, 'parse-xml(serialize(.))', **kw)
    if o[0] != 'ok':
        if ser_ok:
            out.fail('C17/xml/parse-xml/%s/%s' % (lib, symptom(o)), dict(detail0, serialized=short(s, 300)))
    else:
        res = o[1][0] if isinstance(o[1], list) and len(o[1]) == 1 else o[1]
        got_root = None
        tree_obj = getattr(res, 'value', res)      # DocumentNode.value is the etree document
        try:
            got_root = tree_obj.getroot()
            if not hasattr(got_root, 'attrib'):
                got_root = None
        except AttributeError:
            got_root = None
        if got_root is None:
            out.fail('C17/xml/parse-xml/result-not-a-document', dict(detail0, got=short(res)))
        if got_root is not None:
            out.dim('oracle_comparisons', 'xml_roundtrip_structural')
            got = xcanon(got_root)
            model_diff = xdiff(src, got)
            model_equal = model_diff is None
            if back_canon is not None:
                # parse-xml is judged against libxml2's reading of the same text
                d = xdiff(back_canon, got)
                if d is not None:
                    if xdiff(back_lenient, xcanon(got_root, True)) is None:
                        d = 'comment-or-pi-dropped-merges-text-nodes'
                    out.fail('C17/xml/parse-xml/%s/%s' % (lib, d),
                             dict(detail0, serialized=short(s, 300) if s is not None else None))
            n_misc_src = sum(1 for x in ctx_elem.iter() if not is_elem(x))
            n_misc_got = sum(1 for x in got_root.iter() if not is_elem(x))
            misc_lost = n_misc_got != n_misc_src
            if n_misc_src:
                out.dim('xml_comments_pis_after_roundtrip', 'kept' if n_misc_got == n_misc_src else 'lost')

    # ---- stage 3: the engine's own fn:deep-equal verdict
    o = xp(xroot, 'deep-equal(parse-xml(serialize(.))%s, .)' % step, **kw)
    if o[0] == 'ok' and isinstance(o[1], bool) and model_equal is not None:
        out.dim('oracle_comparisons', 'xml_engine_deep_equal')
        out.dim('xml_engine_deep_equal', '%s/model-%s' % (o[1], 'equal' if model_equal else 'differs'))
        if o[1] != model_equal:
            if model_equal:
                if misc_lost:
                    why = 'comments-or-pis-not-reparsed'
                elif has_tail and (ctx_elem.tail or '').strip():
                    why = 'context-element-has-tail'
                else:
                    why = 'other/%s/%s' % (lib, kind)
                out.fail('C17/xml/deep-equal-false-but-trees-equal/%s' % why, detail0)
            else:
                out.fail('C17/xml/deep-equal-true-but-trees-differ/%s' % model_diff, detail0)
    elif o[0] != 'ok' and model_equal is not None:
        out.fail('C17/xml/deep-equal/%s' % symptom(o), detail0)
    out.obs = 'serialized=%s model_equal=%s engine=%s' % (short(s, 60) if s is not None else None, model_equal,
                                                        o[1] if o[0] == 'ok' else symptom(o))


# =========================================================================== harness interface
def check_case(kind, case):
    out = Outcome()
    if kind == 'json_value':
        check_json_value(case, out)
    elif kind == 'json_text':
        check_json_text(case, out)
    elif kind == 'xml_tree':
        check_xml_tree(case, out)
    else:
        raise ValueError('unknown case kind %r' % kind)
    return out


def shrink_spec(spec):
    t = spec[0]
    if t == 'a':
        for i in range(len(spec[1])):
            yield ['a', spec[1][:i] + spec[1][i + 1:]]
            yield spec[1][i]
        for i, x in enumerate(spec[1]):
            for y in shrink_spec(x):
                yield ['a', spec[1][:i] + [y] + spec[1][i + 1:]]
    elif t == 'm':
        for i in range(len(spec[1])):
            yield ['m', spec[1][:i] + spec[1][i + 1:]]
            yield spec[1][i][1]
        for i, (k, x) in enumerate(spec[1]):
            for y in shrink_spec(x):
                yield ['m', spec[1][:i] + [[k, y]] + spec[1][i + 1:]]
            if len(k) > 1:
                yield ['m', spec[1][:i] + [[k[:-1], x]] + spec[1][i + 1:]]
    elif t == 's' and len(spec[1]) > 1:
        yield ['s', spec[1][1:]]
        yield ['s', spec[1][:-1]]


def shrink_elem(e):
    for i in range(len(e['kids'])):
        yield dict(e, kids=e['kids'][:i] + e['kids'][i + 1:])
    for i in range(len(e['att'])):
        yield dict(e, att=e['att'][:i] + e['att'][i + 1:])
    for i, k in enumerate(e['kids']):
        if isinstance(k, dict):
            for k2 in shrink_elem(k):
                yield dict(e, kids=e['kids'][:i] + [k2] + e['kids'][i + 1:])
        elif k[0] == 't' and len(k[1]) > 1:
            yield dict(e, kids=e['kids'][:i] + [['t', k[1][:-1]]] + e['kids'][i + 1:])


def shrink(kind, case):
    if kind == 'json_value':
        for s in shrink_spec(case['v']):
            yield dict(case, v=s)
    elif kind == 'json_text':
        try:
            spec = numify(text_spec(case['t']))
        except Exception:
            return
        for s in shrink_spec(spec):
            yield dict(case, t=canonical_text(s))
    elif kind == 'xml_tree':
        doc = case['doc']
        if doc['pre'] or doc['post']:
            yield dict(case, doc=dict(doc, pre=[], post=[]))
        for e in shrink_elem(doc['root']):
            yield dict(case, doc=dict(doc, root=e))


FIXED_VALUES = [
    ['dec', '3.14159'], ['e'], ['a', [['e']]], ['m', [['a', ['e']]]], ['a', []], ['m', []],
    ['s', 'a/b'], ['s', '\\n'], ['s', '"'], ['i', '12345678901234567890'], ['d', '1e+21'], ['d', '-0.0'],
    ['m', [['a', ['i', '1']], ['A', ['i', '2']]]], ['m', [['\xe9', ['b', True]], ['e\u0301', ['b', False]]]],
    ['s', '\U0001F600'], ['s', '\x7f\x85'], ['a', [['a', [['a', []]]]]], ['dec', '0.005'], ['dec', '2.50'],
]
FIXED_TEXTS = [
    '[1e20]', '[1e-10]', '[120]', '["\\u0000"]', '["\\ud800"]', '["\\ud83d\\ude00"]', '["\\\\n"]', '["a\\/b"]',
    '{"a":1,"A":2}', '{"\\u00e9":1,"e\\u0301":2}', '["\\u007f"]', '["\\""]', '[-0]', '[-0.0]', '{"":null}',
    ' [ 1 , 2 ] ', '"x"', 'null', 'true', '12', '["\\b\\f\\n\\r\\t"]', '["\\\\"]', '["\\\\u0041"]', '{"\\\\":"\\\\"}',
    '{"a\\"b":1}', '["<&>"]', '{"<&>":"]]>"}',
]


def run(h):
    r = h.rng
    libs = ['et', 'lxml']
    if h.shard == 0:
        for i, v in enumerate(FIXED_VALUES):
            h.case('json_value', {'v': v, 'lib': libs[i % 2]})
        for i, t in enumerate(FIXED_TEXTS):
            for esc in (False, True):
                h.case('json_text', {'t': t, 'escape': esc, 'lib': libs[i % 2]})
    for i in range(h.n(3500)):
        h.case('json_value', {'v': g_value(r), 'lib': libs[i % 2]})
    for i in range(h.n(4500)):
        counts = {}
        spec = g_text_value(r)
        t = jm.ws(r, 0.15) + jm.spell(spec, r, r.choice([0.0, 0.1, 0.4]), counts) + jm.ws(r, 0.15)
        for how, n in sorted(counts.items()):
            h.count('json_text_char_spelling', how, n)
        h.case('json_text', {'t': t, 'escape': r.random() < 0.5, 'lib': libs[i % 2]})
    for i in range(h.n(3000)):
        lib = libs[i % 2]
        doc = g_doc(r, lib)
        x = r.random()
        order = elem_order(doc['root'])
        inner = [i for i, _ in order[1:]]
        tailed = [i for i, t in order[1:] if t]
        if x < 0.25 or (x >= 0.45 and not inner):
            node = 'document'
        elif x < 0.45:
            node = 0
        elif tailed and x < 0.8:
            node = r.choice(tailed)
        else:
            node = r.choice(inner)
        h.case('xml_tree', {'doc': doc, 'lib': lib, 'node': node, 'asdoc': r.random() < 0.5})
    # documents larger than the serializers' buffers
    for i, target in enumerate((9000, 9000, 20000, 20000, 70000, 70000)):
        lib = libs[i % 2]
        doc = g_big_doc(r, lib, target)
        h.case('xml_tree', {'doc': doc, 'lib': lib, 'node': r.choice(['document', 0]), 'asdoc': r.random() < 0.5})


def floors(v):
    reasons = []
    for dim, val, n in (('oracle_comparisons', 'json_value', 1500), ('oracle_comparisons', 'json_text', 1500),
                        ('oracle_comparisons', 'xml_roundtrip_structural', 500),
                        ('oracle_comparisons', 'xml_serialize_vs_libxml2', 500),
                        ('oracle_comparisons', 'xml_engine_deep_equal', 500),
                        ('json_text_escape', 'True', 500), ('json_text_escape', 'False', 500),
                        ('xml_lib', 'et', 300), ('xml_lib', 'lxml', 300),
                        ('xml_context', 'document', 100), ('xml_context', 'root-element', 100),
                        ('xml_context', 'inner-element', 50), ('xml_context', 'inner-element+tail', 40)):
        if v.got(dim, val) < n:
            reasons.append('%s=%s seen %d times (< %d)' % (dim, val, v.got(dim, val), n))
    for cls in ('string/quote', 'string/backslash', 'string/solidus', 'string/astral', 'string/escape-lookalike',
                'string/del-c1', 'string/tab-lf-cr', 'empty-sequence/map-value', 'empty-sequence/array-member',
                'decimal/fraction-digits>2', 'integer/beyond-2^53', 'double/exponent-repr', 'array/empty',
                'map/empty'):
        if v.got('json_value_ingredient', cls) < 10:
            reasons.append('json_value ingredient %s seen fewer than 10 times' % cls)
    for cls in ('string/quote', 'string/backslash', 'string/solidus', 'string/astral', 'string/escape-lookalike',
                'string/nul', 'string/lone-surrogate', 'string/c0-other', 'string/del-c1',
                'number/exponent-repr', 'number/fixed-repr', 'number/zero', 'key/backslash'):
        if v.got('json_text_ingredient', cls) < 10:
            reasons.append('json_text ingredient %s seen fewer than 10 times' % cls)
    for size in ('8K-64K', '>=64K'):
        if v.got('xml_size', size) < 2:
            reasons.append('fewer than 2 documents of size %s' % size)
    for f in ('comment', 'pi', 'mixed-content', 'default-ns', 'prefixed-element', 'prefixed-attribute',
              'text:markup-chars', 'text-after-misc'):
        if v.got('xml_feature', f) < 30:
            reasons.append('xml feature %s seen fewer than 30 times' % f)
    return reasons
