"""C10 - atomic datatypes: lexical space, canonical form and casting are coherent.

Per (type T, string s): the reference recogniser (rv/models/lexical.py, transcribed from XSD Part 2 / XML /
F&O 19) is compared with the class constructor (`T(s)` / `T.fromstring(s)`), `T.make(s, xsd_version=...)`,
`T.is_valid(s)`, and `$s castable as xs:T`, `xs:T($s)`, `$s cast as xs:T` under the XPath 2.0 and 3.1
parsers with xsd_version '1.0' / '1.1'.  Values are compared through an engine-independent fingerprint,
canonical strings with the F&O "cast to xs:string" rules, and the casting table cell by cell.
"""
import base64
import math
import unicodedata
import xml.etree.ElementTree as ET
from decimal import Decimal
from fractions import Fraction

from ..core import Outcome
from ..engine import call, PARSERS
from ..models import lexical as L

from elementpath import XPathContext
from elementpath import datatypes as dt

PROPERTY = 'C10'
LEVEL = 'exploration'
RULE = ('lex cases: (built-in atomic type T, string s) with s drawn from the model generator of valid forms, '
        'from near-valid mutants (XML / non-XML whitespace padding, internal space, underscore, non-ASCII digits, '
        'sign, leading zeros, case, single-character edits, out-of-range fields, trailing junk), from per-family '
        'hostile literals and from integer bounds +-1; every case is observed by the model, 2 class-level '
        'constructors, is_valid and 3 XPath forms x (XPath 2.0, 3.1) x (XSD 1.0, 1.1). cast cases: '
        '(source type, valid source literal, target type) over the whole 45x45 grid against the F&O casting '
        'table. A case is non-trivial when the model decides it (valid/invalid or a table cell) and at least '
        'one engine observer ran; distinct by canonical JSON of the case.')
ASSUMPTIONS = [
    'rv/models/lexical.py (XSD Part 2 1.0/1.1 lexical mappings, F&O 3.1 section 19) is the ground truth',
    'CPython float() is a correctly rounded decimal->binary64 conversion; struct "<f" rounds to nearest-even binary32',
    'Name/NCName/NMTOKEN are decided only over ASCII plus a few characters whose class is the same in XML 1.0 '
    '4th and 5th edition; anyURI is decided only for plainly well-formed references (as valid)',
    'undecided (not asserted): BCE leap years and second 60 under XSD 1.0, more than 6 fractional-second digits, '
    'digit count of double->decimal beyond 1e30, error codes (only success/failure and values are demanded)',
    'xs:QName only for literal / variable strings with the predeclared xs, xml prefixes; xs:NOTATION skipped',
]

ROOT = ET.XML('<r/>')
VERSION_SENSITIVE = {'double', 'float', 'dateTime', 'dateTimeStamp', 'date', 'gYear', 'gYearMonth'}
CLASS10 = {'double': 'DoubleProxy10', 'float': 'Float10', 'dateTime': 'DateTime10', 'date': 'Date10',
           'gYear': 'GregorianYear10', 'gYearMonth': 'GregorianYearMonth10'}
FROMSTRING = set(L.DT_TYPES) | set(L.DUR_TYPES)
PROXY_STR = {'boolean', 'decimal', 'double', 'float', 'string'}   # str(value) is Python's, not the type's

_parsers = {}
_tokens = {}


def parser_for(ver, xsd):
    key = (ver, xsd)
    p = _parsers.get(key)
    if p is None:
        p = _parsers[key] = PARSERS[ver](xsd_version=xsd)
    return p


def xp(ver, xsd, expr, variables):
    """evaluate expr with cached token; -> engine.call outcome"""
    key = (ver, xsd, expr)
    tok = _tokens.get(key)
    if tok is None:
        o = call(parser_for(ver, xsd).parse, expr)
        if o[0] != 'ok':
            return ('parse-' + o[0],) + tuple(o[1:])
        tok = _tokens[key] = o[1]
    ctx = XPathContext(root=ROOT, variables=variables)
    return call(tok.evaluate, ctx)


def eng_class(T, xsd):
    if xsd == '1.0' and T in CLASS10:
        return getattr(dt, CLASS10[T])
    return dt.builtin_atomic_types['xs:' + T]


def ctor(T, xsd, s):
    cls = eng_class(T, xsd)
    if T in FROMSTRING:
        return call(cls.fromstring, s)
    return call(cls, s)


def maker(T, xsd, s):
    cls = dt.builtin_atomic_types['xs:' + T]
    return call(cls.make, s, xsd_version=xsd)


# ------------------------------------------------------------------ fingerprints of engine values
def fp(T, v, xsd):
    """engine value -> model-comparable value (same representation as rv.models.lexical)"""
    p = L.PRIM[T]
    try:
        if isinstance(v, list):
            return ('seq', len(v))
        if p == 'bool':
            return v if isinstance(v, bool) else ('not-bool', type(v).__name__)
        if p == 'int':
            if isinstance(v, int) and not isinstance(v, bool):
                return int(v)
            return ('not-int', type(v).__name__)
        if p == 'dec':
            if isinstance(v, bool) or not isinstance(v, (int, Decimal)):
                return ('not-decimal', type(v).__name__)
            return Fraction(v)
        if p in ('dbl', 'flt'):
            if not isinstance(v, float):
                return ('not-float', type(v).__name__)
            return float(v)
        if p == 'str':
            return str(v) if isinstance(v, str) else ('not-str', type(v).__name__)
        if p in ('uA', 'aURI'):
            return str(v.value)
        if p == 'hxB':
            return bytes.fromhex(v.value.decode('ascii'))
        if p == 'b64':
            return base64.b64decode(v.value)
        if p in ('dur', 'yMD', 'dTD'):
            return ('dur', int(v.months), Fraction(v.seconds))
        text = str(v)
        st, val = L.parse_normalised(T, text, xsd)
        if st == L.VALID:
            return val
        return ('unparsable', text)
    except Exception as e:  # engine value of an unexpected shape
        return ('fp-error', type(e).__name__, type(v).__name__)


def same(a, b):
    if isinstance(a, float) and isinstance(b, float):
        if a != a or b != b:
            return a != a and b != b
        return a == b and math.copysign(1, a) == math.copysign(1, b)
    return type(a) is type(b) and a == b or (isinstance(a, Fraction) and isinstance(b, Fraction) and a == b)


def show(v):
    if isinstance(v, Fraction):
        return L.frac_to_str(v) or str(v)
    if isinstance(v, bytes):
        return v.hex()
    return repr(v)


# ------------------------------------------------------------------ string classes
XML_WS = ' \t\n\r'
NONXML_SPACES = '\u00a0\u2003\u000b\u000c\u001f\u001c\u0085\u3000\u2028'
FOREIGN_DIGITS = '١٢１２१۳'


def is_nonxml_space(ch):
    return ch not in XML_WS and (ch.isspace() or ch in '\x1c\x1d\x1e\x1f\x85')


def to_ascii_digits(s):
    out = []
    for ch in s:
        if ch.isdecimal() and ch not in '0123456789':
            try:
                out.append(str(unicodedata.decimal(ch)))
                continue
            except ValueError:
                pass
        out.append(ch)
    return ''.join(out)


def leniency(T, s, xsd):
    """for a string the model rejects: which single leniency would make it valid (mechanism name) or None"""
    mode = L.whitespace(T)
    repairs = [
        ('non-xml-space', lambda x: ''.join(ch for ch in x if not is_nonxml_space(ch))),
        ('underscore', lambda x: x.replace('_', '')),
        ('non-ascii-digit', to_ascii_digits),
        ('internal-space', lambda x: L.normalise(x, 'collapse').replace(' ', '')),
        ('letter-case', lambda x: x.upper()),
        ('letter-case', lambda x: x.lower()),
    ]
    for name, fn in repairs:
        t = fn(s)
        if t != s and L.parse_normalised(T, L.normalise(t, mode), xsd)[0] == L.VALID:
            return name
    t = s
    for name, fn in repairs[:4]:
        t = fn(t)
    if t != s and L.parse_normalised(T, L.normalise(t, mode), xsd)[0] == L.VALID:
        for name, fn in repairs[:4]:
            if fn(s) != s:
                return name
    return None


LENIENT = {'non-xml-space', 'underscore', 'non-ascii-digit', 'internal-space', 'letter-case'}


def valid_feature(T, s, norm, mv, value=True):
    """coarse class of a valid lexical form (used as the mechanism part of keys)"""
    p = L.PRIM[T]
    if isinstance(mv, tuple) and mv and mv[0] == 'dt':
        year = mv[1]
        if year is not None and year <= -9999:
            return 'year<=-9999'
        if year is not None and year > 9999:
            return 'year>9999'
        if 'T24:' in norm or norm.startswith('24:'):
            return 'end-of-day'
        if year is not None and year <= 0:
            return 'year<=0'
        if mv[2] == 2 and mv[3] == 29:
            return 'leap-day'
    elif p in ('dbl', 'flt', 'dec', 'int'):
        if value and mv == 0 and norm.startswith('-'):
            return 'negative-zero'
        if norm in ('INF', '-INF', '+INF', 'NaN'):
            return 'INF-NaN'
    if p == 'str' and any(is_nonxml_space(ch) for ch in s):
        return 'non-xml-space'
    if T == 'anyURI':
        # the library validates more than the anyURI lexical space asks for (every string): name what it checks
        import re as _re
        from urllib.parse import urlsplit as _us
        try:
            _us(norm).port
        except ValueError:
            return 'stricter-than-lexical-space/authority-or-port-not-parsable'
        if norm.count('#') > 1:
            return 'stricter-than-lexical-space/more-than-one-#'
        if _re.search(r'%(?![0-9A-Fa-f]{2})', norm):
            return 'stricter-than-lexical-space/percent-not-followed-by-two-hex-digits'
    if s != norm:
        return 'xml-space'
    return 'plain'


# ------------------------------------------------------------------ lex case
def name_char_class(T, norm):
    """Unicode category of the first character the model rejects in a Name-like string"""
    for i, ch in enumerate(norm):
        if L.parse_normalised(T, norm[:i + 1] if i else ch, '1.1')[0] == L.INVALID:
            return 'non-xml-space' if is_nonxml_space(ch) else unicodedata.category(ch)[0]
    return 'empty' if not norm else 'other'


def combos(T):
    if T == 'dateTimeStamp':
        return [('2.0', '1.1'), ('3.1', '1.1')]
    if T in VERSION_SENSITIVE:
        return [('2.0', '1.0'), ('2.0', '1.1'), ('3.1', '1.0'), ('3.1', '1.1')]
    return [('2.0', '1.0'), ('3.1', '1.1')]


def ok(o):
    return o[0] == 'ok'


def describe_o(o):
    if o[0] == 'ok':
        v = o[1]
        try:
            return 'ok:%s:%s' % (type(v).__name__, str(v)[:60])
        except Exception:
            return 'ok:%s' % type(v).__name__
    return ':'.join(str(x) for x in o)


def check_lex(case, out):
    T, s, label = case['type'], case['s'], case.get('cls', 'given')
    fam = L.FAMILY[T]
    mode = L.whitespace(T)
    norm = L.normalise(s, mode)
    out.dim('type', T)
    out.dim('string_class', label)
    variables = {'s': s}
    decided_any = False
    observed = []
    xsds = ['1.1'] if T == 'dateTimeStamp' else (['1.0', '1.1'] if T in VERSION_SENSITIVE else ['1.1'])
    for xsd in xsds:
        st, mv = L.parse_normalised(T, norm, xsd)
        out.dim('model_status', st)
        if st == L.UNDECIDED:
            out.dim('undecided', mv)
        elif st == L.INVALID:
            out.dim('invalid_reason', mv)
        # ---- observers
        obs = {}
        obs['ctor'] = ctor(T, xsd, s)
        obs['make'] = maker(T, xsd, s)
        cls_ = eng_class(T, xsd)
        iv = call(cls_.is_valid, norm)
        obs['is_valid'] = iv
        iv_raw = call(cls_.is_valid, s) if s != norm else iv
        groups = {'ctor': [ok(obs['ctor']), ok(obs['make'])],
                  'is_valid': [iv[0] == 'ok' and iv[1] is True]}
        xvals = []
        xres = []
        for ver, x in combos(T):
            if x != xsd and T in VERSION_SENSITIVE:
                continue
            oc = xp(ver, x, '$s castable as xs:%s' % T, variables)
            of = xp(ver, x, 'xs:%s($s)' % T, variables)
            oa = xp(ver, x, '$s cast as xs:%s' % T, variables)
            bc = oc[0] == 'ok' and oc[1] is True
            xres.extend([bc, ok(of), ok(oa)])
            out.dim('observer', 'xpath%s/xsd%s' % (ver, x), 3)
            if not (bc == ok(of) == ok(oa)):
                out.fail('C10/agree/%s/castable-vs-constructor-vs-cast' % fam,
                         {'type': T, 's': s, 'xpath': ver, 'xsd': x, 'castable': describe_o(oc),
                          'constructor': describe_o(of), 'cast': describe_o(oa)})
            for name, o in (('constructor', of), ('cast', oa)):
                if ok(o):
                    xvals.append((name + ver, o[1], x))
                elif o[0] != 'err':
                    out.dim('non-xpath-error', '%s:%s' % (o[0], o[1]))
            if oc[0] == 'ok' and oc[1] is False:
                out.dim('error_code', of[1] if of[0] == 'err' else of[0])
            # xs:untypedAtomic sources follow exactly the rules of xs:string sources (F&O 17.1.1 / 19.2)
            if fam not in ('QName', 'NOTATION'):
                uvars = {'u': dt.UntypedAtomic(s)}
                uc = xp(ver, x, '$u castable as xs:%s' % T, uvars)
                uf = xp(ver, x, 'xs:%s($u)' % T, uvars)
                ua = xp(ver, x, '$u cast as xs:%s' % T, uvars)
                out.dim('untyped_source_comparisons', fam, 3)
                ub = uc[0] == 'ok' and uc[1] is True
                if (ub, ok(uf), ok(ua)) != (bc, ok(of), ok(oa)):
                    out.fail('C10/untyped-source/%s/success-differs-from-string-source' % fam,
                             {'type': T, 's': s, 'xpath': ver, 'xsd': x,
                              'string: castable/constructor/cast': [describe_o(oc), describe_o(of), describe_o(oa)],
                              'untypedAtomic: castable/constructor/cast': [describe_o(uc), describe_o(uf), describe_o(ua)]})
                else:
                    for so, uo, nm in ((of, uf, 'constructor'), (oa, ua, 'cast')):
                        if ok(so) and ok(uo) and not same(fp(T, so[1], x), fp(T, uo[1], x)):
                            out.fail('C10/untyped-source/%s/value-differs-from-string-source' % fam,
                                     {'type': T, 's': s, 'xpath': ver, 'xsd': x, 'observer': nm,
                                      'from string': show(fp(T, so[1], x)), 'from untypedAtomic': show(fp(T, uo[1], x))})
                            break
        groups['xpath'] = xres
        out.dim('observer', 'class-level', 3)
        observed.append('%s:%s ctor=%s is_valid=%s xpath=%s' % (xsd, st, ok(obs['ctor']), groups['is_valid'][0],
                                                               sorted(set(xres))))
        ctor_ok = ok(obs['ctor'])

        if st == L.UNDECIDED:
            if groups['is_valid'][0] != ctor_ok or ok(obs['make']) != ctor_ok:
                famT = T if fam == 'double-float' else fam
                if groups['is_valid'][0] and not ctor_ok and ok(obs['make']) == ctor_ok and \
                        mv in ('bce-leap-year-xsd10', 'leap-second-xsd10', 'implementation-limit'):
                    key = 'C10/is_valid/%s/accepts-but-constructor-rejects/pattern-only' % famT
                else:
                    key = 'C10/agree/%s/is_valid-vs-constructor-vs-make/%s' % (fam, mv)
                out.fail(key, {'type': T, 's': s, 'xsd': xsd, 'ctor': describe_o(obs['ctor']),
                               'make': describe_o(obs['make']), 'is_valid': describe_o(iv)})
            continue
        decided_any = True
        out.dim('oracle_comparisons', 'lexical', 3 + len(xres))
        expected = st == L.VALID
        bad = [g for g in ('ctor', 'is_valid', 'xpath') if any(b != expected for b in groups[g])]
        if bad:
            who = 'all' if len(bad) == 3 else '+'.join(bad)
            famT = T if fam == 'double-float' else fam
            if expected:
                if bad == ['is_valid']:
                    key = 'C10/is_valid/%s/rejects-but-constructor-accepts/%s' % (
                        famT, valid_feature(T, norm, norm, mv, value=False))
                else:
                    key = 'C10/lexical/%s/%s/rejects-valid/%s' % (fam, who, valid_feature(T, s, norm, mv))
            else:
                mech = leniency(T, s, xsd) or mv
                if mech == 'name-char':
                    mech = name_char_class(T, norm)
                    mech = 'non-xml-space' if mech == 'non-xml-space' else 'name-char:' + mech
                if mech in LENIENT:
                    key = 'C10/lexical/%s/accepts-invalid/%s' % (fam, mech)
                elif bad == ['is_valid']:
                    key = 'C10/is_valid/%s/accepts-but-constructor-rejects/%s' % (
                        famT, 'pattern:' + T if mech == 'pattern' else 'pattern-only')
                else:
                    key = 'C10/lexical/%s/%s/accepts-invalid/%s' % (
                        fam, who, 'pattern:' + (fam if fam == 'double-float' else T) if mech == 'pattern' else mech)
            out.fail(key,
                     {'type': T, 's': s, 'normalised': norm, 'xsd': xsd, 'model': [st, None if expected else mv],
                      'ctor': describe_o(obs['ctor']), 'make': describe_o(obs['make']),
                      'is_valid': describe_o(iv), 'xpath_success': xres})
        # is_valid on the raw (un-normalised) string
        if s != norm and (iv[0] == 'ok' and iv[1] is True) == ctor_ok == expected:
            rv = iv_raw[0] == 'ok' and iv_raw[1] is True
            out.dim('is_valid_raw', 'agree' if rv == ctor_ok else 'disagree')
            if rv != ctor_ok:
                out.fail('C10/is_valid/whitespace-facet-not-applied',
                         {'type': T, 's': s, 'is_valid(s)': rv, 'constructor_succeeds': ctor_ok})
        if not expected:
            continue

        # ---- values
        feat = valid_feature(T, s if L.PRIM[T] == 'str' else norm, norm, mv)
        vals = []
        if ok(obs['ctor']):
            vals.append(('ctor', 'ctor', obs['ctor'][1]))
        if ok(obs['make']):
            vals.append(('ctor', 'make', obs['make'][1]))
        for name, v, x in xvals:
            vals.append(('xpath', name, v))
        value_failed = False
        for grp, name, v in vals:
            f = fp(T, v, xsd)
            out.dim('oracle_comparisons', 'value')
            if same(f, mv):
                continue
            if T == 'float' and isinstance(f, float) and isinstance(mv, float):
                dst, dv = L.parse_normalised('double', norm, xsd)
                if mv != 0 and abs(mv) < 1e-37 and f == 0:
                    key = 'C10/value/float/underflow-clamp'
                elif dst == L.VALID and same(f, dv):
                    key = 'C10/value/float/single-precision'
                else:
                    key = 'C10/value/float/%s' % feat
            else:
                key = 'C10/value/%s/%s' % (fam, feat)
            value_failed = True
            out.fail(key, {'type': T, 's': s, 'xsd': xsd, 'observer': name, 'expected': show(mv), 'got': show(f)})
            break

        # ---- canonical string (F&O cast to xs:string) through XPath
        cm = L.canonical(T, mv, xsd)
        cx_first = None
        canon_failed = False
        for ver, x in combos(T):
            if x != xsd and T in VERSION_SENSITIVE:
                continue
            o = xp(ver, x, 'string(xs:%s($s))' % T, variables)
            if not ok(o) or not isinstance(o[1], str):
                continue
            cx = str(o[1])
            if cx_first is None:
                cx_first = (ver, x, cx)
            out.dim('oracle_comparisons', 'canonical')
            if cm is None or cx == cm or canon_failed:
                continue
            detail = {'type': T, 's': s, 'xpath': ver, 'xsd': x, 'expected': cm, 'got': cx}
            if L.PRIM[T] in ('dbl', 'flt') and isinstance(mv, float) and mv == mv and mv not in (math.inf, -math.inf) \
                    and mv != 0:
                # value as the engine holds it (it may not have rounded to binary32)
                fe = None
                for grp, name, v in vals:
                    if isinstance(v, float):
                        fe = float(v)
                        break
                ref = fe if fe is not None else mv
                if ref == 0 or ref != ref or ref in (math.inf, -math.inf):
                    continue            # clamped / not rounded: already reported as a value failure
                shape = L.double_string_shape(ref, cx)
                if shape is not None:
                    canon_failed = True
                    out.fail('C10/canonical/double-float/%s' % shape, detail)
                else:
                    st2, v2 = L.parse_normalised(T, cx, xsd)
                    if st2 == L.VALID and (same(v2, mv) or (fe is not None and same(float(cx), fe))):
                        out.dim('undecided', 'double-digits')
                    elif not value_failed:
                        canon_failed = True
                        out.fail('C10/canonical/double-float/wrong-value', detail)
                continue
            if value_failed:
                continue
            st2, v2 = L.parse_normalised(T, cx, xsd)
            canon_failed = True
            if st2 == L.VALID and same(v2, mv):
                if L.PRIM[T] in ('gYM', 'gYr', 'gMD', 'gD', 'gM') and xsd == '1.0' and mv[7] == 0:
                    out.dim('undecided', 'g-type-zero-timezone-xsd10')
                    continue
                out.fail('C10/canonical/%s/non-canonical-form/%s' % (fam, feat), detail)
            else:
                out.fail('C10/canonical/%s/wrong-value/%s' % (fam, feat), detail)
        if value_failed or canon_failed:
            continue            # the fixed-point checks below would only restate the same defect

        # ---- fixed point, XPath level: xs:T(string(xs:T(s))) is the same value
        if cx_first is not None:
            ver, x, cx = cx_first
            o1 = xp(ver, x, 'xs:%s($s)' % T, variables)
            o2 = xp(ver, x, 'xs:%s($s)' % T, {'s': cx})
            o3 = xp(ver, x, 'string(xs:%s($s))' % T, {'s': cx})
            out.dim('oracle_comparisons', 'fixedpoint-xpath')
            if not ok(o2):
                out.fail('C10/fixedpoint/%s/xpath/canonical-string-not-castable' % fam,
                         {'type': T, 's': s, 'string': cx, 'got': describe_o(o2)})
            elif ok(o1) and not same(fp(T, o1[1], x), fp(T, o2[1], x)):
                out.fail('C10/fixedpoint/%s/xpath/reparse-differs' % fam,
                         {'type': T, 's': s, 'string': cx, 'first': show(fp(T, o1[1], x)),
                          'second': show(fp(T, o2[1], x))})
            elif ok(o3) and o3[1] != cx:
                out.fail('C10/fixedpoint/%s/xpath/string-not-stable' % fam,
                         {'type': T, 's': s, 'string': cx, 'again': o3[1]})

        # ---- fixed point, class level: c = str(T(s)); T(c) == T(s), equal hash, str stable
        if ok(obs['make']) and not isinstance(obs['make'][1], list):
            v = obs['make'][1]
            if T in PROXY_STR:
                c = cx_first[2] if cx_first else None
            else:
                oc_ = call(str, v)
                c = oc_[1] if ok(oc_) else None
            if c is not None:
                o2 = maker(T, xsd, c)
                out.dim('oracle_comparisons', 'fixedpoint-class')
                det = {'type': T, 's': s, 'xsd': xsd, 'str': c}
                if not ok(o2):
                    det['got'] = describe_o(o2)
                    out.fail('C10/fixedpoint/%s/class/str-not-constructible' % fam, det)
                else:
                    v2 = o2[1]
                    nan = isinstance(v, float) and v != v
                    eq = call(lambda: (v2 == v) is True)
                    if nan:
                        if not (isinstance(v2, float) and v2 != v2):
                            out.fail('C10/fixedpoint/%s/class/not-equal' % fam, det)
                    elif not (ok(eq) and eq[1]):
                        det['eq'] = describe_o(eq)
                        out.fail('C10/fixedpoint/%s/class/not-equal' % fam, det)
                    else:
                        h1, h2 = call(hash, v), call(hash, v2)
                        if not (ok(h1) and ok(h2) and h1[1] == h2[1]):
                            det['hashes'] = [describe_o(h1), describe_o(h2)]
                            out.fail('C10/fixedpoint/%s/class/hash-differs' % fam, det)
                    if T not in PROXY_STR:
                        s2 = call(str, v2)
                        if ok(s2) and s2[1] != c:
                            det['again'] = s2[1]
                            out.fail('C10/fixedpoint/%s/class/str-not-stable' % fam, det)
    out.nontrivial = decided_any
    out.obs = '; '.join(observed)


# ------------------------------------------------------------------ cast case
def tkey(T):
    p = L.PRIM[T]
    prim_names = {'untypedAtomic', 'string', 'float', 'double', 'decimal', 'integer', 'duration',
                  'yearMonthDuration', 'dayTimeDuration', 'dateTime', 'time', 'date', 'gYearMonth', 'gYear',
                  'gMonthDay', 'gDay', 'gMonth', 'boolean', 'base64Binary', 'hexBinary', 'anyURI'}
    return p if T in prim_names else p + ':derived'


def denotes_same(S, text, sv, xsd):
    """does `text` (possibly in the wrong letter case / non-canonical) denote the source value sv?"""
    for t in (text, text.lower(), text.upper()):
        st, v = L.parse(S, t, xsd)
        if st == L.VALID and same(v, sv):
            return True
        if L.PRIM[S] in ('dec', 'int', 'dbl', 'flt'):
            st, v = L.parse('double', t, '1.1')
            if st == L.VALID and isinstance(sv, (int, Fraction, float)) and not isinstance(sv, bool) \
                    and v == v and sv == sv and v not in (math.inf, -math.inf) and Fraction(v) == Fraction(sv):
                return True
    return False


def check_cast(case, out):
    S, lex, T = case['src'], case['lex'], case['tgt']
    ps, pt = L.PRIM[S], L.PRIM[T]
    cell = L.TABLE[ps][pt]
    out.dim('cast_cell', '%s->%s:%s' % (ps, pt, cell))
    out.dim('cast_source_type', S)
    out.dim('cast_target_type', T)
    variables = {'s': lex}
    edge = '%s->%s' % (tkey(S), tkey(T))
    decided = False
    notes = []
    for ver, xsd in (('2.0', '1.0'), ('3.1', '1.1')):
        if 'dateTimeStamp' in (S, T) and xsd == '1.0':
            continue
        st, sv = L.parse(S, lex, xsd)
        src = xp(ver, xsd, 'xs:%s($s)' % S, variables)
        if st != L.VALID or not ok(src):
            out.dim('cast_skipped', 'source-not-built')
            continue
        if not same(fp(S, src[1], xsd), sv):
            out.dim('cast_skipped', 'source-value-differs')   # reported by the lex cases
            continue
        exp = L.cast(S, sv, T, xsd)
        oc = xp(ver, xsd, 'xs:%s($s) castable as xs:%s' % (S, T), variables)
        of = xp(ver, xsd, 'xs:%s(xs:%s($s))' % (T, S), variables)
        oa = xp(ver, xsd, 'xs:%s($s) cast as xs:%s' % (S, T), variables)
        bc = oc[0] == 'ok' and oc[1] is True
        succ = [bc, ok(of), ok(oa)]
        notes.append('%s/%s model=%s engine=%s' % (ver, xsd, exp[0], succ))
        detail = {'source': 'xs:%s(%r)' % (S, lex), 'target': 'xs:' + T, 'xpath': ver, 'xsd': xsd,
                  'castable': describe_o(oc), 'constructor': describe_o(of), 'cast': describe_o(oa),
                  'model': [exp[0]] + [show(x) for x in exp[1:]]}
        out.dim('oracle_comparisons', 'cast-forms')
        for o in (of, oa):
            if o[0] == 'err':
                out.dim('cast_error_code', '%s:%s' % (cell, o[1]))
            elif o[0] == 'exc':
                out.dim('non-xpath-error', '%s:%s' % (o[0], o[1]))
        if not (succ[0] == succ[1] == succ[2]):
            decided = True
            out.fail('C10/cast/%s/forms-disagree' % ('N-cells' if cell == 'N' else edge), detail)
            continue
        if exp[0] == 'undecided':
            out.dim('undecided', 'cast:' + str(exp[1]))
            if ok(of) and ok(oa) and not same(fp(T, of[1], xsd), fp(T, oa[1], xsd)):
                out.fail('C10/cast/%s/forms-value-disagree' % edge, detail)
            continue
        decided = True
        out.dim('oracle_comparisons', 'cast-model')
        if exp[0] == 'N':
            if any(succ):
                out.fail('C10/cast/%s/N-cell-succeeds' % edge, detail)
            continue
        if exp[0] == 'err':
            if any(succ):
                out.fail('C10/cast/%s/accepts-invalid' % edge, detail)
            continue
        if not all(succ):
            if pt == 'str' and T != 'string' and ps not in ('str', 'uA'):
                # e.g. xs:NMTOKEN(1e22): the intermediate string is not the canonical one
                out.fail('C10/cast/to-string-derived-or-untypedAtomic/rejects-valid', detail)
            else:
                out.fail('C10/cast/%s/rejects-valid' % edge, detail)
            continue
        mv = exp[1]
        for name, o in (('constructor', of), ('cast', oa)):
            f = fp(T, o[1], xsd)
            if same(f, mv):
                continue
            detail = dict(detail, observer=name, expected=show(mv), got=show(f))
            if ps == 'dec' and sv == 0 and isinstance(f, float) and f == 0 and isinstance(mv, float) and mv == 0:
                # xs:decimal has no negative zero: same defect as string(xs:decimal('-0.0')) = '-0'
                out.fail('C10/canonical/decimal/non-canonical-form/negative-zero', detail)
                break
            if pt == 'flt' and isinstance(f, float) and isinstance(mv, float):
                if mv != 0 and abs(mv) < 1e-37 and f == 0:
                    out.fail('C10/value/float/underflow-clamp', detail)
                    break
                try:
                    unrounded = float(sv) if not isinstance(sv, bool) else None
                except (TypeError, ValueError, OverflowError):
                    unrounded = None
                if unrounded is not None and same(f, unrounded):
                    out.fail('C10/value/float/single-precision', detail)
                    break
            if pt in ('str', 'uA') and isinstance(f, str) and isinstance(mv, str) and ps not in ('str', 'uA'):
                if ps in ('dbl', 'flt') and T == 'string' and isinstance(sv, float) and sv == sv and sv != 0 \
                        and sv not in (math.inf, -math.inf):
                    shape = L.double_string_shape(sv, f)
                    if shape is not None:
                        out.fail('C10/canonical/double-float/%s' % shape, detail)
                        break
                    if not denotes_same(S, f, sv, xsd):
                        out.fail('C10/canonical/double-float/wrong-value', detail)
                        break
                if denotes_same(S, f, sv, xsd):
                    # right value, but not the canonical string F&O 19.1.1 requires (e.g. Python's str())
                    out.fail('C10/cast/to-string-derived-or-untypedAtomic/non-canonical-string', detail)
                    break
            out.fail('C10/cast/%s/wrong-value' % edge, detail)
            break
        # the result type: cast and constructor must give the same Python class
        if type(of[1]) is not type(oa[1]):
            out.fail('C10/cast/%s/forms-type-disagree' % edge, detail)
    out.nontrivial = decided
    out.obs = '; '.join(notes)


# ------------------------------------------------------------------ QName (simple cases only)
def check_qname(case, out):
    s = case['s']
    norm = L.normalise(s, 'collapse')
    cls = 'non-xml-space' if any(is_nonxml_space(ch) for ch in s) else 'plain'
    out.dim('type', 'QName')
    out.dim('string_class', cls)
    prefix, colon, local = norm.rpartition(':')
    if colon:
        stp = L.parse_normalised('NCName', prefix, '1.1')[0]
    else:
        stp = L.VALID
    stl = L.parse_normalised('NCName', local, '1.1')[0]
    if L.UNDECIDED in (stp, stl):
        expected = None
    elif stp == L.INVALID or stl == L.INVALID:
        expected = 'FORG0001'
    elif colon and prefix not in ('xs', 'xml'):
        expected = 'FONS0004'
    else:
        expected = 'ok'
    out.dim('model_status', expected or 'undecided')
    notes = []
    lit = "'" + s.replace("'", "''") + "'"
    for ver, forms in (('3.1', ('$s castable as xs:QName', 'xs:QName($s)', '$s cast as xs:QName')),
                       ('2.0', ('%s castable as xs:QName' % lit, 'xs:QName(%s)' % lit, '%s cast as xs:QName' % lit))):
        if ver == '2.0' and any(ch in s for ch in '\t\n\r'):
            continue
        oc, of, oa = [call(lambda e=e: parser_for(ver, '1.1').parse(e).evaluate(
            XPathContext(root=ROOT, variables={'s': s}))) for e in forms]
        bc = oc[0] == 'ok' and oc[1] is True
        succ = [bc, ok(of), ok(oa)]
        notes.append('%s %s' % (ver, succ))
        detail = {'s': s, 'xpath': ver, 'castable': describe_o(oc), 'constructor': describe_o(of),
                  'cast': describe_o(oa), 'model': expected}
        out.dim('observer', 'xpath%s/qname' % ver, 3)
        if not (succ[0] == succ[1] == succ[2]):
            out.fail('C10/qname/forms-disagree/%s' % cls, detail)
            continue
        if expected is None:
            continue
        out.dim('oracle_comparisons', 'qname')
        if expected == 'ok':
            if not all(succ):
                out.fail('C10/qname/rejects-valid/%s' % cls, detail)
            else:
                for o in (of, oa):
                    v = o[1]
                    got = (getattr(v, 'prefix', None) or '', getattr(v, 'local_name', None))
                    if got != (prefix, local):
                        out.fail('C10/qname/wrong-value/%s' % cls, dict(detail, got=list(got)))
                        break
        elif any(succ):
            out.fail('C10/qname/accepts-invalid/%s' % cls, detail)
    out.nontrivial = expected is not None
    out.obs = '; '.join(notes)


# ------------------------------------------------------------------ entry points
def check_case(kind, case):
    out = Outcome()
    if kind == 'lex':
        check_lex(case, out)
    elif kind == 'cast':
        check_cast(case, out)
    elif kind == 'qname':
        check_qname(case, out)
    else:
        raise ValueError(kind)
    return out


def shrink(kind, case):
    if kind in ('lex', 'qname'):
        s = case['s']
        if len(s) > 1:
            for i in range(len(s)):
                c = dict(case)
                c['s'] = s[:i] + s[i + 1:]
                yield c


# ------------------------------------------------------------------ workload
COMMON = ['', ' ', 'abc', 'true', '1', '0', '-1', '1.5', '1e5', 'INF', 'NaN', 'P1Y', 'PT1S', '2000-01-01',
          '2000-01-01T00:00:00', '12:00:00', '--01', '---01', '--01-01', '2000', '2000-01', '0x10', 'FF', 'QQ==',
          'a b', 'a:b', 'en', '１２', '١٢', '1_0', ' 1', '1 ', ' 1 ', '\t1\n', '+1',
          '1 0', 'é', 'None', 'True']

SPECIAL = {
    'boolean': ['True', 'TRUE', 'False', 'yes', 'no', 'T', 'F', '2', '01', '10', '00', 'tru', 'truee', 'true1', '1.0',
                '+1', '-0', ' true ', '\ttrue', 'true\n', 't', 'f', '', 'true false', 'tr ue', ' true',
                'false ', '0 ', ' 0', 'one', 'true\u000b'],
    'double-float': ['inf', 'Inf', 'INFINITY', 'Infinity', 'infinity', '-inf', '+inf', 'nan', 'NAN', 'Nan', '+NaN',
                     '-NaN', '+INF', '++1', '1e', 'e5', '1.e5', '.e5', '1E+', '1E-', '0x1p3', '0x10', '1d5', '1f',
                     '1.0f', '1,5', '1 e5', '1e 5', '1e5.0', '1e+-5', '.', '+.', '-', '+', '1..0', '1.0.0',
                     'I N F', 'INF ', ' NaN', ' INF', 'NaN ', '1__0', '_1', '1_', '1e1_0', '1_0.5',
                     '١', '１.5', '1E5', '1e+5', '1e-5', '-INF', '- INF', '--INF', 'INFx', '1e400',
                     '-1e400', '1e-400', '1 ', '\u000c1', '1\u001f', '\u00851', 'infinity ', ' Infinity',
                     'iNF', 'nAn', '1l', '1L', '1j', '0b1', '0o7', '1E0', '1.0E0', '1.5e20', '2.5e-10', '1e30', '123456789012345680000',
                     '1.25e100', '-0', '1e-7', '1234567', '0.000001', '1.23456789', '1e-38', '16777217'],
    'decimal': ['1e5', '1E0', 'INF', 'NaN', '.', '+.', '-', '1..0', '1,5', '1 .5', '1. 5', '+ 1', '- 1', '1 000',
                '1_000', '1_0.5', '١', '１.5', '++1', '+-1', '1-', '0x10', '1.5.', ' 1.5',
                '1.5 ', ' 1.5 ', '\t.5\n', '+0.0', '-.0', '00', '1 2 3', '1\t2', '\u000c1', '1\u001f',
                'Infinity', 'sNaN', 'nan'],
    'integer-family': ['1.0', '1.', '.0', '1e0', '1E2', '++1', '+-1', '-+1', '1-', '1+', '0x10', '0b1', '0o7', '1_0',
                       '1__0', '_1', '1_', '١٢', '１', '१', '1 0', '1\t0', ' 1', '1 ', '\n1\r',
                       ' 1', '1 ', ' 1', '1　', '\u000b1', '1\u000c', '\u001f1', '\u00851',
                       '\u001c1', '\u20281', '-', '+', '', ' ', '- 1', '+ 1', '1,000', 'one', 'INF', 'NaN', '１０',
                       '0 0', '-0', '+0', '000', '-00', '1l', '1L', '1j', '+ 0', '1 0'],
    'duration': ['P', 'PT', '-P', 'P1', 'P1S', 'P1H', 'PT1Y', 'PT1D', 'P1YT', 'P1Y2', 'P-1Y', 'P1.5Y', 'P1Y1.5M',
                 'PT1.5H', 'PT1.S', 'PT.5S', 'PT1.5', 'P1M1Y', 'P1D1M', 'PT1M1H', 'PT1S1M', 'p1y', 'P1y', 'pT1S',
                 'P1YT1S', 'P0Y1D', 'P1Y0D', 'P1YT0S', 'P0M1D', 'PT0S', 'P0Y', 'P0D', '+P1Y', '--P1Y', 'P 1Y',
                 'P1 Y', 'P1Y ', ' P1Y', ' P1Y', 'P1Y ', 'PT1_0S', 'P1_0Y', 'P١Y', 'P1W', 'P1Y1W',
                 'PT1e1S', '1Y', 'PT', 'P1DT', 'PT1H1S', 'P1Y1D', '-PT0S', '-P0M', 'P1Y2M3DT4H5M6S',
                 'P0Y0M0DT0H0M0S', 'PT0.0S', 'P12M', 'P1YT1M', 'P1MT1M', 'PT1M', 'P1M', 'P01Y', 'PT001S',
                 'P0001Y', 'PT1.500S', '\u000cP1Y', 'P1Y\u001f', 'PT1S\u0085', 'P1Y-', 'P+1Y', 'PT-1S', 'PT+1S'],
    'datetime': None,   # built per type below
    'hexBinary': ['0', 'f', '0g', 'GG', '0x00', 'ff ', ' ff', 'f f', 'ff ff', 'ＦＦ', '١٢', 'a_', '_a',
                  'a_b0', ' ff', 'ff ', '\u000cff', 'ff\u001f', '+0', '-1', '0-', 'fff', 'ffff', 'FfFf',
                  '00 ', '\tff\n', ''],
    'base64Binary': ['Q', 'QQ', 'QQQ', 'QQ=', 'QQ==', 'QR==', 'QUI=', 'QUJ=', 'Q===', '====', '=', 'QQ==QQ==',
                     'QUJD=', 'QUJDQ', 'QUJDQQ', 'QUJDQQ=', 'QUJDQQ==', 'QU-D', 'QU_D', 'QUJ*', 'Q  Q==', 'QQ= =',
                     'QQ = =', ' QQ==', 'QQ== ', 'Q\tQ\n=\r=', 'QQ ==', ' QQ==', 'QQ== ',
                     'Q\u000bQ==', 'QQ==\u000c', 'Zm9v\nYmFy', 'Zm9vYmFy', 'Zm9vYmE=', 'Zm9vYg==', 'Zh==', 'Zm9=',
                     'Zm8=', 'Zg==', 'AA==', 'AAA=', 'AAAA', 'AB==', 'AAB=', '/w==', '+/+/', '+/==', 'é===', 'QÉ==',
                     'ＱＱ==', 'QQ= ='],
    'language': ['', 'e', 'abcdefghi', 'en-', '-en', 'en--US', 'en_US', 'en US', 'en-US-', '12', 'e1', 'en-1',
                 'en-abcdefghi', 'é', 'en-é', ' en ', '\ten', 'en ', ' en', 'x', 'i-klingon', 'EN',
                 'en-us-x-a-b', 'a1-b', '1a', 'en-US\u000b', 'ｅｎ', 'en-١', 'en-a1'],
    'names': ['', 'a', '1', '1a', 'a1', '-a', '.a', 'a-', 'a.', '_', ':', ':a', 'a:', 'a:b', 'a:b:c', 'a b', ' a ',
              '\ta\n', 'a ', ' a', 'a ', '\u000ca', 'a\u001f', 'é', 'aé', '×', 'a×', 'ª', 'aª', 'µ',
              'º', '÷a', '·', 'a·', '·a', '̀', 'à', '̀a', '中', '1中', 'Ω', 'a,b', 'a;b', 'a/b', 'a@b',
              'a$', 'a#', 'a&b', "a'b", 'a"b', 'a(b)', 'a+b', 'a=b', 'a~', 'a!', 'a*', 'a%', 'a\\b', 'a|b', '<a>',
              '1:a', 'a:1', '-:a', 'xml', 'a--b', 'a..b', '_1', '__', 'A', 'Z9', '9Z', '٣', 'a٣', 'Ⅰ'],
    'anyURI': ['', 'a', 'http://example.com/', 'http://example.com/a b', ' http://a ', 'a#b', 'a#b#c', '%', '%zz',
               '%20', 'http://[::1]/', 'http://a:b/', ':a', '::', 'urn:a:b', 'a b', ' a', 'http://a\tb',
               '#', '?', '/', '//', 'http://', 'a:', 'mailto:x@y', '../..', 'é', 'http://é/'],
    'string': ['', ' ', '  a  b  ', '\t', 'a\tb', 'a\nb', 'a\r\nb', ' ', 'a b', '   ', ' a',
               'a　', '\u000ba', 'a\u000c', '\u001fa', 'a\u0085b', '\u2028', 'é', 'a  b', ' a', 'a ',
               '\ta ', 'a \n b', '\r', 'x\u001cy', ' \t\n\r '],
}


FIXED_CASTS = [
    ('decimal', '-0.0', 'double'), ('decimal', '-0.0', 'float'), ('decimal', '-0.0', 'string'),
    ('decimal', '1000000', 'untypedAtomic'), ('decimal', '0.10', 'token'), ('double', '1e22', 'NMTOKEN'),
    ('double', '1e22', 'untypedAtomic'), ('double', '1.5e20', 'string'), ('double', '1e-7', 'string'),
    ('double', '1234567', 'string'), ('float', '-INF', 'untypedAtomic'), ('boolean', '1', 'normalizedString'),
    ('boolean', 'true', 'language'), ('double', '1.23456789012', 'float'), ('double', '1e-38', 'float'),
    ('double', '3.4028234663852886e38', 'float'), ('double', '-3.4028234663852886e38', 'float'), ('float', '3.4028235E38', 'string'),
    ('float', '3.4028235E38', 'double'), ('decimal', '340282346638528860000000000000000000000', 'float'),
    ('dateTime', '2000-01-01T12:00:00', 'dateTimeStamp'), ('dateTime', '2000-01-01T12:00:00Z', 'dateTimeStamp'),
    ('date', '2000-01-01', 'dateTimeStamp'), ('date', '2000-01-01Z', 'dateTimeStamp'),
    ('hexBinary', '0aF1', 'base64Binary'), ('base64Binary', 'Zm9v YmE=', 'hexBinary'), ('integer', '300', 'byte'),
    ('double', '3.7', 'integer'), ('double', '-3.7', 'integer'), ('double', 'NaN', 'integer'),
    ('double', 'INF', 'decimal'), ('double', '255.9', 'unsignedByte'), ('double', '256', 'unsignedByte'),
    ('decimal', '0.1', 'double'), ('integer', '16777217', 'float'), ('double', 'NaN', 'boolean'),
    ('double', '-0', 'boolean'), ('decimal', '0.0', 'boolean'), ('boolean', 'true', 'double'),
    ('duration', 'P1Y2M3DT4H', 'yearMonthDuration'), ('duration', 'P1Y2M3DT4H', 'dayTimeDuration'),
    ('yearMonthDuration', 'P14M', 'dayTimeDuration'), ('dayTimeDuration', 'PT36H', 'yearMonthDuration'),
    ('dateTime', '2000-02-29T24:00:00+05:30', 'date'), ('dateTime', '1999-12-31T23:59:59.5Z', 'time'),
    ('dateTime', '2000-02-29T12:00:00-14:00', 'gMonthDay'), ('date', '-0044-03-15', 'gYear'),
    ('date', '2004-02-29', 'dateTime'), ('time', '12:00:00', 'dateTime'), ('gYear', '2000', 'gYearMonth'),
    ('anyURI', 'http://example.com/a', 'string'), ('string', 'http://example.com/a', 'anyURI'),
    ('integer', '1', 'duration'), ('boolean', 'true', 'hexBinary'), ('hexBinary', 'FF', 'integer'),
]


def datetime_specials(T):
    tz_bad = ['+14:01', '+15:00', '-14:30', '+1:00', '+01:0', '+0100', 'z', '+24:00', 'UTC', '+01:60', '-00:60',
              '+14:00:00', 'Z ', ' Z', 'ZZ', '+', '-', '+01', 'GMT', ' Z']
    tz_ok = ['', 'Z', '+00:00', '-00:00', '+14:00', '-14:00', '+13:59', '-13:59', '+05:30']
    dates = ['2000-02-29', '2000-02-30', '2001-02-29', '1900-02-29', '2004-02-29', '2100-02-29', '2400-02-29',
             '2000-13-01', '2000-00-10', '2000-01-00', '2000-01-32', '2000-04-31', '2000-06-31', '2000-12-31',
             '2000-1-1', '2000-01-1', '2000-1-01', '02000-01-01', '0000-01-01', '-0000-01-01', '0000-02-29',
             '-0001-02-29', '-0004-02-29', '-0001-12-31', '+2000-01-01', '20000-01-01', '200-01-01', '99999-12-31',
             '0001-01-01', '-0001-01-01', '9999-12-31', '10000-01-01', '2000/01/01', '2000-01-01-', '2000_01_01',
             '2000-0_1-01', '2٠٠٠-01-01', '２０００-01-01', '2000-01-١١', ' 2000-01-01 ',
             '\t2000-01-01\n', ' 2000-01-01', '2000-01-01 ', '\u000c2000-01-01', '2000-01-01\u001f',
             '2000- 01-01', '2000 -01-01', '--2000-01-01', '-2000-01-01', '2000-011-01', '2000-01-011',
             '0100-02-29', '0400-02-29', '-0100-02-29', '-0400-02-29', '-0005-02-29', '20000-02-29', '12000-02-29',
             '10001-02-29', '-9999-01-01', '-10000-06-15', '-12345-12-31', '-9998-01-01']
    times = ['00:00:00', '23:59:59', '24:00:00', '24:00:00.0', '24:00:00.000', '24:00:01', '24:01:00', '24:00:00.1',
             '25:00:00', '23:60:00', '23:59:60', '23:59:61', '12:00:00.', '12:00:00.5', '12:00:00.123456',
             '12:00:00.1234567', '12:00:00.000000', '12:00', '12', '1:00:00', '12:0:00', '12:00:0', '12:00:00:00',
             '12.00.00', '12:00:00,5', '-12:00:00', '+12:00:00', '12:00:00.5.5', '12:00:0١', '１２:00:00',
             '1_:00:00', '12:00:00.1_0', ' 12:00:00 ', ' 12:00:00', '12:00:00 ', '12 :00:00', 'T12:00:00',
             '12:00:00.100', '12:00:00.999999', '00:00:00.0', '99:99:99', '12:00:00e0']
    out = []
    if T in ('dateTime', 'dateTimeStamp'):
        for d in dates:
            out.append(d + 'T12:00:00')
        for t in times:
            out.append('2000-01-31T' + t)
        out += ['2000-01-01t12:00:00', '2000-01-01 12:00:00', '2000-01-01T', 'T12:00:00', '2000-01-01',
                '2000-01-01TT12:00:00', '9999-12-31T24:00:00', '2000-02-28T24:00:00', '2000-02-29T24:00:00',
                '2001-02-28T24:00:00', '2000-12-31T24:00:00', '-0001-12-31T24:00:00', '0000-12-31T24:00:00',
                '2000-01-01T12:00:00z', '2000-01-01T00:00:00']
        base = ['2000-01-01T12:00:00', '1999-12-31T23:59:59.5']
    elif T == 'date':
        out += dates + ['2000-01-01T00:00:00', '2000-01', '2000', '01-01-2000', '20000101']
        base = ['2000-01-01', '-0044-03-15']
    elif T == 'time':
        out += times
        base = ['12:00:00', '00:00:00.5']
    elif T == 'gYearMonth':
        out += ['2000-01', '2000-12', '2000-13', '2000-00', '2000-1', '2000-001', '0000-01', '-0001-01', '02000-01',
                '12345-06', '+2000-01', '200-01', '2000-01-01', '2000', '--01', '2000/01', '2000-0١', ' 2000-01 ',
                ' 2000-01', '2000-01 ', '2_00-01', '-2000-01', '--2000-01', '2000-1_']
        base = ['2000-01', '-0044-03']
    elif T == 'gYear':
        out += ['2000', '0000', '-0000', '-0001', '0001', '02000', '12345', '+2000', '200', '20', '2', '', '-',
                '2000-', '2000-01', '٢٠٠٠', '２０００', ' 2000 ', ' 2000', '2000 ', '2_000',
                '20_00', '-2000', '--2000', '99999', '-99999', '1e3', '2000.0', '00000', '-00001']
        base = ['2000', '-0044']
    elif T == 'gMonthDay':
        out += ['--01-01', '--02-29', '--02-30', '--04-30', '--04-31', '--12-31', '--13-01', '--00-01', '--01-00',
                '--01-32', '--1-1', '--01-1', '-01-01', '---01-01', '01-01', '--0101', '--01--01', '--0١-01',
                ' --01-01 ', ' --01-01', '--01-01 ', '--0_-01', '--06-31', '--09-31', '--11-31', '--11-30']
        base = ['--01-01', '--12-31']
    elif T == 'gDay':
        out += ['---01', '---31', '---32', '---00', '---1', '---001', '--01', '----01', '01', '---١١', ' ---01 ',
                ' ---01', '---01 ', '---0_', '---1_', '---29', '---30', '---99']
        base = ['---01', '---31']
    else:
        out += ['--01', '--12', '--13', '--00', '--1', '--001', '---01', '-01', '01', '--01--', '--١٢', ' --01 ',
                ' --01', '--01 ', '--0_', '--1_', '--99', '--10', '--09']
        base = ['--01', '--12']
    for b in base:
        for z in tz_bad + tz_ok:
            out.append(b + z)
    return out


def specials_for(T):
    fam = L.FAMILY[T]
    if fam == 'double-float':
        return SPECIAL['double-float']
    if fam == 'datetime-family':
        return datetime_specials(T)
    if fam == 'duration-family':
        return SPECIAL['duration']
    if fam == 'name-family':
        return SPECIAL['names']
    if fam in ('string', 'normalizedString', 'token', 'untypedAtomic'):
        return SPECIAL['string']
    return SPECIAL.get(fam, [])


def mutate(r, s):
    """-> (label, mutant)"""
    k = r.randrange(14)
    n = len(s)
    i = r.randrange(n + 1)
    if k == 0:
        pad = lambda: ''.join(r.choice(XML_WS) for _ in range(r.randint(0, 2)))
        return 'xml-space-padding', pad() + s + (pad() or ' ')
    if k == 1:
        j = r.randrange(1, n) if n > 1 else 0
        return 'internal-space', s[:j] + r.choice([' ', '\t', '\n', '  ']) + s[j:]
    if k == 2:
        sp = r.choice(NONXML_SPACES)
        return 'non-xml-space', (sp + s) if r.random() < 0.5 else (s + sp)
    if k == 3:
        j = r.randrange(1, n) if n > 1 else n
        return 'underscore', s[:j] + '_' + s[j:]
    if k == 4:
        pos = [j for j, ch in enumerate(s) if ch in '0123456789']
        if pos:
            j = r.choice(pos)
            fd = r.choice(['٠', '０', '०', '۰'])
            return 'non-ascii-digit', s[:j] + chr(ord(fd) + int(s[j])) + s[j + 1:]
        return 'non-ascii-digit', s + '١'
    if k == 5:
        return 'sign', r.choice(['+', '-', '++', '+-', '- ', '+ ']) + s
    if k == 6:
        j = 1 if s[:1] in '+-' else 0
        return 'leading-zeros', s[:j] + '0' * r.randint(1, 3) + s[j:]
    if k == 7:
        return 'case', r.choice([s.lower(), s.upper(), s.swapcase(), s.capitalize()])
    if k == 8 and n:
        j = r.randrange(n)
        return 'edit', s[:j] + s[j + 1:]
    if k == 9 and n:
        j = r.randrange(n)
        return 'edit', s[:j] + s[j] + s[j:]
    if k == 10 and n > 1:
        j = r.randrange(n - 1)
        return 'edit', s[:j] + s[j + 1] + s[j] + s[j + 2:]
    if k == 11:
        return 'trailing-junk', s + r.choice(['x', '.', 'Z', '0', '-', ':', 'e', 'E1', '=', 'T', '.0', ' 1', '+00:00'])
    if k == 12:
        pos = [j for j, ch in enumerate(s) if ch in '0123456789']
        if pos:
            j = r.choice(pos)
            return 'field-range', s[:j] + r.choice('0123456789') + s[j + 1:]
    return 'edit', s[:i] + r.choice('0159aZ.-+:eETPp ') + s[i:]


def run(h):
    r = h.rng
    types = list(L.ALL_TYPES)
    if h.nshards > 1:
        # every shard covers every type (different random strings); fixed pools are split round-robin
        pass
    fixed_i = 0
    for T in types:
        xs = ['1.0', '1.1'] if T != 'dateTimeStamp' else ['1.1']
        # fixed pools
        for s in COMMON + specials_for(T):
            fixed_i += 1
            if h.nshards > 1 and fixed_i % h.nshards != h.shard:
                continue
            h.case('lex', {'type': T, 's': s, 'cls': 'hostile-literal'})
        if T in L.INT_BOUNDS:
            lo, hi = L.INT_BOUNDS[T]
            for b, inside in ((lo, True), (hi, True), (None if lo is None else lo - 1, False),
                              (None if hi is None else hi + 1, False)):
                if b is not None:
                    h.case('lex', {'type': T, 's': str(b), 'cls': 'bound-inside' if inside else 'bound-outside'})
                    h.case('lex', {'type': T, 's': ' %s%d\n' % ('+' if b >= 0 else '', b),
                                   'cls': 'bound-inside' if inside else 'bound-outside'})
        for _ in range(h.n(40)):
            s = L.gen_valid(T, r, r.choice(xs))
            h.case('lex', {'type': T, 's': s, 'cls': 'generated-valid'})
        for _ in range(h.n(110)):
            s = L.gen_valid(T, r, r.choice(xs))
            label, m = mutate(r, s)
            if r.random() < 0.15:
                label2, m = mutate(r, m)
                label = 'double-mutation'
            h.case('lex', {'type': T, 's': m, 'cls': label})
    # QName, simple cases
    for s in SPECIAL['names'] + ['xs:a', 'xml:a', 'zz:a', 'xs:1', 'xs:', ':xs', 'xs:a:b', ' xs:a ', 'xs: a', 'xs :a',
                                 'xs:é', 'xs:a ', 'fn:a', 'xmlns:a']:
        h.case('qname', {'s': s, 'cls': 'hostile-literal'})
    # casting table: fixed cells first (seed-independent), then the generated grid
    for S, lex, T in FIXED_CASTS:
        h.case('cast', {'src': S, 'lex': lex, 'tgt': T})
    sources = [t for t in L.ALL_TYPES]
    benign = {'string': ['abc', '12', 'true', '1.5', 'P1Y', '2000-01-01', '', '1E3', 'a b', '-7', 'FF', 'PT1S',
                         '12:00:00', '2000-01-01T12:00:00Z', '---05', 'en'],
              'untypedAtomic': ['abc', '12', 'false', '-0.5', 'P1M', '2000-02-29Z', '', 'NaN', '0', 'QQ==', 'INF',
                                '--12', '2000', 'x1', '300', '-129']}
    for S in sources:
        lexes = []
        if S in benign:
            lexes = benign[S]
        else:
            seen = set()
            for _ in range(h.n(7)):
                s = L.gen_valid(S, r, '1.0')
                if L.parse(S, s, '1.0')[0] != L.VALID or L.parse(S, s, '1.1')[0] != L.VALID:
                    if S != 'dateTimeStamp':
                        continue
                if s not in seen:
                    seen.add(s)
                    lexes.append(s)
        for lex in lexes:
            for T in L.ALL_TYPES:
                if S in benign and r.random() < 0.5:
                    continue
                h.case('cast', {'src': S, 'lex': lex, 'tgt': T})


def floors(v):
    reasons = []
    for T in L.ALL_TYPES:
        if v.got('type', T) < 60:
            reasons.append('type %s observed on fewer than 60 strings' % T)
    if v.got('oracle_comparisons', 'lexical') < 20000:
        reasons.append('fewer than 20000 observer-vs-model lexical comparisons')
    if v.got('oracle_comparisons', 'canonical') < 1500:
        reasons.append('fewer than 1500 canonical-string comparisons')
    if v.got('oracle_comparisons', 'fixedpoint-class') < 1000:
        reasons.append('fewer than 1000 class-level fixed-point checks')
    if v.got('oracle_comparisons', 'cast-model') < 2000:
        reasons.append('fewer than 2000 cast results compared with the casting-table model')
    if v.got('model_status', 'valid') < 1500 or v.got('model_status', 'invalid') < 1500:
        reasons.append('fewer than 1500 valid or 1500 invalid strings decided by the model')
    cells = sum(1 for ps in L.TABLE for pt in L.TABLE[ps]
                if v.got('cast_cell', '%s->%s:%s' % (ps, pt, L.TABLE[ps][pt])) > 0)
    if cells < 300:
        reasons.append('only %d of 441 casting-table cells exercised' % cells)
    return reasons
