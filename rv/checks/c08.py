"""C08 - sequence expressions and sequence/aggregate functions equal the F&O list model.

Generated minilang programs (rv/models/minilang.py) are rendered to XPath text, evaluated by the real
engine (XPath2Parser / XPath31Parser, token.select with a small document as context) and by the reference
evaluator; value AND dynamic type of every result item are compared.  Engine-only equivalences from the
property statement are checked as a second case kind.
"""
import math
import xml.etree.ElementTree as ET
from decimal import Decimal
from fractions import Fraction

from ..core import Outcome
from .. import engine
from ..engine import call
from ..models import minilang as ml
from ..models.minilang import V, XErr, Undecided

from elementpath import XPathContext
from elementpath.xpath_nodes import XPathNode

PROPERTY = 'C08'
LEVEL = 'exploration'
RULE = ('typed random minilang programs (one root construct per program, drawn uniformly from the constructs '
        'and functions of the statement; arguments nested to depth <= 4: predicate in for in predicate ...) over '
        'literal / external-variable sequences of length 0-8 (integers, decimals, doubles incl. NaN/INF/-0, '
        'floats, strings, duplicates, a few booleans) and node sequences of a 9-element document; position / '
        'length arguments from ints, x.5 doubles and decimals, negatives, 0, INF, -INF, NaN, beyond length; each '
        'program is evaluated by XPath2Parser or XPath31Parser and by the list model, compared by value and '
        'dynamic type. A program is non-trivial when it contains a non-literal construct and the model decides '
        'it; distinct by canonical JSON of (version, AST, variables). Equivalence cases (every/some duality, '
        'subsequence vs positional predicate, reverse-reverse, count additivity, remove-insert, head-tail) are '
        'engine against engine.')
ASSUMPTIONS = [
    'the minilang evaluator (transcribed from XPath 2.0/3.1 and F&O) is the ground truth',
    'a dynamic error that the model finds in a nested sub-expression may legitimately be absent (lazy '
    'evaluation, XPath 2.3.4): only errors raised by the root construct on fully evaluated arguments are demanded',
    'decimal division beyond 18 digits, floating point sums that depend on the order of additions and values '
    'derived from inexact xs:float results are compared with a relative tolerance of 1e-6; comparisons, '
    'predicates, mod and idiv on such values are undecided when the outcome could flip',
    'distinct-values: order and choice of representative are free; min/max over mixed xs:integer/xs:decimal may '
    'return either type; the sign of a zero chosen among equal zeros is free',
    'float / double arithmetic details, casts and string forms of doubles belong to C06/C10 and are avoided',
]

# ------------------------------------------------------------------ document (engine + model twin)
DOC_XML = ('<r id="r"><a id="a1" k="1">x</a><b id="b1">y</b><a id="a2" k="2">x</a><n id="n1">3</n>'
           '<n id="n2">4.5</n><a id="a3">z</a><n id="n3">3</n><m id="m1">7</m></r>')
MODEL_DOC = {
    'paths': {
        '//a': ['a1', 'a2', 'a3'],
        '//n': ['n1', 'n2', 'n3'],
        '//b': ['b1'],
        '/r/*': ['a1', 'b1', 'a2', 'n1', 'n2', 'a3', 'n3', 'm1'],
        '//zz': [],
        '//a/@k': ['a1@k', 'a2@k'],
        '//m': ['m1'],
    },
    'sv': {'a1': 'x', 'b1': 'y', 'a2': 'x', 'n1': '3', 'n2': '4.5', 'a3': 'z', 'n3': '3', 'm1': '7',
           'a1@k': '1', 'a2@k': '2', 'r': 'xyx34.5z37'},
}
NODE_PATHS_ANY = ['//a', '//n', '//b', '/r/*', '//zz', '//a/@k', '//m']
NODE_PATHS_NUM = ['//n', '//a/@k', '//m', '//zz']
_DOC = None


def get_doc():
    global _DOC
    if _DOC is None:
        _DOC = ET.XML(DOC_XML)
    return _DOC


# ------------------------------------------------------------------ engine side
def py_value(t, lex):
    if t == 'integer':
        return int(lex)
    if t == 'decimal':
        return Decimal(lex)
    if t == 'double':
        return ml.parse_double_lexical(lex)
    if t == 'boolean':
        return lex == 'true'
    return lex


def edesc(x):
    if isinstance(x, XPathNode):
        elem = getattr(x, 'elem', None)
        if elem is not None and hasattr(elem, 'get'):
            return ['node', elem.get('id')]
        parent = getattr(x, 'parent', None)
        name = getattr(x, 'name', None)
        if parent is not None and name is not None and getattr(parent, 'elem', None) is not None:
            return ['node', '%s@%s' % (parent.elem.get('id'), name)]
        return ['node', '?' + type(x).__name__]
    return engine.describe(x)


def engine_eval(text, version, extvars):
    variables = {name: [py_value(t, lex) for t, lex in items] for name, items in sorted(extvars.items())}

    def f():
        parser = engine.PARSERS[version]()
        tok = parser.parse(text)
        ctx = XPathContext(root=get_doc(), variables=variables)
        return [edesc(x) for x in tok.select(ctx)]
    o = call(f)
    if o[0] == 'ok':
        return ('ok', o[1])
    if o[0] == 'err':
        return ('err', o[1])
    return ('exc', o[1], o[2])


def model_env(extvars):
    return {name: [ml.lit_value(t, lex) for t, lex in items] for name, items in extvars.items()}


def model_eval(ast, version, extvars, eager=False):
    ev = ml.Evaluator(version, MODEL_DOC, eager=eager)
    try:
        return ('ok', ev.run(ast, model_env(extvars)), ev)
    except XErr as e:
        return ('err', e, ev)
    except Undecided as u:
        return ('undecided', str(u), ev)
    except RecursionError:
        return ('undecided', 'model recursion', ev)


# ------------------------------------------------------------------ comparison
NUMLABELS = ('integer', 'decimal', 'double', 'float')
# imprecise values: decimal division digits, order of floating point additions, and xs:float intermediate
# results that the engine keeps in double precision (C06 finding float/computed-in-double-precision)
APPROX_TOL = Fraction(1, 10 ** 6)


def num_of(d):
    """numeric value of a description [label, text] as Fraction, or 'nan'/'inf'/'-inf'; None if not numeric"""
    if d[0] not in NUMLABELS:
        return None
    s = d[1]
    if s == 'NaN':
        return 'nan'
    if s == 'INF':
        return 'inf'
    if s == '-INF':
        return '-inf'
    try:
        if d[0] in ('double', 'float'):
            return Fraction(float(s))
        return Fraction(s)
    except (ValueError, ZeroDivisionError, OverflowError):
        return None


def item_diff(x, g, ev):
    """x: model V, g: engine description -> None | 'value' | 'type'"""
    e = ml.describe_value(x)
    if not isinstance(g, list) or len(g) < 2:
        return 'value'
    if e == g:
        return None
    if x.t == 'node' or g[0] == 'node':
        return 'value'
    en, gn = num_of(e), num_of(g)
    if en is not None and gn is not None:
        if isinstance(en, str) or isinstance(gn, str):
            same = en == gn
        elif x.approx:
            same = abs(en - gn) <= APPROX_TOL * max(abs(en), abs(gn), Fraction(1, 10 ** 300))
        else:
            same = en == gn
        if not same and e[0] == 'float' and g[0] in ('float', 'double') and not isinstance(en, str):
            # the engine keeps xs:float values in double precision (C06 finding): compare as binary32
            # and tolerate the single-precision rounding of intermediate results
            try:
                same = Fraction(ml.f32(float(gn))) == en or \
                    abs(en - gn) <= Fraction(1, 10 ** 6) * max(abs(en), abs(gn))
            except (OverflowError, ValueError):
                same = False
        if not same:
            return 'value'
        if en == 0 and e[1] != g[1] and e[0] in ('float', 'double') and g[0] in ('float', 'double') \
                and not ev.zero_free:
            return 'zero-sign'
        if e[0] == g[0]:
            return None
        if ev.intdec_free and {e[0], g[0]} == {'integer', 'decimal'}:
            return None
        return 'type'
    if e[1] == g[1] and e[0] != g[0]:
        return 'type'
    return 'value'


def seq_diff(exp, got, ev):
    if len(exp) != len(got):
        return 'value'
    worst = None
    for x, g in zip(exp, got):
        d = item_diff(x, g, ev)
        if d == 'value':
            return 'value'
        if d is not None and worst != 'zero-sign':
            worst = d
    return worst


def distinct_values_diff(inp, got, ev):
    """inp: atomized model input of distinct-values, got: engine descriptions"""
    vals = []
    for g in got:
        match = None
        for x in inp:
            if item_diff(x, g, ev) is None and ml.describe_value(x)[0] == g[0]:
                match = x
                break
        if match is None:
            return 'value'      # an item that is not (type and value) one of the input items
        vals.append(match)
    for i in range(len(vals)):
        for j in range(i + 1, len(vals)):
            if ml.same_key(vals[i], vals[j]):
                return 'value'  # two equal items
    for x in inp:
        if not any(ml.same_key(x, y) for y in vals):
            return 'value'      # an input value without representative
    return None


def dv_nesting_safe(ast):
    """distinct-values only at the root or directly under count/empty/exists"""
    def rec(node, ok):
        if node[0] == 'call' and node[1] == 'distinct-values' and not ok:
            return False
        for c, _ in ml.children(node):
            if not rec(c, node[0] == 'call' and node[1] in ('count', 'empty', 'exists')):
                return False
        return True
    return rec(ast, True)


def judge(ast, version, extvars):
    """-> dict(status ok|undecided|fail, diff, text, expected, got, reason)"""
    try:
        return _judge(ast, version, extvars)
    except Undecided as u:
        return {'text': ml.render(ast), 'status': 'undecided', 'diff': None, 'reason': 'compare:' + str(u)[:30],
                'got': ['?'], 'expected': ['undecided', str(u)], 'model': ('undecided', str(u), None)}


def _judge(ast, version, extvars):
    text = ml.render(ast)
    res = {'text': text, 'status': 'ok', 'diff': None, 'reason': None}
    mo = model_eval(ast, version, extvars)
    if mo[0] == 'undecided' and ('budget' in mo[1] or 'too long' in mo[1]):
        # too much work for a unit case: do not even ask the engine (it would only be slow, not wrong)
        res.update(status='undecided', reason='model:' + mo[1][:40], got=['skipped'], expected=['undecided', mo[1]],
                   model=mo)
        return res
    eo = engine_eval(text, version, extvars)
    res['got'] = list(eo)
    if mo[0] == 'ok':
        res['expected'] = ['ok', ml.describe_seq(mo[1])]
    elif mo[0] == 'err':
        res['expected'] = ['err', sorted(mo[1].codes)]
    else:
        res['expected'] = ['undecided', mo[1]]
    res['model'] = mo
    if eo[0] == 'exc':
        res['status'] = 'fail'
        res['diff'] = 'exception:%s@%s' % (eo[1], eo[2])
        return res
    if mo[0] == 'undecided':
        res['status'] = 'undecided'
        res['reason'] = 'model:' + mo[1].split(':')[0][:40]
        return res
    ev = mo[2]
    if mo[0] == 'ok':
        if eo[0] == 'ok':
            if ev.order_free:
                if not dv_nesting_safe(ast):
                    res['status'] = 'undecided'
                    res['reason'] = 'distinct-values-nested'
                    return res
                if ast[0] == 'call' and ast[1] == 'distinct-values':
                    inp = model_eval(ast[2], version, extvars)
                    if inp[0] != 'ok':
                        res['status'] = 'undecided'
                        res['reason'] = 'distinct-values-input'
                        return res
                    d = distinct_values_diff(inp[2].atomize(inp[1]), eo[1], ev)
                    if d:
                        res['status'] = 'fail'
                        res['diff'] = d
                    return res
            d = seq_diff(mo[1], eo[1], ev)
            if d:
                res['status'] = 'fail'
                res['diff'] = d
            return res
        # engine raised, model has a value: an error in dead code may be reported early (XPath 2.3.1)
        eager = model_eval(ast, version, extvars, eager=True)
        if eager[0] == 'err' and eo[1] in eager[1].codes:
            res['status'] = 'undecided'
            res['reason'] = 'error-in-unevaluated-branch'
            return res
        res['status'] = 'fail'
        res['diff'] = 'error-unexpected'
        return res
    # model error
    err = mo[1]
    strict = err.origin is ast
    if eo[0] == 'err' and eo[1] in err.codes:
        return res
    if not strict:
        res['status'] = 'undecided'
        res['reason'] = 'nested-error'
        return res
    res['status'] = 'fail'
    res['diff'] = 'error-expected' if eo[0] == 'ok' else 'error-code'
    return res


# ------------------------------------------------------------------ localisation + classifier
def closed(ast, extvars):
    return not ml.uses_focus(ast) and ml.free_vars(ast) <= set(extvars)


def localise(ast, version, extvars, res, budget):
    """descend to the smallest closed sub-expression that still fails"""
    if budget[0] <= 0:
        return ast, res
    for c, _ in ml.children(ast):
        if c[0] in ('lit', 'nodes', 'var') or not closed(c, extvars):
            continue
        budget[0] -= 1
        if budget[0] <= 0:
            return ast, res
        r = judge(c, version, extvars)
        if r['status'] == 'fail':
            return localise(c, version, extvars, r, budget)
    # instantiate the bodies of binders / predicates / map with the model's bindings
    for inst in instantiations(ast, version, extvars):
        if inst is None or inst[0] == 'lit' or not closed(inst, extvars):
            continue
        budget[0] -= 1
        if budget[0] <= 0:
            break
        try:
            r = judge(inst, version, extvars)
        except Exception:
            continue
        if r['status'] == 'fail':
            return localise(inst, version, extvars, r, budget)
    return ast, res


def instantiations(ast, version, extvars):
    k = ast[0]
    ev = ml.Evaluator(version, MODEL_DOC)
    env = model_env(extvars)
    try:
        if k in ml.BINDERS:
            for i in range(1, len(ast[1])):
                n = 0
                for e in ml.iter_bindings(ev, ast[1][:i], env, None):
                    local = {name: e[name] for name, _ in ast[1][:i]}
                    yield ml.substitute(ast[1][i][1], local, None)
                    n += 1
                    if n >= 6:
                        break
            n = 0
            for e in ml.iter_bindings(ev, ast[1], env, None):
                local = {name: e[name] for name, _ in ast[1]}
                yield ml.substitute(ast[2], local, None)
                n += 1
                if n >= 12:
                    break
        elif k in ('filter', 'map'):
            base = ev.eval(ast[1], env, None)
            for i, item in enumerate(base[:12], 1):
                yield ml.substitute(ast[2], {}, ml.Focus(item, i, len(base)))
    except (XErr, Undecided, RecursionError, KeyError):
        return


def pos_class(seq, n):
    if seq is None:
        return 'unknown'
    if not seq:
        return 'empty'
    if len(seq) > 1:
        return 'multi'
    x = seq[0]
    if x.t not in ml.RANK:
        return 'non-numeric'
    v = x.v
    if x.t in ('double', 'float'):
        if v != v:
            return 'nan'
        if v == math.inf:
            return 'inf'
        if v == -math.inf:
            return '-inf'
    fr = Fraction(v)
    if fr.denominator != 1:
        cls = 'half' if fr.denominator == 2 else 'frac'
        if fr < 0:
            cls += '-neg'
        return cls
    if fr < 0:
        return 'neg'
    if fr == 0:
        return 'zero'
    if fr > n:
        return 'beyond'
    return 'in'


def agg_class(seq, ev):
    if seq is None:
        return 'unknown'
    if not seq:
        return 'empty'
    nodes = any(x.t == 'node' for x in seq)
    seq = ev.atomize(seq)
    types = sorted(set(x.t for x in seq))
    if all(t in ml.RANK for t in types):
        top = max(types, key=lambda t: ml.RANK[t])
        cls = ('single:' if len(seq) == 1 else ('same:' if len(types) == 1 else 'to-')) + top
        if any(ml.is_nan(x) for x in seq):
            cls += '+nan'
        return cls
    if nodes or types == ['untypedAtomic']:
        return 'untyped'
    if types == ['string']:
        return 'string'
    if 'boolean' in types:
        return 'with-boolean'
    return 'mixed'


def eq_class(seq, ev, other=None):
    if seq is None:
        return 'unknown'
    if not seq and not other:
        return 'empty'
    seq = list(seq) + list(other or [])
    if any(x.t == 'node' for x in seq):
        return 'nodes'
    types = set(x.t for x in seq)
    if 'boolean' in types:
        return 'with-boolean'
    if any(ml.is_nan(x) for x in seq):
        return 'with-nan'
    if types <= set(ml.RANK):
        return 'numeric' if len(types) == 1 else 'numeric-mixed'
    if types == {'string'}:
        return 'string'
    return 'mixed'


def len_class(seq):
    if seq is None:
        return 'unknown'
    cls = 'empty' if not seq else ('single' if len(seq) == 1 else 'multi')
    if any(x.t == 'node' for x in seq):
        cls += '-nodes'
    return cls


def label(ast):
    if ast[0] == 'call':
        return ast[1]
    if ast[0] in ('arith', 'vcmp', 'gcmp'):
        return '%s:%s' % (ast[0], ast[1])
    return ast[0]


def top_type(seq, ev):
    if not seq:
        return 'empty'
    seq = ev.atomize(seq)
    types = set('double' if x.t == 'untypedAtomic' else x.t for x in seq)
    if types <= set(ml.RANK):
        return max(types, key=lambda t: ml.RANK[t])
    return 'non-numeric'


def focus_parts(ast):
    """which parts of its own focus an expression uses: ctx / pos / last"""
    parts = set()

    def rec(node):
        if node[0] in ('ctx', 'pos', 'last'):
            parts.add(node[0])
        for c, role in ml.children(node):
            if role == 'same':
                rec(c)
    rec(ast)
    return '+'.join(sorted(parts)) or 'none'


def arg_class(ast, version, extvars, diff=''):
    k = ast[0]
    ev = ml.Evaluator(version, MODEL_DOC)

    def val(sub):
        if not closed(sub, extvars):
            return None
        r = model_eval(sub, version, extvars)
        return r[1] if r[0] == 'ok' else None
    try:
        if k == 'call':
            name = ast[1]
            args = [val(a) for a in ast[2:]]
            n = len(args[0]) if args and args[0] is not None else 0
            if name == 'subsequence':
                # the most special class among start / length (keeps one mechanism under few keys)
                order = ['unknown', 'empty', 'multi', 'non-numeric', 'nan', 'inf', '-inf', 'half', 'half-neg',
                         'frac', 'frac-neg', 'neg', 'zero', 'beyond', 'in']
                cl = [pos_class(a, n) for a in args[1:3]]
                return '%dargs:%s' % (len(args), min(cl, key=order.index))
            if name in ('insert-before', 'remove'):
                return 'pos=%s' % pos_class(args[1], n)
            if name in ('sum', 'avg', 'min', 'max'):
                if diff in ('type', 'zero-sign') and args[0] is not None:
                    t = top_type(args[0], ev)
                    return 'floating' if diff == 'zero-sign' else t
                cls = agg_class(args[0], ev)
                if name == 'sum' and len(args) > 1 and cls == 'empty':
                    cls += ',zero'
                return cls
            if name == 'index-of':
                return eq_class(args[0], ev, args[1])
            if name == 'distinct-values':
                return eq_class(args[0], ev)
            if name == 'string-join':
                return '%s,%dargs' % (eq_class(args[0], ev), len(args))
            return len_class(args[0]) if args else ''
        if k == 'filter':
            p = ast[2]
            if p[0] == 'lit':
                base = val(ast[1])
                return 'pred-literal:%s' % pos_class([ml.lit_value(p[1], p[2])],
                                                     len(base) if base is not None else 0)
            return 'pred-uses:%s' % focus_parts(p)
        if k in ml.BINDERS:
            return '%dvars' % len(ast[1])
        if k == 'map':
            return 'rhs-uses:%s' % focus_parts(ast[2])
        if k == 'to':
            return ','.join(pos_class(val(a), 10 ** 9) for a in ast[1:3])
        if k in ('arith', 'vcmp', 'gcmp'):
            ops = [val(a) for a in ast[2:4]]
            if any(o is not None and not o for o in ops):
                return 'empty-operand'
            return '~'.join(top_type(o, ev) if o is not None else 'unknown' for o in ops)
    except Exception:
        return 'unclassified'
    return ''


def fail_key(ast, version, extvars, res):
    budget = [40]
    try:
        node, r = localise(ast, version, extvars, res, budget)
    except (RecursionError, ValueError, KeyError):
        node, r = ast, res
    diff = r['diff']
    if diff.startswith('exception:'):
        return 'C08/exception/%s' % diff[len('exception:'):], node, r
    if diff == 'error-unexpected':
        diff = 'error-unexpected:%s' % r['got'][1]
        if r['got'][1] == 'XPST0008' and self_mention(node):
            return 'C08/binding/range-expression-mentions-own-variable-name/XPST0008', node, r
    if diff == 'value' and node[0] in ('filter', 'map') and focus_leak_shape(node[2]):
        return 'C08/quantified/focus-in-satisfies-after-filter-in-range/value', node, r
    if (diff == 'value' or diff.startswith('error-unexpected')) and early_exit_shape(node) \
            and node[0] in ('filter', 'map', 'for', 'some', 'every', 'seq'):
        return 'C08/focus-not-restored-after-early-exit-consumer/%s' % diff.split(':')[0], node, r
    if diff in ('value', 'type', 'zero-sign') and any(n[0] == 'lit' and n[1] == 'float' for n in ml.walk(node)):
        # is the engine's answer what the model gives when xs:float is held in double precision (listed deviation)?
        ml.FLOAT_AS_DOUBLE[0] = True
        try:
            alt = judge(node, version, extvars)
        except Exception:
            alt = None
        finally:
            ml.FLOAT_AS_DOUBLE[0] = False
        if alt is not None and alt['status'] == 'ok':
            return 'C08/xs-float-held-in-double-precision/%s' % label(node), node, r
    cls = arg_class(node, version, extvars, diff)
    return 'C08/%s/%s/%s' % (label(node), cls, diff), node, r


def early_exit_shape(ast):
    """head/exists/empty (consumers that stop after the first item) over an expression that sets a focus"""
    for n in ml.walk(ast):
        if n[0] == 'call' and n[1] in ('head', 'exists', 'empty'):
            if any(m[0] in ('filter', 'map') for m in ml.walk(n[2])):
                return True
    return False


def focus_leak_shape(ast):
    """some/every whose satisfies clause uses the focus and whose range expression sets a focus of its own"""
    for n in ml.walk(ast):
        if n[0] in ('some', 'every') and ml.uses_focus(n[2]):
            for _, e in n[1]:
                if any(m[0] in ('filter', 'map', 'nodes') for m in ml.walk(e)):
                    return True
    return False


def self_mention(ast):
    """a for/some/every clause whose range expression mentions (refers to or re-binds) the clause's own
    variable name - legal when the name is bound further out or re-bound inside"""
    for n in ml.walk(ast):
        if n[0] in ml.BINDERS:
            for name, e in n[1]:
                for m in ml.walk(e):
                    if m[0] == 'var' and m[1] == name:
                        return True
                    if m[0] in ml.BINDERS and any(b[0] == name for b in m[1]):
                        return True
    return False


# ------------------------------------------------------------------ generator
INTS = ['0', '1', '2', '3', '4', '5', '6', '7', '9', '10', '-1', '-2', '100']
# decimals are dyadic: decimal -> double/float promotion is exact (inexact promotion is C07's business)
DECS = ['0.5', '1.5', '2.5', '3.0', '-0.5', '2.25', '0.125', '10.75', '1.0', '-2.5', '0.0']
DBLS = ['1.5', '2', '0', '-0', 'NaN', 'INF', '-INF', '0.1', '3.5', '1e300', '-2.5', '4', '1', '0.5']
FLTS = ['1.5', '2', 'NaN', 'INF', '-0', '0.25', '3', '1', '-1.5']
STRS = ['a', 'b', 'ab', '', 'A', 'z', '1', 'é', "it's", 'aa', 'x', 'B']
POS_DBL = ['0.5', '1.5', '2.5', '-0.5', '-1.5', '3.5', 'NaN', 'INF', '-INF', '0', '-0', '1e10', '2.4999',
           '2', '1', '4.5', '8.5', '-1e10', '0.5', '1.5', '2.5', 'NaN', 'INF', '-INF', '3', '7.5', '1e300']
POS_DEC = ['1.5', '2.5', '0.5', '-0.5', '2.0', '3.49', '0.0']
VCMP = ['eq', 'ne', 'lt', 'le', 'gt', 'ge']
GCMP = ['=', '!=', '<', '<=', '>', '>=']
NAMES = ['x', 'y', 'z', 'i', 'j', 'k', 'u', 'w']

ROOTS = ['count', 'empty', 'exists', 'head', 'tail', 'reverse', 'subsequence', 'subsequence', 'insert-before',
         'remove', 'index-of', 'distinct-values', 'zero-or-one', 'one-or-more', 'exactly-one', 'sum', 'avg',
         'min', 'max', 'string-join', 'comma', 'to', 'filter', 'filter', 'for', 'for', 'some', 'every', 'map',
         'if', 'nodes']


def lit(t, lex):
    return ['lit', t, lex]


class Gen:
    def __init__(self, r, allow30):
        self.r = r
        self.allow30 = allow30
        self.ext = {}
        self.vars = {}        # name -> kind of the (singleton) value
        self.pending = []     # names of clauses whose range expression is being generated
        self.focus = None     # kind of the context item or None

    # ---- literals
    def lit_item(self, kind):
        r = self.r
        if kind == 'int':
            return lit('integer', r.choice(INTS[:9] if r.random() < 0.8 else INTS))
        if kind == 'str':
            return lit('string', r.choice(STRS))
        if kind == 'num':
            x = r.random()
            if x < 0.35:
                return lit('integer', r.choice(INTS))
            if x < 0.6:
                return lit('decimal', r.choice(DECS))
            if x < 0.9:
                return lit('double', r.choice(DBLS))
            return lit('float', r.choice(FLTS))
        if kind == 'mixed':
            x = r.random()
            if x < 0.45:
                return self.lit_item('num')
            if x < 0.9:
                return self.lit_item('str')
            return lit('boolean', r.choice(['true', 'false']))
        raise ValueError(kind)

    def lit_seq(self, kind, allow_ext=True):
        r = self.r
        if kind == 'node':
            return ['nodes', r.choice(NODE_PATHS_ANY)]
        x = r.random()
        n = 0 if x < 0.08 else (1 if x < 0.2 else r.randint(2, 8))
        if kind == 'num' and r.random() < 0.3:
            # one numeric type only (aggregates: result type = item type)
            t = r.choice(['integer', 'decimal', 'double', 'float'])
            pool = {'integer': INTS, 'decimal': DECS, 'double': DBLS, 'float': FLTS}[t]
            base = [lit(t, r.choice(pool)) for _ in range(r.randint(1, 4))]
        else:
            base = [self.lit_item(kind) for _ in range(r.randint(1, 4))]
        items = [r.choice(base) if r.random() < 0.75 else self.lit_item(kind) for _ in range(n)]
        if allow_ext and r.random() < 0.2 and all(i[1] != 'float' for i in items):
            name = 's%d' % len(self.ext)
            self.ext[name] = [[i[1], i[2]] for i in items]
            return ['var', name]
        if n == 1 and r.random() < 0.5:
            return items[0]
        return ['seq'] + items

    # ---- scoping helpers
    def fresh_name(self):
        """mostly a name that is neither in scope nor being bound by an enclosing clause"""
        r = self.r
        if r.random() < 0.9:
            free = [n for n in NAMES if n not in self.vars and n not in self.pending]
            if free:
                return r.choice(free)
        return r.choice(NAMES)

    def with_var(self, name, kind, fn):
        old = self.vars.get(name)
        self.vars[name] = kind
        try:
            return fn()
        finally:
            if old is None:
                self.vars.pop(name, None)
            else:
                self.vars[name] = old

    def with_focus(self, kind, fn):
        old = self.focus
        self.focus = kind
        try:
            return fn()
        finally:
            self.focus = old

    def vars_of(self, kinds):
        return [n for n in sorted(self.vars) if self.vars[n] in kinds]

    @staticmethod
    def compat(kind):
        """kinds of singleton values usable where `kind` is wanted"""
        return {'int': ('int',), 'num': ('int', 'num'), 'str': ('str',), 'mixed': ('int', 'num', 'str', 'mixed'),
                'node': ('node',)}[kind]

    # ---- sequences
    def seq(self, d, kind):
        r = self.r
        if d <= 0 or r.random() < 0.12:
            if kind == 'int' and r.random() < 0.3:
                a = r.randint(-1, 4)
                return ['to', lit('integer', str(a)), lit('integer', str(a + r.randint(-1, 6)))]
            return self.lit_seq(kind)
        opts = ['filter', 'filter', 'for', 'comma', 'if', 'reverse', 'subsequence', 'remove', 'insert-before',
                'item', 'one-or-more']
        if self.allow30:
            opts += ['map', 'tail', 'head']
        if kind in ('int', 'num'):
            opts += ['index-of', 'to', 'forarith']
        if kind == 'node':
            opts = ['filter', 'filter', 'reverse', 'subsequence', 'remove', 'for', 'comma', 'insert-before']
            if self.allow30:
                opts += ['map', 'tail']
        c = r.choice(opts)
        if c == 'filter':
            base = self.seq(d - 1, kind)
            return ['filter', base, self.with_focus(kind, lambda: self.pred(d - 1, kind))]
        if c == 'for':
            return self.for_expr(d, kind)
        if c == 'forarith':
            name = self.fresh_name()
            src = self.seq(d - 1, 'int' if kind == 'int' else r.choice(['int', 'num']))
            k2 = 'int' if kind == 'int' else 'num'
            body = self.with_var(name, k2, lambda: ['arith', r.choice(['+', '-', '*']), ['var', name],
                                                   self.item(d - 2, kind)])
            return ['for', [[name, src]], body]
        if c == 'map':
            k2 = kind if r.random() < 0.7 or kind == 'node' else r.choice(['int', 'num', 'str'])
            base = self.seq(d - 1, k2)
            if kind == 'node':
                body = ['ctx']
            else:
                body = self.with_focus(k2, lambda: self.seq(d - 1, kind) if r.random() < 0.4
                                       else self.item(d - 1, kind))
                if r.random() < 0.2:
                    body = self.with_focus(k2, lambda: self.after_probe(d - 1, body))
            return ['map', base, body]
        if c == 'comma':
            parts = [self.seq(d - 1, kind) if r.random() < 0.6 else self.item(d - 1, kind)
                     for _ in range(r.randint(2, 3))]
            return ['seq'] + parts
        if c == 'if':
            return ['if', self.boolean(d - 1), self.seq(d - 1, kind), self.seq(d - 1, kind)]
        if c == 'reverse':
            return ['call', 'reverse', self.seq(d - 1, kind)]
        if c == 'tail':
            return ['call', 'tail', self.seq(d - 1, kind)]
        if c == 'head':
            return ['call', 'head', self.seq(d - 1, kind)]
        if c == 'one-or-more':
            return ['call', 'one-or-more', self.seq(d - 1, kind)]
        if c == 'subsequence':
            args = [self.seq(d - 1, kind), self.posarg(d - 1)]
            if r.random() < 0.7:
                args.append(self.posarg(d - 1))
            return ['call', 'subsequence'] + args
        if c == 'remove':
            return ['call', 'remove', self.seq(d - 1, kind), self.intarg(d - 1)]
        if c == 'insert-before':
            return ['call', 'insert-before', self.seq(d - 1, kind), self.intarg(d - 1),
                    self.seq(d - 2, kind) if r.random() < 0.5 else self.item(d - 2, kind)]
        if c == 'index-of':
            k2 = r.choice(['int', 'num', 'str'])
            return ['call', 'index-of', self.seq(d - 1, k2), self.item(d - 2, k2)]
        if c == 'to':
            return ['to', self.item(d - 1, 'int'), self.item(d - 1, 'int')]
        return self.item(d, kind)

    def for_expr(self, d, kind, word='for'):
        r = self.r
        nb = 1 if r.random() < 0.6 else (2 if r.random() < 0.85 else 3)
        binds = []
        saved = dict(self.vars)
        try:
            for _ in range(nb):
                name = self.fresh_name()
                if kind == 'node':
                    k2 = 'node' if not binds or r.random() < 0.5 else 'int'
                else:
                    k2 = kind if r.random() < 0.6 else r.choice(['int', 'num', 'str'])
                self.pending.append(name)
                try:
                    src = self.seq(d - 1, k2)
                    if binds and self.allow30 and k2 != 'node' and r.random() < 0.12:
                        src = ['call', 'head', ['filter', src, self.with_focus(k2, lambda: self.pred(d - 2, k2))]]
                    binds.append([name, src])
                finally:
                    self.pending.pop()
                self.vars[name] = k2
            if word == 'for':
                if kind == 'node':
                    names = self.vars_of(('node',))
                    body = ['var', r.choice(names)] if names else ['nodes', '//b']
                elif r.random() < 0.5:
                    body = self.seq(d - 1, kind)
                else:
                    body = self.item(d - 1, kind)
            else:
                body = self.boolean(d - 1)
        finally:
            self.vars = saved
        return [word, binds, body]

    def after_probe(self, d, body):
        """(probe, body): a consumer that may stop early over a focus-setting expression, then the body
        (which may use the outer focus)"""
        r = self.r
        k = r.choice(['int', 'num', 'str'])
        inner = ['filter', self.seq(d - 1, k), self.with_focus(k, lambda: self.pred(d - 1, k))]
        fn = r.choice(['exists', 'empty', 'head', 'count'] if self.allow30 else ['exists', 'empty', 'count'])
        return ['seq', ['call', 'count', ['call', fn, inner]], body]

    # ---- singleton (or empty) items
    def item(self, d, kind):
        r = self.r
        if kind == 'node':
            return ['filter', ['nodes', r.choice(NODE_PATHS_ANY)], lit('integer', str(r.randint(1, 3)))]
        ok = self.compat(kind)
        cands = []
        names = self.vars_of(ok)
        if names:
            cands += ['var'] * 3
        if self.focus in ok:
            cands += ['ctx'] * 3
        if self.focus is not None and kind in ('int', 'num', 'mixed'):
            cands += ['pos', 'last']
        if d <= 0 or not cands or r.random() < 0.25:
            cands += ['lit'] * (2 if cands else 1)
        if d > 0:
            cands += ['head-filter', 'if']
            if kind in ('int', 'num', 'mixed'):
                cands += ['count', 'sum', 'arith', 'arith']
            if kind in ('num', 'mixed'):
                cands += ['agg']
            if kind == 'str':
                cands += ['string-join', 'minmax-str']
        c = r.choice(cands)
        if c == 'lit':
            return self.lit_item(kind)
        if c == 'var':
            return ['var', r.choice(names)]
        if c == 'ctx':
            return ['ctx']
        if c == 'pos':
            return ['pos']
        if c == 'last':
            return ['last']
        if c == 'count':
            return ['call', 'count', self.seq(d - 1, r.choice(['int', 'num', 'str', 'mixed', 'node']))]
        if c == 'sum':
            return ['call', 'sum', self.seq(d - 1, 'int' if kind == 'int' else r.choice(['int', 'num']))]
        if c == 'agg':
            return ['call', r.choice(['avg', 'min', 'max']), self.seq(d - 1, r.choice(['int', 'num']))]
        if c == 'arith':
            ops = ['+', '-', '*', 'mod', 'idiv'] if kind == 'int' else ['+', '-', '*', 'mod', 'div', 'idiv']
            op = r.choice(ops if r.random() < 0.4 else ['+', '-', '*'])
            k2 = 'int' if kind == 'int' else 'num'
            return ['arith', op, self.item(d - 1, k2), self.item(d - 1, k2)]
        if c == 'head-filter':
            base = self.seq(d - 1, 'num' if kind == 'mixed' else kind)
            p = lit('integer', str(r.randint(1, 3))) if r.random() < 0.6 else \
                self.with_focus(kind, lambda: r.choice([['last'], ['arith', '-', ['last'], lit('integer', '1')]]))
            return ['filter', base, p]
        if c == 'if':
            return ['if', self.boolean(d - 1), self.item(d - 1, kind), self.item(d - 1, kind)]
        if c == 'string-join':
            args = [self.seq(d - 1, 'str')]
            if not self.allow30 or r.random() < 0.8:
                args.append(lit('string', r.choice(['', ',', '-', 'ab'])))
            return ['call', 'string-join'] + args
        if c == 'minmax-str':
            return ['call', r.choice(['min', 'max']), self.seq(d - 1, 'str')]
        return self.lit_item(kind)

    # ---- position / length arguments
    def posarg(self, d):
        r = self.r
        x = r.random()
        if x < 0.30:
            return lit('integer', str(r.choice([-2, -1, 0, 1, 1, 2, 2, 3, 4, 5, 7, 9, 10, 100])))
        if x < 0.62:
            return lit('double', r.choice(POS_DBL))
        if x < 0.74:
            return lit('decimal', r.choice(POS_DEC))
        if x < 0.79:
            return lit('float', r.choice(['1.5', '2.5', 'INF', 'NaN', '-INF', '2']))
        if x < 0.90:
            return self.item(d, r.choice(['int', 'num']))
        if x < 0.97:
            return lit('integer', str(r.randint(1, 6)))
        if x < 0.985:
            return lit('string', 'a')
        return ['seq']

    def intarg(self, d):
        r = self.r
        x = r.random()
        if x < 0.6:
            return lit('integer', str(r.choice([-2, -1, 0, 1, 1, 2, 2, 3, 4, 5, 8, 9, 10, 100])))
        if x < 0.8:
            return self.item(d, 'int')
        if x < 0.9:
            return lit('integer', str(r.randint(1, 6)))
        if x < 0.96:
            return lit(r.choice(['double', 'decimal']), r.choice(['2', '1.5', '2.0']))
        if x < 0.98:
            return lit('string', '1')
        return ['seq']

    # ---- predicates (generated with self.focus = kind of the filtered items)
    def pred(self, d, kind):
        r = self.r
        x = r.random()
        if x < 0.36:
            y = r.random()
            if y < 0.35:
                return lit('integer', str(r.choice([0, 1, 1, 2, 2, 3, 4, 5, 8, 9, -1])))
            if y < 0.5:
                return r.choice([['last'], ['arith', '-', ['last'], lit('integer', '1')], ['pos'],
                                 ['arith', '+', ['pos'], lit('integer', '1')],
                                 ['arith', 'idiv', ['arith', '+', ['last'], lit('integer', '1')],
                                  lit('integer', '2')]])
            if y < 0.65:
                return lit('double', r.choice(['1', '2', '2.5', 'NaN', 'INF', '-0', '0', '3', '1.5']))
            if y < 0.75:
                return lit('decimal', r.choice(['1.0', '2.0', '2.5', '0.0']))
            if y < 0.8:
                return lit('float', r.choice(['1', '2', 'NaN']))
            return self.item(d, 'int')
        return self.cond(d, kind)

    def cond(self, d, kind):
        """boolean-ish predicate body over the focus"""
        r = self.r
        opts = ['pos-cmp', 'pos-cmp', 'pos-mod', 'pos-in', 'last-cmp', 'bool']
        if kind in ('int', 'num', 'str'):
            opts += ['ctx-cmp', 'ctx-cmp', 'ctx-gcmp', 'quant']
        if kind == 'node':
            opts += ['node-eq']
        if kind == 'mixed':
            opts += ['ebv-ctx']
        if d > 0:
            opts += ['and', 'or', 'not', 'exists']
        c = r.choice(opts)
        if c == 'pos-cmp':
            return ['vcmp', r.choice(VCMP), ['pos'], self.item(d - 1, 'int') if r.random() < 0.4
                    else lit('integer', str(r.randint(0, 5)))]
        if c == 'pos-mod':
            return ['vcmp', 'eq', ['arith', 'mod', ['pos'], lit('integer', str(r.choice([2, 2, 3])))],
                    lit('integer', str(r.choice([0, 1])))]
        if c == 'pos-in':
            return ['gcmp', r.choice(['=', '=', '!=', '<', '>=']), ['pos'], self.seq(d - 1, 'int')]
        if c == 'last-cmp':
            return ['vcmp', r.choice(VCMP), ['last'], lit('integer', str(r.randint(0, 6)))]
        if c == 'bool':
            y = r.random()
            if y < 0.5:
                return lit('boolean', r.choice(['true', 'false']))
            if y < 0.8:
                return lit('string', r.choice(['', 'a']))
            return ['seq']
        if c == 'ctx-cmp':
            k2 = 'num' if kind == 'int' and r.random() < 0.3 else kind
            if r.random() < 0.5:
                return ['vcmp', r.choice(VCMP), ['ctx'], self.item(d - 1, k2)]
            return ['vcmp', r.choice(VCMP), self.item(d - 1, k2), ['ctx']]
        if c == 'ctx-gcmp':
            return ['gcmp', r.choice(GCMP), ['ctx'], self.seq(d - 1, kind)]
        if c == 'quant':
            name = self.fresh_name()
            src = self.seq(d - 1, kind)
            if r.random() < 0.4:
                src = ['filter', src, self.with_focus(kind, lambda: self.pred(d - 2, kind))]
            body = self.with_var(name, kind, lambda: ['vcmp', r.choice(VCMP), ['var', name], ['ctx']])
            return [r.choice(['some', 'every']), [[name, src]], body]
        if c == 'node-eq':
            return ['gcmp', r.choice(['=', '!=']), ['ctx'], lit('string', r.choice(['x', 'y', '3', 'z']))]
        if c == 'ebv-ctx':
            return ['ctx']
        if c == 'and':
            return ['and', self.cond(d - 1, kind), self.cond(d - 1, kind)]
        if c == 'or':
            return ['or', self.cond(d - 1, kind), self.cond(d - 1, kind)]
        if c == 'not':
            return ['call', 'not', self.cond(d - 1, kind)]
        if c == 'exists':
            return ['call', r.choice(['exists', 'empty']), self.seq(d - 1, r.choice(['int', 'num', 'str']))]
        return lit('boolean', 'true')

    def boolean(self, d):
        r = self.r
        opts = ['cmp', 'cmp', 'gcmp', 'lit']
        if d > 0:
            opts += ['some', 'every', 'empty', 'exists', 'not', 'and', 'or', 'count-cmp']
        c = r.choice(opts)
        if c == 'cmp':
            k = r.choice(['int', 'num', 'str'])
            return ['vcmp', r.choice(VCMP), self.item(d - 1, k), self.item(d - 1, k)]
        if c == 'gcmp':
            k = r.choice(['int', 'num', 'str'])
            return ['gcmp', r.choice(GCMP), self.seq(d - 1, k), self.seq(d - 1, k)]
        if c == 'lit':
            return lit('boolean', r.choice(['true', 'false']))
        if c in ('some', 'every'):
            return self.for_expr(d, r.choice(['int', 'num', 'str']), word=c)
        if c in ('empty', 'exists'):
            return ['call', c, self.seq(d - 1, r.choice(['int', 'num', 'str', 'mixed', 'node']))]
        if c == 'not':
            return ['call', 'not', self.boolean(d - 1)]
        if c in ('and', 'or'):
            return [c, self.boolean(d - 1), self.boolean(d - 1)]
        if c == 'count-cmp':
            return ['vcmp', r.choice(VCMP), ['call', 'count', self.seq(d - 1, r.choice(['int', 'num', 'str']))],
                    lit('integer', str(r.randint(0, 5)))]
        return lit('boolean', 'true')

    # ---- root templates
    def any_kind(self, node_ok=True):
        r = self.r
        x = r.random()
        if x < 0.3:
            return 'int'
        if x < 0.6:
            return 'num'
        if x < 0.8:
            return 'str'
        if x < 0.9 or not node_ok:
            return 'mixed'
        return 'node'

    def root(self, name, d):
        r = self.r
        if name in ('count', 'empty', 'exists', 'reverse', 'head', 'tail', 'zero-or-one', 'one-or-more',
                    'exactly-one'):
            k = self.any_kind()
            if name in ('zero-or-one', 'exactly-one') and r.random() < 0.6:
                arg = self.item(d, k) if r.random() < 0.5 else ['filter', self.seq(d - 1, k), self.with_focus(
                    k, lambda: self.pred(d - 1, k))]
            elif name in ('count', 'empty', 'exists') and r.random() < 0.12:
                arg = ['call', 'distinct-values', self.seq(d - 1, r.choice(['num', 'str', 'mixed']))]
            else:
                arg = self.seq(d, k)
            return ['call', name, arg]
        if name == 'subsequence':
            k = self.any_kind()
            args = [self.seq(d, k), self.posarg(d)]
            if r.random() < 0.75:
                args.append(self.posarg(d))
            return ['call', 'subsequence'] + args
        if name == 'insert-before':
            k = self.any_kind()
            return ['call', name, self.seq(d, k), self.intarg(d), self.seq(d - 1, k)]
        if name == 'remove':
            return ['call', name, self.seq(d, self.any_kind()), self.intarg(d)]
        if name == 'index-of':
            x = r.random()
            if x < 0.1:
                return ['call', name, ['nodes', r.choice(NODE_PATHS_ANY)],
                        lit('string', r.choice(['x', 'y', '3', '1']))]
            k = r.choice(['int', 'num', 'num', 'str', 'mixed'])
            srch = self.item(d - 1, k if r.random() < 0.8 else 'mixed')
            if r.random() < 0.03:
                srch = ['seq']
            return ['call', name, self.seq(d, k), srch]
        if name == 'distinct-values':
            x = r.random()
            if x < 0.08:
                return ['call', name, ['nodes', r.choice(NODE_PATHS_ANY)]]
            return ['call', name, self.seq(d, r.choice(['int', 'num', 'num', 'str', 'mixed']))]
        if name in ('sum', 'avg', 'min', 'max'):
            x = r.random()
            if x < 0.08:
                arg = ['nodes', r.choice(NODE_PATHS_NUM)]
            elif x < 0.16:
                arg = self.seq(d, 'mixed' if name in ('sum', 'avg') or r.random() < 0.5 else 'str')
            elif x < 0.5:
                arg = self.lit_seq('num')
            else:
                arg = self.seq(d, r.choice(['int', 'num', 'num']))
            args = [arg]
            if name == 'sum' and r.random() < 0.2:
                args.append(r.choice([lit('string', 'none'), ['seq'], lit('double', '0'), lit('integer', '0'),
                                      lit('decimal', '0.0')]))
            return ['call', name] + args
        if name == 'string-join':
            x = r.random()
            k = 'str' if x < 0.8 else ('int' if x < 0.92 else 'mixed')
            args = [self.seq(d, k)]
            if not self.allow30 or r.random() < 0.8:
                args.append(lit('string', r.choice(['', ',', '-', 'ab', ' '])) if r.random() < 0.9
                            else self.item(d - 1, 'str'))
            return ['call', name] + args
        if name == 'comma':
            k = self.any_kind()
            return ['seq'] + [self.seq(d, k) if r.random() < 0.7 else self.item(d, k)
                              for _ in range(r.randint(2, 4))]
        if name == 'to':
            x = r.random()
            if x < 0.85:
                return ['to', self.item(d, 'int'), self.item(d, 'int')]
            if x < 0.93:
                return ['to', self.item(d, 'int'), ['seq']]
            return ['to', lit('decimal', '1.0'), self.item(d, 'int')]
        if name == 'filter':
            k = self.any_kind()
            base = self.seq(d, k)
            node = ['filter', base, self.with_focus(k, lambda: self.pred(d, k))]
            if r.random() < 0.3:
                node = ['filter', node, self.with_focus(k, lambda: self.pred(d - 1, k))]
            return node
        if name == 'for':
            return self.for_expr(d + 1, self.any_kind())
        if name in ('some', 'every'):
            return self.for_expr(d + 1, r.choice(['int', 'num', 'str']), word=name)
        if name == 'map':
            k = self.any_kind()
            k2 = r.choice(['int', 'num', 'str'])
            base = self.seq(d, k)
            if k == 'node':
                body = r.choice([['ctx'], ['pos'], ['seq', ['pos'], ['last']], ['call', 'string', ['ctx']]])
            else:
                body = self.with_focus(k, lambda: self.seq(d, k2) if r.random() < 0.5 else self.item(d, k2))
            node = ['map', base, body]
            if r.random() < 0.25:
                node = ['map', node, self.with_focus(k2 if k != 'node' else 'mixed',
                                                      lambda: r.choice([['pos'], ['seq', ['ctx'], ['last']]]))]
            return node
        if name == 'if':
            k = self.any_kind()
            return ['if', self.boolean(d), self.seq(d, k), self.seq(d, k)]
        if name == 'nodes':
            return self.seq(d + 1, 'node')
        raise ValueError(name)


def gen_program(r):
    allow30 = r.random() < 0.55
    g = Gen(r, allow30)
    names = ROOTS if allow30 else [n for n in ROOTS if n not in ('head', 'tail', 'map')]
    name = r.choice(names)
    d = r.choice([0, 1, 1, 2, 2, 2, 3, 3])
    ast = g.root(name, d)
    tries = 0
    while ml.depth(ast) > 9 or ml.size(ast) > 90:
        tries += 1
        g = Gen(r, allow30)
        ast = g.root(name, max(0, d - tries))
    need = ml.min_version(ast)
    version = '3.1' if (allow30 or need > '2.0') else '2.0'
    return {'v': version, 'e': ast, 'vars': g.ext, 'root': name}


# ---- equivalences (engine against engine)
RELS = ['every-some', 'every-some', 'subseq-pred', 'subseq-pred', 'subseq-pred', 'reverse-reverse',
        'count-additive', 'remove-insert', 'head-tail', 'some-every']


def closed_numeric_posarg(g):
    r = g.r
    x = r.random()
    if x < 0.3:
        return lit('integer', str(r.choice([-2, -1, 0, 1, 2, 3, 4, 5, 9, 10, 100])))
    if x < 0.7:
        return lit('double', r.choice(POS_DBL))
    if x < 0.85:
        return lit('decimal', r.choice(POS_DEC))
    return g.item(1, 'int')


def gen_equiv(r):
    rel = r.choice(RELS)
    allow30 = rel == 'head-tail' or r.random() < 0.5
    g = Gen(r, allow30)
    d = r.choice([0, 1, 1, 2])
    if rel in ('every-some', 'some-every'):
        q1, q2 = ('every', 'some') if rel == 'every-some' else ('some', 'every')
        node = g.for_expr(d + 1, r.choice(['int', 'num', 'str']), word=q1)
        a = node
        b = ['call', 'not', [q2, node[1], ['call', 'not', node[2]]]]
    elif rel == 'subseq-pred':
        s = g.seq(d, g.any_kind())
        pa = closed_numeric_posarg(g)
        ra = ['call', 'round', pa]
        if r.random() < 0.75:
            pb = closed_numeric_posarg(g)
            a = ['call', 'subsequence', s, pa, pb]
            b = ['filter', s, ['and', ['vcmp', 'le', ra, ['pos']],
                               ['vcmp', 'lt', ['pos'], ['arith', '+', ra, ['call', 'round', pb]]]]]
        else:
            a = ['call', 'subsequence', s, pa]
            b = ['filter', s, ['vcmp', 'le', ra, ['pos']]]
    elif rel == 'reverse-reverse':
        s = g.seq(d, g.any_kind())
        a = ['call', 'reverse', ['call', 'reverse', s]]
        b = s
    elif rel == 'count-additive':
        s1 = g.seq(d, g.any_kind())
        s2 = g.seq(d, g.any_kind())
        a = ['call', 'count', ['seq', s1, s2]]
        b = ['arith', '+', ['call', 'count', s1], ['call', 'count', s2]]
    elif rel == 'remove-insert':
        k = g.any_kind()
        s = g.seq(d, k)
        p = lit('integer', str(r.choice([-2, -1, 0, 1, 2, 3, 4, 5, 8, 9, 10, 100])))
        x = g.lit_item(k) if k != 'node' else ['filter', ['nodes', '//b'], lit('integer', '1')]
        where = ['call', 'min', ['seq', ['call', 'max', ['seq', p, lit('integer', '1')]],
                                 ['arith', '+', ['call', 'count', s], lit('integer', '1')]]]
        a = ['call', 'remove', ['call', 'insert-before', s, p, x], where]
        b = s
    else:   # head-tail
        s = g.seq(d, g.any_kind())
        a = ['seq', ['call', 'head', s], ['call', 'tail', s]]
        b = s
    need = max(ml.min_version(a), ml.min_version(b))
    version = '3.1' if (allow30 or need > '2.0') else '2.0'
    return {'v': version, 'rel': rel, 'a': a, 'b': b, 'vars': g.ext}


# ------------------------------------------------------------------ oracle for one case
BINDER_KINDS = ('filter', 'for', 'some', 'every', 'map')


def nesting_chain(ast):
    """longest chain of focus/variable binding constructs from the root to a leaf"""
    best = []

    def rec(node, chain):
        nonlocal best
        if node[0] in BINDER_KINDS:
            chain = chain + [node[0]]
            if len(chain) > len(best):
                best = chain
        for c, _ in ml.children(node):
            rec(c, chain)
    rec(ast, [])
    return best


def check_prog(case, out):
    version = case['v']
    ast = case['e']
    extvars = case.get('vars') or {}
    res = judge(ast, version, extvars)
    out.dim('version', version)
    out.dim('root', case.get('root') or label(ast))
    constructs = sorted(set(label(n) for n in ml.walk(ast)))
    for c in constructs:
        out.dim('construct', c)
    out.dim('depth', min(ml.depth(ast), 10))
    chain = nesting_chain(ast)
    if len(chain) >= 2:
        out.dim('nesting', '>'.join(chain[:4]))
    out.dim('nesting_depth', len(chain))
    for n in ml.walk(ast):
        if n[0] == 'call' and n[1] in ('subsequence', 'insert-before', 'remove'):
            for a in n[3:]:
                out.dim('posarg', a[1] + ':' + a[2] if a[0] == 'lit' else 'expr:' + label(a))
        elif n[0] == 'filter' and n[2][0] == 'lit':
            out.dim('pred_literal', n[2][1] + ':' + n[2][2])
        elif n[0] == 'lit':
            out.dim('literal_type', n[1])
        elif n[0] in ml.BINDERS:
            out.dim('binder_vars', '%s:%d' % (n[0], len(n[1])))
    mo = res['model']
    if mo[0] == 'ok':
        out.dim('result_len', min(len(mo[1]), 9))
        for t in sorted(set(x.t for x in mo[1])):
            out.dim('result_type', t)
        out.dim('oracle_comparisons', 'value')
    elif mo[0] == 'err':
        out.dim('oracle_comparisons', 'error')
        for c in sorted(mo[1].codes):
            out.dim('expected_error', c)
    if res['status'] == 'undecided':
        out.dim('undecided', res['reason'])
    out.dim('outcome', res['status'] + ':' + res['got'][0])
    out.nontrivial = res['status'] != 'undecided' and any(
        n[0] not in ('lit', 'seq', 'var', 'nodes') for n in ml.walk(ast))
    out.obs = '%s => %s' % (res['text'][:160], str(res['got'])[:120])
    if res['status'] == 'fail':
        key, node, r = fail_key(ast, version, extvars, res)
        out.fail(key, {'expr': res['text'], 'version': version, 'vars': extvars,
                       'expected': res['expected'], 'got': res['got'],
                       'culprit': r['text'], 'culprit_expected': r['expected'], 'culprit_got': r['got']})


def check_equiv(case, out):
    version = case['v']
    extvars = case.get('vars') or {}
    rel = case['rel']
    ta = ml.render(case['a'])
    tb = ml.render(case['b'])
    out.dim('equiv', rel)
    for side in ('a', 'b'):
        m = model_eval(case[side], version, extvars)
        if m[0] == 'undecided' and ('budget' in m[1] or 'too long' in m[1]):
            out.dim('equiv_outcome', 'too-big-skipped')
            out.nontrivial = False
            out.obs = 'skipped (work bound): %s' % ta[:100]
            return
    ea = engine_eval(ta, version, extvars)
    eb = engine_eval(tb, version, extvars)
    out.dim('version', version)
    out.obs = '%s  ==  %s : %s' % (ta[:100], tb[:100], str(ea)[:80])
    for side, e, t in (('lhs', ea, ta), ('rhs', eb, tb)):
        if e[0] == 'exc':
            out.fail('C08/exception/%s@%s' % (e[1], e[2]), {'expr': t, 'version': version, 'vars': extvars})
    if ea[0] != 'ok' or eb[0] != 'ok':
        out.dim('equiv_outcome', 'error-skipped')
        out.nontrivial = False
        return
    out.dim('equiv_outcome', 'compared')
    out.dim('oracle_comparisons', 'equivalence')
    if ea[1] != eb[1]:
        # which side does the model support?
        ma = model_eval(case['a'], version, extvars)
        mb = model_eval(case['b'], version, extvars)
        if ma[0] == 'undecided' or mb[0] == 'undecided' or ma[0] == 'err' or mb[0] == 'err':
            out.dim('equiv_outcome', 'undecided')
            return
        try:
            equiv_verdict(case, out, rel, version, extvars, ta, tb, ea, eb, ma, mb)
        except Undecided:
            out.dim('equiv_outcome', 'undecided')


def equiv_verdict(case, out, rel, version, extvars, ta, tb, ea, eb, ma, mb):
    if True:
        sides = []
        if seq_diff(ma[1], ea[1], ma[2]):
            sides.append('lhs')
        if seq_diff(mb[1], eb[1], mb[2]):
            sides.append('rhs')
        if seq_diff(ma[1], [ml.describe_value(x) for x in mb[1]], ma[2]) and not sides:
            # the model itself says the two sides differ: the equivalence does not apply to this instance
            out.dim('equiv_outcome', 'model-says-different')
            return
        cls = ''
        if rel == 'subseq-pred':
            cls = '/' + arg_class(case['a'], version, extvars)
        out.fail('C08/equiv/%s%s/%s-deviates' % (rel, cls, '+'.join(sides) or 'unknown'),
                 {'lhs': ta, 'rhs': tb, 'version': version, 'vars': extvars, 'lhs_got': ea, 'rhs_got': eb,
                  'model': ml.describe_seq(ma[1])})


def engine_only(kind, case):
    """the engine's share of a case (used to tell a slow model/classification from a slow engine)"""
    if kind == 'prog':
        engine_eval(ml.render(case['e']), case['v'], case.get('vars', {}))


def check_case(kind, case):
    out = Outcome()
    if kind == 'prog':
        check_prog(case, out)
    elif kind == 'equiv':
        check_equiv(case, out)
    else:
        raise ValueError(kind)
    return out


# ------------------------------------------------------------------ shrinking
def with_child(node, i, new):
    k = node[0]
    if k in ml.BINDERS:
        nb = len(node[1])
        if i < nb:
            binds = [list(b) for b in node[1]]
            binds[i][1] = new
            return [k, binds, node[2]]
        return [k, node[1], new]
    head = 2 if k in ('call', 'arith', 'vcmp', 'gcmp') else 1
    out = list(node)
    out[head + i] = new
    return out


def variants(node):
    k = node[0]
    kids = ml.children(node)
    for c, role in kids:
        if role == 'same':
            yield c
    if k == 'seq' and len(node) > 1:
        for i in range(1, len(node)):
            yield node[:i] + node[i + 1:]
    if k in ml.BINDERS and len(node[1]) > 1:
        for i in range(len(node[1])):
            yield [k, node[1][:i] + node[1][i + 1:], node[2]]
    if k == 'filter':
        yield node[1]
    if k == 'call' and node[1] == 'subsequence' and len(node) == 5:
        yield node[:4]
    if k == 'lit' and node[1] == 'integer' and node[2] not in ('0', '1'):
        yield ['lit', 'integer', '1']
    for i, (c, role) in enumerate(kids):
        for v in variants(c):
            yield with_child(node, i, v)


def shrink(kind, case):
    if kind == 'prog':
        extvars = case.get('vars') or {}
        n = 0
        seen = set()
        for v in variants(case['e']):
            if not closed(v, extvars):
                continue
            key = repr(v)
            if key in seen:
                continue
            seen.add(key)
            used = ml.free_vars(v)
            yield {'v': case['v'], 'e': v, 'vars': {k: x for k, x in extvars.items() if k in used},
                   'root': label(v)}
            n += 1
            if n > 400:
                break
        for name in sorted(extvars):
            items = extvars[name]
            for i in range(len(items)):
                nv = dict(extvars)
                nv[name] = items[:i] + items[i + 1:]
                yield {'v': case['v'], 'e': case['e'], 'vars': nv, 'root': case.get('root')}
    elif kind == 'equiv':
        extvars = case.get('vars') or {}
        for name in sorted(extvars):
            items = extvars[name]
            for i in range(len(items)):
                nv = dict(extvars)
                nv[name] = items[:i] + items[i + 1:]
                yield dict(case, vars=nv)


# ------------------------------------------------------------------ driver
def shadowing_programs():
    """directed programs: an inner binder re-uses the name of an enclosing binder and the outer variable is read
    again after the inner expression (a binder that forgets to open its own scope overwrites the outer value)"""
    def lit(t, v):
        return ['lit', t, v]
    s12 = ['seq', lit('integer', '1'), lit('integer', '2')]
    s56 = ['seq', lit('integer', '5'), lit('integer', '6')]
    out = []
    for name in ('x', 'k'):
        var = ['var', name]
        inners = {
            'some': ['some', [[name, s56]], ['vcmp', 'eq', var, lit('integer', '6')]],
            'every': ['every', [[name, s56]], ['vcmp', 'gt', var, lit('integer', '0')]],
            'for': ['for', [[name, s56]], ['arith', '*', var, lit('integer', '10')]],
            'some2': ['some', [['w', s12], [name, s56]], ['vcmp', 'lt', ['var', 'w'], var]],
        }
        for iname, inner in inners.items():
            body = ['seq', inner, var]
            out.append((['for', [[name, s12]], body], 'for'))
            out.append((['some', [[name, s12]], ['vcmp', 'eq', ['call', 'count', ['seq', inner, var, var]], lit('integer', '3')]], 'some'))
            out.append((['every', [[name, s12]], ['gcmp', '=', ['seq', inner, var], var]], 'every'))
            out.append((['for', [[name, s12], ['j', ['seq', inner, var]]], ['seq', ['var', 'j'], var]], 'for'))
            out.append((['filter', s12, ['gcmp', '=', ['for', [[name, ['ctx']]], ['seq', inner, var]], ['ctx']]], 'filter'))
    return out


def focus_programs():
    """directed programs: an earlier clause of a multi-variable binder filters with a predicate that reads ITS focus,
    a later clause (and the body) reads the focus of the binder itself, given by an enclosing filter over numbers"""
    def lit(t, v):
        return ['lit', t, v]
    outer = ['seq', lit('integer', '3'), lit('integer', '4')]
    strs = ['seq', lit('string', 'A'), lit('string', 'B')]
    nums = ['seq', lit('integer', '7'), lit('integer', '8'), lit('integer', '9')]
    filtered = [['filter', strs, ['ctx']], ['filter', nums, ['vcmp', 'gt', ['ctx'], lit('integer', '7')]],
                ['filter', nums, ['vcmp', 'eq', ['pos'], lit('integer', '2')]]]
    out = []
    for f in filtered:
        for kind in ('for', 'some', 'every'):
            if kind == 'for':
                inner = ['for', [['u', f], ['k', ['seq', ['ctx'], ['arith', '+', ['ctx'], lit('integer', '1')]]]], ['seq', ['var', 'k'], ['ctx']]]
            elif kind == 'some':
                inner = ['some', [['u', f], ['k', ['ctx']]], ['vcmp', 'ge', ['var', 'k'], lit('integer', '3')]]
            else:
                inner = ['every', [['u', f], ['k', ['ctx']]], ['vcmp', 'eq', ['var', 'k'], ['ctx']]]
            # the binder is evaluated once per item of `outer`, which is its focus
            out.append((['filter', outer, ['gcmp', '=', ['call', 'count', inner], ['call', 'count', inner]]], 'filter'))
            out.append((['for', [['o', outer]], ['filter', ['var', 'o'], ['gcmp', '=', inner, inner]]], 'for'))
    return out


def run(h):
    r = h.rng
    if h.shard == 0:
        for e, root in shadowing_programs() + focus_programs():
            for v in ('2.0', '3.1'):
                h.case('prog', {'v': v, 'e': e, 'vars': {}, 'root': root})
    for _ in range(h.n(16000)):
        h.case('prog', gen_program(r))
    for _ in range(h.n(3000)):
        h.case('equiv', gen_equiv(r))


FLOOR_CONSTRUCTS = ['seq', 'to', 'filter', 'for', 'some', 'every', 'map', 'if', 'pos', 'last', 'ctx', 'count',
                    'empty', 'exists', 'head', 'tail', 'reverse', 'subsequence', 'insert-before', 'remove',
                    'index-of', 'distinct-values', 'zero-or-one', 'one-or-more', 'exactly-one', 'sum', 'avg',
                    'min', 'max', 'string-join']


def floors(v):
    reasons = []
    if v.got('oracle_comparisons', 'value') < 2000:
        reasons.append('fewer than 2000 engine results compared with the list model')
    if v.got('oracle_comparisons', 'equivalence') < 200:
        reasons.append('fewer than 200 engine-vs-engine equivalences compared')
    for c in FLOOR_CONSTRUCTS:
        if v.got('construct', c) < 30:
            reasons.append('construct %s exercised fewer than 30 times' % c)
    for ver in ('2.0', '3.1'):
        if v.got('version', ver) < 500:
            reasons.append('fewer than 500 cases under XPath %s' % ver)
    if v.got('nesting_depth', 3) + v.got('nesting_depth', 4) + v.got('nesting_depth', 5) < 50:
        reasons.append('fewer than 50 programs with binding constructs nested 3 deep')
    for rel in ('every-some', 'subseq-pred'):
        if v.got('equiv', rel) < 50:
            reasons.append('equivalence %s exercised fewer than 50 times' % rel)
    und = v.got('undecided')
    if und * 2 > max(1, v.got('case_kind', 'prog')):
        reasons.append('more than half of the programs were undecided')
    return reasons
