"""C15 - maps and arrays are immutable values obeying the XPath 3.1 map/array laws.

Shadow model over operation histories (DESIGN.md section 4, C15): every step of a history applies
one map:* / array:* function, constructor or '?' lookup to values of a pool held as XPath variables
($v0, $v1, ...); the engine result is compared with rv.models.maparray and afterwards EVERY value
still in the pool is re-described and compared with its model (immutability).
"""
import json
import xml.etree.ElementTree as ET

from ..core import Outcome
from ..engine import call, evaluate, describe
from ..models import maparray as M
from ..models.maparray import ATOMS, NODES, XErr

from elementpath.xpath_tokens import XPathMap, XPathArray
from elementpath.xpath_nodes import XPathNode
from elementpath.datatypes import AbstractQName

PROPERTY = 'C15'
LEVEL = 'exploration'
RULE = ('random histories of 6-14 steps over a pool of live values bound as variables $v<i>; a step is a map/array '
        'constructor, one of 11 map:* / 19 array:* operations (several syntactic forms: function, $m(k), ?(k), ?name, '
        'unary ?) or ?* applied to pool values; keys from a pool of 70 atomic literals grouped in same-key / '
        'confusable families (numeric types, +-0, NaN, INF, float-vs-double, string/anyURI/untypedAtomic, boolean, '
        'QName, dates with/without timezone, durations, binaries); values atomic, empty, sequences, nodes, nested '
        'maps/arrays; indexes 0, negative, 1, size, size+1, beyond. After each step result == list/dict model and '
        'every pool value == its model. A history is non-trivial when >= 3 steps were executed and compared; '
        'distinct by canonical JSON of the history.')
ASSUMPTIONS = [
    'rv.models.maparray (F&O 3.1 section 17 transcribed as tuple/dict code) is the ground truth',
    'order of map:keys, map:for-each, ?* on maps and of map:find matches is implementation-dependent: compared as bags',
    'map:merge: the type of the surviving key among same-key duplicates of different types is not decided',
    'subarray with both an invalid start and a negative length: either FOAY0001 or FOAY0002 accepted',
    'atomic values are observed through type label + canonical text (xs:float text normalised to single precision)',
]

ROOT = ET.XML('<r><a>1</a><b x="2">two</b></r>')
MAX_WEIGHT = 40
MAX_DEPTH = 4


class Dead(Exception):
    """the step refers to a pool slot that holds no (agreed) value, or has the wrong type"""


# ------------------------------------------------------------------ value specs
def render(spec):
    t = spec[0]
    if t == 'a':
        return spec[1]
    if t == 'e':
        return '()'
    if t == 's':
        return '(' + ', '.join(render(s) for s in spec[1]) + ')'
    if t == 'v':
        return '$v%d' % spec[1]
    if t == 'n':
        return NODES[spec[1]][0]
    if t == 'arr':
        return '[' + ', '.join(render(s) for s in spec[1]) + ']'
    if t == 'map1':
        return 'map{%s : %s}' % (spec[1], render(spec[2]))
    raise Dead('spec')


def mval(spec, pool):
    t = spec[0]
    if t == 'a':
        if spec[1] not in ATOMS:
            raise Dead('atom')
        return (('A', spec[1]),)
    if t == 'e':
        return ()
    if t == 's':
        out = ()
        for s in spec[1]:
            out += mval(s, pool)
        return out
    if t == 'v':
        return pget(pool, spec[1])
    if t == 'n':
        if spec[1] not in NODES:
            raise Dead('node')
        return (('N', spec[1]),)
    if t == 'arr':
        return M.mk_array([mval(s, pool) for s in spec[1]])
    if t == 'map1':
        return M.mk_map([(key(spec[1]), mval(spec[2], pool))])
    raise Dead('spec')


def spec_refs(spec, acc):
    t = spec[0]
    if t == 'v':
        acc.append(spec[1])
    elif t in ('s', 'arr'):
        for s in spec[1]:
            spec_refs(s, acc)
    elif t == 'map1':
        spec_refs(spec[2], acc)
    return acc


def spec_kind(spec):
    return {'a': 'atomic', 'e': 'empty', 's': 'sequence', 'v': 'pool-ref', 'n': 'node', 'arr': 'array',
            'map1': 'map'}.get(spec[0], '?')


def pget(pool, i):
    if not isinstance(i, int) or i < 0 or i >= len(pool) or pool[i] is None:
        raise Dead('ref')
    return pool[i]


def pmap(pool, i):
    v = pget(pool, i)
    if not M.is_map(v):
        raise Dead('type')
    return v


def parr(pool, i):
    v = pget(pool, i)
    if not M.is_array(v):
        raise Dead('type')
    return v


def key(src):
    if src not in ATOMS:
        raise Dead('key')
    return src


def intlit(i):
    return str(int(i))


# ------------------------------------------------------------------ interpretation of one step
# -> (expression, expected) with expected = ('ok', seq, mode, info) | ('err', codes)
def interpret(step, pool):
    op = step['op']
    try:
        expr, thunk, mode = _interpret(op, step, pool)
    except (KeyError, TypeError, IndexError, ValueError, AssertionError):
        raise Dead('malformed')
    try:
        res = thunk()
    except XErr as e:
        return expr, ('err', e.codes)
    info = None
    if op == 'map:merge':
        res, info = res
    return expr, ('ok', res, mode, info)


def _interpret(op, step, pool):
    v = lambda i: '$v%d' % i  # noqa: E731
    if op == 'val':
        spec = step['v']
        return render(spec), (lambda: mval(spec, pool)), 'exact'
    if op == 'map-ctor':
        ents = [(key(k), s) for k, s in step['entries']]
        expr = 'map{' + ', '.join('%s : %s' % (k, render(s)) for k, s in ents) + '}'
        return expr, (lambda: M.mk_map([(k, mval(s, pool)) for k, s in ents])), 'exact'
    if op == 'arr-ctor':
        mem = step['members']
        if step['form'] == 'square':
            return ('[' + ', '.join(render(s) for s in mem) + ']',
                    (lambda: M.mk_array([mval(s, pool) for s in mem])), 'exact')
        expr = 'array{' + ', '.join(render(s) for s in mem) + '}'

        def curly():
            items = ()
            for s in mem:
                items += mval(s, pool)
            return M.mk_array([(it,) for it in items])
        return expr, curly, 'exact'
    if op == 'map:entry':
        k, s = key(step['k']), step['v']
        return 'map:entry(%s, %s)' % (k, render(s)), (lambda: M.map_entry(k, mval(s, pool))), 'exact'
    if op == 'map:merge':
        ms = [pmap(pool, i) for i in step['ms']]
        seq = '(' + ', '.join(v(i) for i in step['ms']) + ')'
        pol = step.get('pol')
        if pol is None:
            return 'map:merge(%s)' % seq, (lambda: M.map_merge(ms, 'use-first')), 'merge'
        return ("map:merge(%s, map{'duplicates' : '%s'})" % (seq, pol)), (lambda: M.map_merge(ms, pol)), 'merge'
    if op == 'map:find':
        k, s = key(step['k']), step['inp']
        return 'map:find(%s, %s)' % (render(s), k), (lambda: M.map_find(mval(s, pool), k)), 'members-bag'
    if op.startswith('map:') :
        i = step['m']
        m = pmap(pool, i)
        if op == 'map:size':
            return 'map:size(%s)' % v(i), (lambda: M.map_size(m)), 'exact'
        if op == 'map:keys':
            return 'map:keys(%s)' % v(i), (lambda: M.map_keys(m)), 'bag'
        if op == 'map:for-each':
            return ('map:for-each(%s, function($k, $v){[$k, $v]})' % v(i)), (lambda: M.map_for_each_pairs(m)), 'bag'
        if op == 'map:values':
            return '%s?*' % v(i), (lambda: M.map_values_flat(m)), 'bag'
        if op == 'map:contains':
            k = key(step['k'])
            return 'map:contains(%s, %s)' % (v(i), k), (lambda: M.map_contains(m, k)), 'exact'
        if op == 'map:get':
            k = key(step['k'])
            form = step.get('form', 'fn')
            if form == 'fn':
                expr = 'map:get(%s, %s)' % (v(i), k)
            elif form == 'call':
                expr = '%s(%s)' % (v(i), k)
            elif form == 'lookup':
                expr = '%s?(%s)' % (v(i), k)
            elif form == 'unary':
                expr = '%s ! ?(%s)' % (v(i), k)
            elif form == 'lit':
                if k in M.NCNAME_KEYS:
                    expr = '%s?%s' % (v(i), ATOMS[k].text)
                elif k in M.LIT_INT_KEYS:
                    expr = '%s?%s' % (v(i), k)
                else:
                    raise Dead('lit')
            else:
                raise Dead('form')
            return expr, (lambda: M.map_get(m, k)), 'exact'
        if op == 'map:put':
            k, s = key(step['k']), step['v']
            return 'map:put(%s, %s, %s)' % (v(i), k, render(s)), (lambda: M.map_put(m, k, mval(s, pool))), 'exact'
        if op == 'map:remove':
            ks = [key(k) for k in step['ks']]
            arg = ks[0] if len(ks) == 1 and step.get('single', True) else '(' + ', '.join(ks) + ')'
            return 'map:remove(%s, %s)' % (v(i), arg), (lambda: M.map_remove(m, ks)), 'exact'
        raise Dead('op')
    if op == 'array:join':
        arrs = [parr(pool, i) for i in step['as']]
        return ('array:join((%s))' % ', '.join(v(i) for i in step['as'])), (lambda: M.array_join(arrs)), 'exact'
    if op == 'array:flatten':
        s = step['inp']
        return 'array:flatten(%s)' % render(s), (lambda: M.array_flatten(mval(s, pool))), 'exact'
    if op == 'array:for-each-pair':
        a, b = parr(pool, step['a']), parr(pool, step['b'])
        return ('array:for-each-pair(%s, %s, function($x, $y){[$x, $y]})' % (v(step['a']), v(step['b'])),
                (lambda: M.array_for_each_pair(a, b)), 'exact')
    if op.startswith('array:') or op == 'bad-lookup':
        i = step['a']
        a = parr(pool, i)
        if op == 'bad-lookup':
            def bad():
                raise XErr('XPTY0004')
            if step['form'] == 'array-name':
                return '%s?a' % v(i), bad, 'exact'
            return "array:get(%s, 'a')" % v(i), bad, 'exact'
        if op == 'array:size':
            return 'array:size(%s)' % v(i), (lambda: M.array_size(a)), 'exact'
        if op == 'array:get':
            n = int(step['i'])
            form = step.get('form', 'fn')
            if form == 'fn':
                expr = 'array:get(%s, %s)' % (v(i), intlit(n))
            elif form == 'call':
                expr = '%s(%s)' % (v(i), intlit(n))
            elif form == 'lookup':
                expr = '%s?(%s)' % (v(i), intlit(n))
            elif form == 'unary':
                expr = '%s ! ?(%s)' % (v(i), intlit(n))
            elif form == 'lit':
                if n < 0:
                    raise Dead('lit')
                expr = '%s?%s' % (v(i), intlit(n))
            else:
                raise Dead('form')
            return expr, (lambda: M.array_get(a, n)), 'exact'
        if op == 'array:put':
            n, s = int(step['i']), step['v']
            return ('array:put(%s, %s, %s)' % (v(i), intlit(n), render(s)),
                    (lambda: M.array_put(a, n, mval(s, pool))), 'exact')
        if op == 'array:insert-before':
            n, s = int(step['i']), step['v']
            return ('array:insert-before(%s, %s, %s)' % (v(i), intlit(n), render(s)),
                    (lambda: M.array_insert_before(a, n, mval(s, pool))), 'exact')
        if op == 'array:append':
            s = step['v']
            return 'array:append(%s, %s)' % (v(i), render(s)), (lambda: M.array_append(a, mval(s, pool))), 'exact'
        if op == 'array:subarray':
            n = int(step['i'])
            ln = step.get('len')
            if ln is None:
                return 'array:subarray(%s, %s)' % (v(i), intlit(n)), (lambda: M.array_subarray(a, n)), 'exact'
            ln = int(ln)
            return ('array:subarray(%s, %s, %s)' % (v(i), intlit(n), intlit(ln)),
                    (lambda: M.array_subarray(a, n, ln)), 'exact')
        if op == 'array:remove':
            ns = [int(x) for x in step['is']]
            arg = intlit(ns[0]) if len(ns) == 1 and step.get('single', True) else \
                '(' + ', '.join(intlit(x) for x in ns) + ')'
            return 'array:remove(%s, %s)' % (v(i), arg), (lambda: M.array_remove(a, ns)), 'exact'
        if op == 'array:head':
            return 'array:head(%s)' % v(i), (lambda: M.array_head(a)), 'exact'
        if op == 'array:tail':
            return 'array:tail(%s)' % v(i), (lambda: M.array_tail(a)), 'exact'
        if op == 'array:reverse':
            return 'array:reverse(%s)' % v(i), (lambda: M.array_reverse(a)), 'exact'
        if op == 'array:for-each':
            f = step['f']
            return ('array:for-each(%s, %s)' % (v(i), M.FOR_EACH_FUNCS[f][0])), (lambda: M.array_for_each(a, f)), 'exact'
        if op == 'array:filter':
            f = step['f']
            return ('array:filter(%s, %s)' % (v(i), M.FILTER_FUNCS[f][0])), (lambda: M.array_filter(a, f)), 'exact'
        if op == 'array:fold-left':
            return ('array:fold-left(%s, (), function($z, $x){($z, [$x])})' % v(i)), (lambda: M.array_fold_left(a)), 'exact'
        if op == 'array:fold-right':
            return ('array:fold-right(%s, (), function($x, $z){($z, [$x])})' % v(i)), (lambda: M.array_fold_right(a)), 'exact'
        if op == 'array:members':
            return '%s?*' % v(i), (lambda: M.array_members_flat(a)), 'exact'
    raise Dead('op')


def step_refs(step):
    acc = []
    for f in ('m', 'a', 'b'):
        if isinstance(step.get(f), int):
            acc.append(step[f])
    for f in ('ms', 'as'):
        acc.extend(x for x in step.get(f, ()) if isinstance(x, int))
    for f in ('v', 'inp'):
        if f in step:
            spec_refs(step[f], acc)
    for k, s in step.get('entries', ()):
        spec_refs(s, acc)
    for s in step.get('members', ()):
        spec_refs(s, acc)
    return acc


# ------------------------------------------------------------------ descriptions
def dkey(d):
    return json.dumps(d, sort_keys=True)


def mdesc_item(it):
    t = it[0]
    if t == 'A':
        a = ATOMS[it[1]]
        return ['A', a.label, a.text]
    if t == 'I':
        return ['A', 'integer', str(it[1])]
    if t == 'N':
        return ['N', NODES[it[1]][1]]
    if t == 'R':
        return ['R', [mdesc(m) for m in it[1]]]
    if t == 'M':
        ents = [[mdesc_item(('A', ks)), mdesc(val)] for ks, val in it[1].values()]
        return ['M', sorted(ents, key=dkey)]
    raise AssertionError(it)


def mdesc(seq):
    return [mdesc_item(it) for it in seq]


def edesc_atomic(x):
    if isinstance(x, AbstractQName):
        uri = getattr(x, 'uri', None) or getattr(x, 'namespace', '') or ''
        text = str(x)
        return ['A', 'QName', text + '@' + uri if uri else text]
    d = describe(x)
    if isinstance(d, list) and len(d) == 2 and isinstance(d[0], str):
        if d[0] == 'float':
            try:
                return ['A', 'float', M.fmt_double(M.f32(float(x)))]
            except Exception:
                return ['A', 'float', str(d[1])]
        return ['A', d[0], d[1] if isinstance(d[1], str) else str(d[1])]
    return ['?', repr(d)[:80]]


def edesc_item(x, depth=0):
    if depth > 10:
        return ['...']
    try:
        if isinstance(x, XPathMap):
            ents = [[edesc_atomic(k), edesc(val, depth + 1)] for k, val in x.items()]
            return ['M', sorted(ents, key=dkey)]
        if isinstance(x, XPathArray):
            return ['R', [edesc(m, depth + 1) for m in x.items()]]
    except Exception as e:  # an unreadable value is an observation, not a harness error
        return ['unreadable', type(e).__name__]
    if isinstance(x, XPathNode):
        return ['N', '%s:%s' % (type(x).__name__, getattr(x, 'name', None))]
    if isinstance(x, (list, tuple)):
        return ['L', [edesc_item(y, depth + 1) for y in x]]
    if x is None:
        return ['None']
    return edesc_atomic(x)


def edesc(v, depth=0):
    """engine value -> description of a sequence"""
    if v is None:
        return []
    if isinstance(v, (list, tuple)):
        return [edesc_item(x, depth) for x in v]
    return [edesc_item(v, depth)]


# (label, text) -> canon, from the hand-written table only
DESC2CANON = {}
for _s in M.ORDER:
    _a = ATOMS[_s]
    DESC2CANON[(_a.label, _a.text)] = _a.canon


def compare(got, exp_seq, mode, info):
    """-> None if equal else short reason"""
    g = edesc(got)
    e = mdesc(exp_seq)
    if g == e:
        return None
    if mode == 'exact':
        return 'differs'
    if mode == 'bag':
        return None if sorted(g, key=dkey) == sorted(e, key=dkey) else 'differs (as bag)'
    if mode == 'members-bag':
        if len(g) == 1 and g[0][0] == 'R' and len(e) == 1:
            if sorted(g[0][1], key=dkey) == sorted(e[0][1], key=dkey):
                return None
        return 'differs (members as bag)'
    if mode == 'merge':
        if not info:
            return 'differs'
        if len(g) != 1 or g[0][0] != 'M':
            return 'not a map'
        gd = {}
        for kd, vd in g[0][1]:
            c = DESC2CANON.get((kd[1], kd[2])) if len(kd) == 3 else None
            if c is None or c in gd:
                return 'unknown or duplicate key %r' % (kd,)
            gd[c] = (kd, vd)
        md = exp_seq[0][1]
        if set(gd) != set(md):
            return 'key set differs'
        for c, (ks, val) in md.items():
            kd, vd = gd[c]
            amb = info.get(c, {})
            if not amb.get('keys') and kd != mdesc_item(('A', ks)):
                return 'key item differs'
            if 'values' in amb:
                if vd not in [mdesc(x) for x in amb['values']]:
                    return 'value is none of the duplicates'
            elif vd != mdesc(val):
                return 'value differs'
        return None
    return 'differs'


# ------------------------------------------------------------------ classifier
def idxclass(i, size):
    if i == 0:
        return 'zero'
    if i < 0:
        return 'negative'
    if i > 10 ** 6:
        return 'big'
    if i == size + 1:
        return 'size+1'
    if i > size + 1:
        return 'beyond'
    if i == 1:
        return 'first'
    if i == size:
        return 'last'
    return 'inner'


def nested_keys(seq, acc):
    for it in seq:
        if it[0] == 'R':
            for m in it[1]:
                nested_keys(m, acc)
        elif it[0] == 'M':
            for ks, val in it[1].values():
                acc.append(ks)
                nested_keys(val, acc)
    return acc


def key_pairs(step, pool):
    """pairs of keys whose same-key relation the step depends on, plus the list of argument keys"""
    op = step['op']
    args, pairs = [], []
    try:
        if op == 'map-ctor':
            args = [k for k, s in step['entries']]
            pairs = [(a, b) for n, a in enumerate(args) for b in args[n + 1:]]
        elif op == 'map:merge':
            per = [[ks for ks, val in pmap(pool, i)[0][1].values()] for i in step['ms']]
            for n, p in enumerate(per):
                for q in per[n + 1:]:
                    pairs.extend((a, b) for a in p for b in q)
            args = [k for p in per for k in p]
        elif op == 'map:find':
            args = [step['k']]
            pairs = [(step['k'], c) for c in nested_keys(mval(step['inp'], pool), [])]
        elif op in ('map:get', 'map:put', 'map:contains', 'map:remove', 'map:entry'):
            args = list(step['ks']) if op == 'map:remove' else [step['k']]
            ctx = [] if op == 'map:entry' else [ks for ks, val in pmap(pool, step['m'])[0][1].values()]
            pairs = [(a, c) for a in args for c in ctx]
            if op == 'map:remove':
                pairs += [(a, b) for n, a in enumerate(args) for b in args[n + 1:]]
    except (Dead, KeyError, TypeError):
        pass
    return [a for a in args if a in ATOMS], [(a, b) for a, b in pairs if a in ATOMS and b in ATOMS]


def map1_keys(spec, acc):
    t = spec[0]
    if t in ('s', 'arr'):
        for s in spec[1]:
            map1_keys(s, acc)
    elif t == 'map1':
        acc.append(spec[1])
        map1_keys(spec[2], acc)
    return acc


def ctor_keys(step):
    """keys written with the map{...} constructor syntax anywhere in the step"""
    acc = []
    try:
        for f in ('v', 'inp'):
            if f in step:
                map1_keys(step[f], acc)
        for k, s in step.get('entries', ()):
            if step['op'] == 'map-ctor':
                acc.append(k)
            map1_keys(s, acc)
        for s in step.get('members', ()):
            map1_keys(s, acc)
    except (TypeError, IndexError, KeyError):
        pass
    return [k for k in acc if k in ATOMS]


def untyped_as_string(d):
    """description with every xs:untypedAtomic *map key* relabelled xs:string"""
    if isinstance(d, list):
        if len(d) == 2 and d[0] == 'M' and isinstance(d[1], list):
            ents = []
            for kd, vd in d[1]:
                if kd[:2] == ['A', 'untypedAtomic']:
                    kd = ['A', 'string', kd[2]]
                ents.append([kd, untyped_as_string(vd)])
            return ['M', sorted(ents, key=dkey)]
        return [untyped_as_string(x) for x in d]
    return d


EXTRA_CONFUSABLE = {frozenset(['true()', "xs:untypedAtomic('true')"])}
LABEL_PRIORITY = ['untypedAtomic~other', 'boolean~numeric', 'temporal/cross-type', 'temporal/tz~notz',
                  'float-inexact~numeric', 'QName~string-like', 'base64Binary~hexBinary']


def best_label(labels):
    for lab in LABEL_PRIORITY:
        if lab in labels:
            return lab
    return sorted(labels)[0]


def confusable(a, b):
    A, B = ATOMS[a], ATOMS[b]
    return A.family == B.family or (A.kc in M.TEMPORAL_KC and B.kc in M.TEMPORAL_KC) or \
        frozenset([a, b]) in EXTRA_CONFUSABLE


def same_canon_keys(got_desc, exp_desc):
    """both are single maps whose key sets agree up to same-key: the defect is not about key identity"""
    try:
        if len(got_desc) != 1 or got_desc[0][0] != 'M' or len(exp_desc) != 1 or exp_desc[0][0] != 'M':
            return False
        g = sorted(repr(DESC2CANON[(kd[1], kd[2])]) for kd, vd in got_desc[0][1])
        e = sorted(repr(DESC2CANON[(kd[1], kd[2])]) for kd, vd in exp_desc[0][1])
        return g == e and len(set(g)) == len(g)
    except (KeyError, IndexError, TypeError):
        return False


def coresident(step, pool):
    """pairs of keys that are two distinct entries of one operand map: the engine tells them apart"""
    acc = set()
    try:
        idxs = list(step.get('ms', ())) if step.get('op') == 'map:merge' else []
        for i in idxs:
            ks = [k for k, val in pmap(pool, i)[0][1].values()]
            acc.update((a, b) for a in ks for b in ks if a != b)
    except (Dead, KeyError, TypeError):
        pass
    return acc


def key_relation(step, pool, what=''):
    args, pairs = key_pairs(step, pool)
    co = coresident(step, pool)
    pairs = [p for p in pairs if p not in co]
    if what.startswith('exception'):
        labs = {M.pair_label(a, b) for a, b in pairs if not M.same_key(a, b)}
        for lab in ('untypedAtomic~other', 'temporal/cross-type', 'temporal/tz~notz'):
            if lab in labs:
                return 'conflated/' + lab
    confl = {M.pair_label(a, b) for a, b in pairs if confusable(a, b) and not M.same_key(a, b)}
    if confl:
        return 'conflated/' + best_label(confl)
    split = {M.pair_label(a, b) for a, b in pairs if a != b and M.same_key(a, b)}
    if split:
        return 'split/' + best_label(split)
    return None


def argclass(step, pool):
    op = step['op']
    try:
        if op in ('array:get', 'array:put', 'array:insert-before', 'array:subarray'):
            size = len(parr(pool, step['a'])[0][1])
            if op == 'array:subarray' and step.get('len') is not None:
                st, ln = int(step['i']), int(step['len'])
                return 'start-%s/len-%s' % ('ok' if 1 <= st <= size + 1 else 'bad',
                                            'negative' if ln < 0 else 'to-end' if st + ln == size + 1 else
                                            'zero' if ln == 0 else 'inside' if st + ln < size + 1 else 'overrun')
            return idxclass(int(step['i']), size)
        if op == 'array:remove':
            size = len(parr(pool, step['a'])[0][1])
            cs = sorted({idxclass(int(x), size) for x in step['is']})
            bad = [c for c in cs if c in ('zero', 'negative', 'size+1', 'beyond', 'big')]
            return 'none' if not cs else (bad[0] if bad else ('dup' if len(set(step['is'])) < len(step['is'])
                                                               else 'valid'))
        if op == 'map:merge':
            return str(step.get('pol') or 'default')
        if op in ('map:get',):
            return step.get('form', 'fn')
        if op in ('array:for-each', 'array:filter'):
            return str(step['f'])
        if op in ('arr-ctor', 'bad-lookup'):
            return str(step['form'])
        if op in ('array:head', 'array:tail'):
            return 'empty' if not parr(pool, step['a'])[0][1] else 'non-empty'
    except (Dead, KeyError, TypeError, ValueError):
        return 'malformed'
    return 'any'


def nan_involved(step, pool):
    """a NaN key appears in the step itself or in a pool value the step refers to"""
    try:
        if 'NaN' in json.dumps(step):
            return True
        for i in step_refs(step):
            if 0 <= i < len(pool) and pool[i] is not None and 'NaN' in json.dumps(mdesc(pool[i]), default=repr):
                return True
    except Exception:
        return False
    return False


def _nan_type_blind(desc):
    """description with every NaN *map key* relabelled xs:double (entries re-sorted)"""
    if isinstance(desc, list):
        if len(desc) == 2 and desc[0] == 'M' and isinstance(desc[1], list):
            ents = []
            for kd, vd in desc[1]:
                if isinstance(kd, list) and len(kd) == 3 and kd[0] == 'A' and kd[2] == 'NaN':
                    kd = ['A', 'double', 'NaN']
                ents.append([kd, _nan_type_blind(vd)])
            return ['M', sorted(ents, key=dkey)]
        return [_nan_type_blind(x) for x in desc]
    return desc


def _has_nan_key(desc):
    if isinstance(desc, list):
        if len(desc) == 2 and desc[0] == 'M' and isinstance(desc[1], list):
            for kd, vd in desc[1]:
                if isinstance(kd, list) and len(kd) == 3 and kd[0] == 'A' and kd[2] == 'NaN':
                    return True
                if _has_nan_key(vd):
                    return True
            return False
        return any(_has_nan_key(x) for x in desc)
    return False


def nan_key_involved(step, pool, got_desc, exp_desc):
    """a NaN is used as a KEY: in the step's key arguments, in the maps it refers to, or in the result"""
    try:
        keys = [step.get('k')] + list(step.get('ks') or []) + [e[0] for e in (step.get('entries') or [])]
        if any(isinstance(k, str) and 'NaN' in k for k in keys):
            return True
        if _has_nan_key(got_desc) or _has_nan_key(exp_desc):
            return True
        for i in step_refs(step):
            if 0 <= i < len(pool) and pool[i] is not None and _has_nan_key(mdesc(pool[i])):
                return True
    except Exception:
        return False
    return False


def classify(step, what, pool, got_desc=None, exp_desc=None):
    if what == 'value' and got_desc is not None and any(ATOMS[k].kc == 'untypedAtomic' for k in ctor_keys(step)):
        if untyped_as_string(exp_desc) == untyped_as_string(got_desc):
            return 'C15/map-constructor/untypedAtomic-key-becomes-string'
        if untyped_as_string(_nan_type_blind(exp_desc)) == untyped_as_string(_nan_type_blind(got_desc)):
            return 'C15/map-constructor/untypedAtomic-key-becomes-string'      # plus the listed NaN key type
    rel = None
    if not (what == 'value' and got_desc is not None and same_canon_keys(got_desc, exp_desc)):
        rel = key_relation(step, pool, what)
    if rel is not None:
        return 'C15/same-key/' + rel
    if nan_key_involved(step, pool, got_desc, exp_desc):
        # maps keyed by NaN: XPathMap stores the NaN key apart and gives it back as xs:double whatever its type was
        # (listed).  Only a difference that vanishes when the TYPE of NaN keys is ignored is that deviation; any
        # other wrong answer on a map with a NaN key is keyed by operation.
        if what == 'value' and got_desc is not None and exp_desc is not None and \
                _nan_type_blind(got_desc) == _nan_type_blind(exp_desc):
            return 'C15/same-key/nan'
        return 'C15/same-key/nan-other/%s/%s' % (step['op'], what)
    return 'C15/%s/%s/%s' % (step['op'], argclass(step, pool), what)


# ------------------------------------------------------------------ execution of a history
def ev(expr, env):
    return call(evaluate, expr, '3.1', root=ROOT, variables=dict(env))


def rebuild_expr(seq):
    """model value -> constructor expression (used to re-synchronise the pool after a defect)"""
    parts = []
    for it in seq:
        t = it[0]
        if t == 'A':
            parts.append(it[1])
        elif t == 'I':
            parts.append(str(it[1]))
        elif t == 'N':
            parts.append(NODES[it[1]][0])
        elif t == 'R':
            parts.append('[' + ', '.join(rebuild_expr(m) for m in it[1]) + ']')
        elif t == 'M':
            ents = ['map:entry(%s, %s)' % (ks, rebuild_expr(val)) for ks, val in it[1].values()]
            parts.append('map{}' if not ents else ents[0] if len(ents) == 1 else 'map:merge((%s))' % ', '.join(ents))
    if len(parts) == 1:
        return parts[0]
    return '(' + ', '.join(parts) + ')'


def rebuild(seq, out):
    o = ev(rebuild_expr(seq), {})
    if o[0] == 'ok' and edesc(o[1]) == mdesc(seq):
        out.dim('resync', 'rebuilt')
        return o[1]
    out.dim('resync', 'impossible')
    return None


def short(x, n=400):
    s = x if isinstance(x, str) else json.dumps(x, default=repr)
    return s if len(s) <= n else s[:n] + '...'


def run_history(case, out):
    steps = case['steps']
    pool = []       # model values (None = no value)
    env = {}        # 'v<i>' -> live engine value
    descs = {}      # 'v<i>' -> description recorded when the value entered the pool
    executed = 0
    seen_fail = set()

    def fail(k, detail):
        if k not in seen_fail:
            seen_fail.add(k)
            out.fail(k, detail)

    for idx, step in enumerate(steps):
        if not isinstance(step, dict) or step.get('op') in (None, 'nop'):
            pool.append(None)
            continue
        op = step['op']
        refs = step_refs(step)
        try:
            expr, expected = interpret(step, pool)
            if any(('v%d' % i) not in env for i in refs):
                raise Dead('engine value missing')
        except Dead:
            out.dim('skipped_step', op)
            pool.append(None)
            continue
        executed += 1
        out.dim('op', op)
        if 'form' in step:
            out.dim('form', '%s/%s' % (op, step['form']))
        record_dims(step, pool, expected, out)
        got = ev(expr, env)
        out.dim('comparisons', 'result')
        name = 'v%d' % idx
        new_val = None
        why = None
        if got[0] == 'exc':
            why = 'exception:%s' % got[1]
            detail = 'raised %s at %s' % (got[1], got[2])
        elif expected[0] == 'err':
            if got[0] == 'ok':
                why, detail = 'error-missing', 'expected %s, got %s' % (sorted(expected[1]), short(edesc(got[1])))
            elif got[1] not in expected[1]:
                why, detail = 'error-code', 'expected %s, got %s' % (sorted(expected[1]), got[1])
        else:
            if got[0] == 'err':
                why, detail = 'error', 'expected %s, got error %s' % (short(mdesc(expected[1])), got[1])
            else:
                r = compare(got[1], expected[1], expected[2], expected[3])
                if r is not None:
                    why, detail = 'value', '%s: expected %s, got %s' % (r, short(mdesc(expected[1])), short(edesc(got[1])))
                else:
                    new_val = got[1]
        # ---- immutability: every value already in the pool still equals its model
        operand_changed = False
        for n2 in list(env):
            out.dim('comparisons', 'immutability')
            if edesc(env[n2]) != descs[n2]:
                i2 = int(n2[1:])
                role = 'operand' if i2 in refs else 'bystander'
                k = 'C15/immutability/%s' % op
                if op == 'map:merge':
                    k += '/' + str(step.get('pol') or 'default')
                fail(k, 'step %d: %s changed %s $%s: was %s, now %s'
                     % (idx, expr, role, n2, short(descs[n2], 300), short(edesc(env[n2]), 300)))
                operand_changed = operand_changed or role == 'operand'
                fresh = rebuild(pool[i2], out)
                if fresh is None:
                    del env[n2], descs[n2]
                else:
                    env[n2] = fresh
        if why is not None:
            if operand_changed and why == 'value':
                # the wrong value is a consequence of the in-place change reported just above
                out.dim('secondary', 'value-after-operand-mutation')
            else:
                gd = edesc(got[1]) if got[0] == 'ok' else None
                ed = mdesc(expected[1]) if expected[0] == 'ok' else None
                ctx = sorted({b for a, b in key_pairs(step, pool)[1]})
                fail(classify(step, why, pool, gd, ed), 'step %d: %s -> %s%s'
                     % (idx, expr, detail, ' [keys in operand(s): %s]' % ', '.join(ctx) if ctx else ''))
        # ---- bind the result
        if expected[0] == 'ok':
            pool.append(expected[1])
            want = mdesc(expected[1])
            if new_val is not None and edesc(new_val) == want:
                env[name], descs[name] = new_val, want
                out.dim('pool', 'bound')
            else:
                # wrong, differently ordered or ambiguous engine value: continue from the model's value
                fresh = rebuild(expected[1], out)
                if fresh is not None:
                    env[name], descs[name] = fresh, want
        else:
            pool.append(None)
    return executed


def record_dims(step, pool, expected, out):
    op = step['op']
    out.dim('expected', 'ok' if expected[0] == 'ok' else '/'.join(sorted(expected[1])))
    args, pairs = key_pairs(step, pool)
    for a in args[:4]:
        out.dim('key_type', ATOMS[a].label)
        out.dim('key_family', ATOMS[a].family)
    if op in ('map:get', 'map:put', 'map:contains', 'map:remove', 'map:find'):
        rel = 'absent'
        for a, b in pairs:
            if a == b:
                rel = 'present-identical'
                break
            if M.same_key(a, b):
                rel = 'present-same-key-other-literal'
            elif ATOMS[a].family == ATOMS[b].family and rel == 'absent':
                rel = 'absent-confusable'
        out.dim('key_relation', rel)
        for a, b in pairs:
            if a != b and ATOMS[a].family == ATOMS[b].family:
                out.dim('key_pair', ('same:' if M.same_key(a, b) else 'diff:') + M.pair_label(a, b))
    if op in ('map-ctor', 'map:merge'):
        for a, b in pairs:
            if ATOMS[a].family == ATOMS[b].family:
                out.dim('key_pair', ('same:' if M.same_key(a, b) else 'diff:') + M.pair_label(a, b))
    if op.startswith('array:') and ('i' in step or 'is' in step):
        out.dim('index_class', '%s/%s' % (op, argclass(step, pool)))
    if op == 'map:merge':
        out.dim('merge_policy', str(step.get('pol') or 'default'))
    for f in ('v', 'inp'):
        if f in step:
            out.dim('value_kind', spec_kind(step[f]))


# ------------------------------------------------------------------ generator
KEY_SRCS = list(M.ORDER)
PLAIN_VALUE_ATOMS = ['1', '2', '3', "'a'", "'b'", 'true()', '0.5', '1e0', "xs:float('1')", "xs:untypedAtomic('a')",
                     "xs:date('2020-01-01')", "xs:anyURI('a')", "xs:double('NaN')", "xs:hexBinary('00')",
                     "xs:dayTimeDuration('PT1H')", "fn:QName('u','p:a')", '-0e0']
POLICIES = ['use-first', 'use-last', 'combine', 'reject', 'use-any']

MAP_OPS = [('map:get', 14), ('map:put', 14), ('map:remove', 8), ('map:contains', 8), ('map:size', 3),
           ('map:keys', 4), ('map:merge', 10), ('map:for-each', 3), ('map:values', 3), ('map:find', 4)]
ARR_OPS = [('array:get', 10), ('array:put', 8), ('array:append', 6), ('array:subarray', 8), ('array:remove', 7),
           ('array:insert-before', 8), ('array:head', 3), ('array:tail', 3), ('array:reverse', 4),
           ('array:join', 5), ('array:flatten', 4), ('array:for-each', 4), ('array:filter', 3),
           ('array:fold-left', 2), ('array:fold-right', 2), ('array:for-each-pair', 3), ('array:members', 3),
           ('array:size', 3), ('bad-lookup', 1)]
CTOR_OPS = [('map-ctor', 6), ('arr-ctor', 6), ('map:entry', 3), ('val', 2)]


def wchoice(r, table):
    tot = sum(w for _, w in table)
    x = r.random() * tot
    for name, w in table:
        x -= w
        if x < 0:
            return name
    return table[-1][0]


def g_key(r, ctx, st):
    x = r.random()
    if st.get('last_key') and x < 0.25:
        return st['last_key']
    if ctx:
        if x < 0.55:
            return r.choice(ctx)
        if x < 0.85:
            fam = ATOMS[r.choice(ctx)].family
            return r.choice(M.FAMILIES[fam])
    if x > 0.93:
        fam = st.setdefault('family', r.choice(sorted(M.FAMILIES)))
        return r.choice(M.FAMILIES[fam])
    return r.choice(KEY_SRCS)


def g_val(r, pool, depth=0):
    x = r.random()
    live = [i for i, p in enumerate(pool) if p is not None and M.weight(p) <= 12]
    if x < 0.40:
        return ['a', r.choice(PLAIN_VALUE_ATOMS)]
    if x < 0.50:
        return ['e']
    if x < 0.62:
        return ['s', [['a', r.choice(PLAIN_VALUE_ATOMS)] for _ in range(r.randint(2, 3))]]
    if x < 0.80 and live:
        return ['v', r.choice(live)]
    if x < 0.86:
        return ['n', r.choice(sorted(NODES))]
    if depth < 2:
        if x < 0.93:
            return ['arr', [g_val(r, pool, depth + 1) for _ in range(r.randint(0, 3))]]
        return ['map1', r.choice(KEY_SRCS), g_val(r, pool, depth + 1)]
    return ['a', r.choice(PLAIN_VALUE_ATOMS)]


def g_index(r, size):
    x = r.random()
    if size > 0 and x < 0.5:
        return r.randint(1, size)
    return r.choice([0, -1, 1, size, size + 1, size + 2, -size, 18446744073709551616 if x > 0.97 else size + 1])


def pick(r, idxs):
    if r.random() < 0.55:
        return idxs[-1]
    return r.choice(idxs)


def g_step(r, pool, st):
    maps = [i for i, p in enumerate(pool) if p is not None and M.is_map(p)]
    arrs = [i for i, p in enumerate(pool) if p is not None and M.is_array(p)]
    table = list(CTOR_OPS)
    if maps:
        table += [(n, w * (2 if st['bias'] == 'map' else 1)) for n, w in MAP_OPS]
    if arrs:
        table += [(n, w * (2 if st['bias'] == 'array' else 1)) for n, w in ARR_OPS]
    if len(pool) < 2:
        table = [(n, w * 8) for n, w in CTOR_OPS] + table[len(CTOR_OPS):]
    op = wchoice(r, table)
    if op == 'val':
        return {'op': 'val', 'v': g_val(r, pool)}
    if op == 'map-ctor':
        n = r.choice([0, 1, 2, 2, 3, 3, 4])
        ents = []
        for _ in range(n):
            k = g_key(r, [e[0] for e in ents] if r.random() < 0.25 else [], st)
            ents.append([k, g_val(r, pool, 1)])
        if r.random() < 0.8:      # mostly distinct keys, so that the constructor succeeds
            seen, keep = set(), []
            for k, s in ents:
                if M.canon(k) not in seen:
                    seen.add(M.canon(k))
                    keep.append([k, s])
            ents = keep
        return {'op': op, 'entries': ents}
    if op == 'arr-ctor':
        return {'op': op, 'form': r.choice(['square', 'square', 'curly']),
                'members': [g_val(r, pool, 1) for _ in range(r.choice([0, 1, 2, 3, 3, 4]))]}
    if op == 'map:entry':
        k = g_key(r, [], st)
        st['last_key'] = k
        return {'op': op, 'k': k, 'v': g_val(r, pool, 1)}
    if op.startswith('map:'):
        if op == 'map:merge':
            n = r.choice([0, 1, 2, 2, 2, 3])
            ms = [pick(r, maps) for _ in range(n)]
            pol = r.choice([None, None] + POLICIES * 2 + ['bogus'])
            return {'op': op, 'ms': ms, 'pol': pol}
        m = pick(r, maps)
        ctx = [ks for ks, val in pool[m][0][1].values()]
        if op == 'map:find':
            inp = ['v', m] if r.random() < 0.5 else ['s', [['v', pick(r, maps)], g_val(r, pool, 1)]]
            try:
                ctx = nested_keys(mval(inp, pool), [])
            except Dead:
                ctx = []
            return {'op': op, 'inp': inp, 'k': g_key(r, ctx, st)}
        if op in ('map:size', 'map:keys', 'map:for-each', 'map:values'):
            return {'op': op, 'm': m}
        if op == 'map:remove':
            n = r.choice([0, 1, 1, 1, 2, 3])
            ks = [g_key(r, ctx, st) for _ in range(n)]
            if ks:
                st['last_key'] = ks[0]
            return {'op': op, 'm': m, 'ks': ks, 'single': r.random() < 0.7}
        k = g_key(r, ctx, st)
        st['last_key'] = k
        if op == 'map:contains':
            return {'op': op, 'm': m, 'k': k}
        if op == 'map:get':
            forms = ['fn', 'fn', 'call', 'lookup', 'unary']
            if k in M.NCNAME_KEYS or k in M.LIT_INT_KEYS:
                forms += ['lit', 'lit']
            return {'op': op, 'm': m, 'k': k, 'form': r.choice(forms)}
        if op == 'map:put':
            return {'op': op, 'm': m, 'k': k, 'v': g_val(r, pool, 1)}
    if op == 'array:join':
        return {'op': op, 'as': [pick(r, arrs) for _ in range(r.choice([0, 1, 2, 2, 3]))]}
    if op == 'array:flatten':
        x = r.random()
        if x < 0.4:
            inp = ['v', pick(r, arrs)]
        elif x < 0.7:
            inp = ['s', [['v', pick(r, arrs)], g_val(r, pool, 0)]]
        else:   # an array inside a member that is a sequence
            inp = ['arr', [['s', [['a', r.choice(PLAIN_VALUE_ATOMS)], ['v', pick(r, arrs)]]], g_val(r, pool, 1)]]
        return {'op': op, 'inp': inp}
    if op == 'array:for-each-pair':
        return {'op': op, 'a': pick(r, arrs), 'b': r.choice(arrs)}
    a = pick(r, arrs)
    size = len(pool[a][0][1])
    if op == 'bad-lookup':
        return {'op': op, 'a': a, 'form': r.choice(['array-name', 'get-string'])}
    if op == 'array:get':
        i = g_index(r, size)
        forms = ['fn', 'fn', 'call', 'lookup', 'unary'] + (['lit', 'lit'] if i >= 0 else [])
        return {'op': op, 'a': a, 'i': i, 'form': r.choice(forms)}
    if op in ('array:put', 'array:insert-before'):
        return {'op': op, 'a': a, 'i': g_index(r, size), 'v': g_val(r, pool, 1)}
    if op == 'array:append':
        return {'op': op, 'a': a, 'v': g_val(r, pool, 1)}
    if op == 'array:subarray':
        i = g_index(r, size)
        if r.random() < 0.35:
            return {'op': op, 'a': a, 'i': i, 'len': None}
        room = size + 1 - i
        ln = r.choice([0, 1, room, room + 1, -1, max(0, room - 1), r.randint(0, size + 1)])
        return {'op': op, 'a': a, 'i': i, 'len': ln}
    if op == 'array:remove':
        n = r.choice([0, 1, 1, 1, 2, 3])
        return {'op': op, 'a': a, 'is': [g_index(r, size) if r.random() < 0.3 else r.randint(1, max(1, size))
                                          for _ in range(n)], 'single': r.random() < 0.7}
    if op == 'array:for-each':
        return {'op': op, 'a': a, 'f': r.choice(sorted(M.FOR_EACH_FUNCS))}
    if op == 'array:filter':
        return {'op': op, 'a': a, 'f': r.choice(sorted(M.FILTER_FUNCS))}
    return {'op': op, 'a': a}


def g_history(r):
    steps, pool = [], []
    st = {'bias': r.choice(['map', 'array', 'both']), 'last_key': None}
    if r.random() < 0.5:
        st['family'] = r.choice(sorted(M.FAMILIES))
    n = r.randint(6, 14)
    tries = 0
    while len(steps) < n and tries < 200:
        tries += 1
        step = g_step(r, pool, st)
        try:
            expr, expected = interpret(step, pool)
        except Dead:
            continue
        if expected[0] == 'ok':
            if M.weight(expected[1]) > MAX_WEIGHT or M.depth(expected[1]) > MAX_DEPTH:
                continue
            pool.append(expected[1])
        else:
            pool.append(None)
        steps.append(step)
    return {'steps': steps}


# ------------------------------------------------------------------ harness interface
LOOKUP_MAPS = ["map{'a': 1, 'b': (2, 3)}", "map{'a': 'x'}", "map{1: 'one', 'a': ()}", "map{'b': [7, 8], 'a': map{'a': 0}}", 'map{}']
LOOKUP_ARRAYS = ['[1, 2, 3]', '[(4, 5), 6]', "['p', ['q']]", '[(), 9]']


def check_lookup_law(case, out):
    """postfix lookup over a SEQUENCE of maps/arrays is its definitional expansion (XPath 3.1, 3.11.3):
    E?(K) = for $e in E, $k in data(K) return $e($k);  E?* = for $e in E return $e?*;  E?name / E?N likewise"""
    E, K, form = case['E'], case['K'], case['form']
    e_src = '(%s)' % ', '.join(E)
    if form == 'paren':
        lhs = '%s?(%s)' % (e_src, ', '.join(K))
        rhs = 'for $e in %s, $k in data((%s)) return $e($k)' % (e_src, ', '.join(K))
    elif form == 'star':
        lhs = '%s?*' % e_src
        rhs = 'for $e in %s return $e?*' % e_src
    elif form == 'unary-paren':
        lhs = '%s ! ?(%s)' % (e_src, ', '.join(K))
        rhs = 'for $e in %s, $k in data((%s)) return $e($k)' % (e_src, ', '.join(K))
    else:
        k = K[0].strip("'")
        lhs = '%s?%s' % (e_src, k)
        rhs = 'for $e in %s return $e(%s)' % (e_src, K[0])
    a, b = ev(lhs, {}), ev(rhs, {})
    out.dim('lookup_law', form)
    out.dim('lookup_operand_items', min(len(E), 3))
    out.dim('comparisons', 'lookup-law')
    da = edesc(a[1]) if a[0] == 'ok' else list(a[:2])
    db = edesc(b[1]) if b[0] == 'ok' else list(b[:2])
    out.nontrivial = b[0] == 'ok' and len(E) > 1
    out.obs = '%s -> %s' % (lhs, short(da, 120))
    if da != db:
        out.fail('C15/lookup-law/%s/%s-operand' % (form, 'several-items' if len(E) > 1 else 'one-item'),
                 {'lookup': lhs, 'got': short(da), 'expansion': rhs, 'expansion-gives': short(db)})


def g_lookup_law(r):
    arrays = r.random() < 0.45
    pool = LOOKUP_ARRAYS if arrays else LOOKUP_MAPS
    E = [r.choice(pool) for _ in range(r.choice([1, 2, 2, 3, 3]))]
    keys = ['1', '2'] if arrays else ["'a'", "'b'", '1']
    form = r.choice(['paren', 'paren', 'star', 'unary-paren', 'name'])
    K = [r.choice(keys) for _ in range(1 if form == 'name' else r.choice([1, 1, 2, 3]))]
    if form == 'name' and K[0] == '1' and not arrays:
        K = ["'a'"]
    return {'E': E, 'K': K, 'form': form}


def check_case(kind, case):
    out = Outcome()
    if kind == 'lookup-law':
        check_lookup_law(case, out)
        return out
    if kind == 'history':
        executed = run_history(case, out)
        out.nontrivial = executed >= 3
        out.obs = '%d steps executed, %d failing mechanisms' % (executed, len(out.fails))
    elif kind == 'atoms':
        # every literal of the key pool evaluates to the value the table says (keeps the table honest)
        bad = 0
        for src in M.ORDER:
            o = ev(src, {})
            out.dim('comparisons', 'atom')
            if o[0] != 'ok' or edesc(o[1]) != mdesc((('A', src),)):
                bad += 1
                out.fail('C15/atom-literal/%s' % ATOMS[src].kc,
                         '%s -> %s, table says %s' % (src, short(edesc(o[1])) if o[0] == 'ok' else list(o),
                                                      mdesc((('A', src),))))
        out.obs = '%d literals, %d unexpected' % (len(M.ORDER), bad)
    else:
        out.nontrivial = False
    return out


def shrink(kind, case):
    if kind != 'history':
        return
    steps = case['steps']
    # drop a tail
    for n in range(len(steps) - 1, 0, -1):
        if steps[n:] and any(isinstance(s, dict) and s.get('op') != 'nop' for s in steps[n:]):
            yield {'steps': steps[:n]}
    # blank single steps (indices stay stable)
    for n in range(len(steps) - 1, -1, -1):
        if steps[n].get('op') != 'nop':
            yield {'steps': steps[:n] + [{'op': 'nop'}] + steps[n + 1:]}
    # simplify values
    for n, s in enumerate(steps):
        for f in ('v', 'inp'):
            if f in s and s[f] not in (['a', '1'], ['e']) and s[f][0] != 'v':
                yield {'steps': steps[:n] + [dict(s, **{f: ['a', '1']})] + steps[n + 1:]}
        if s.get('op') == 'map-ctor' and len(s['entries']) > 1:
            for j in range(len(s['entries'])):
                yield {'steps': steps[:n] + [dict(s, entries=s['entries'][:j] + s['entries'][j + 1:])] + steps[n + 1:]}
        if s.get('op') == 'arr-ctor' and len(s['members']) > 1:
            for j in range(len(s['members'])):
                yield {'steps': steps[:n] + [dict(s, members=s['members'][:j] + s['members'][j + 1:])] + steps[n + 1:]}


def directed_histories():
    """special keys (NaN, the two zeros, INF) met by every key-taking operation in its one-key and several-keys form"""
    specials = ["xs:double('NaN')", "xs:float('NaN')", '-0e0', "xs:double('INF')"]
    out = []
    for sp in specials:
        ctor = {'op': 'map-ctor', 'entries': [[sp, ['a', '1']], ["'a'", ['a', '2']], ['1', ['a', '3']]]}
        for ks in ([sp], ["'a'", sp], [sp, "'zz'"], [sp, sp], ["'a'", '1', sp]):
            for single in (True, False):
                out.append({'steps': [ctor, {'op': 'map:remove', 'm': 0, 'ks': ks, 'single': single},
                                      {'op': 'map:size', 'm': 1}, {'op': 'map:keys', 'm': 1}]})
        out.append({'steps': [ctor, {'op': 'map:contains', 'm': 0, 'k': sp}, {'op': 'map:get', 'm': 0, 'k': sp, 'form': 'fn'},
                              {'op': 'map:put', 'm': 0, 'k': sp, 'v': ['a', "'b'"]}, {'op': 'map:size', 'm': 3}]})
    return out


def run(h):
    h.case('atoms', {})
    if h.shard == 0:
        for hist in directed_histories():
            h.case('history', hist)
    r = h.rng
    for _ in range(h.n(2500)):
        h.case('history', g_history(r))
    for _ in range(h.n(300)):
        h.case('lookup-law', g_lookup_law(r))


ALL_OPS = [n for n, w in MAP_OPS + ARR_OPS + CTOR_OPS]


def floors(v):
    reasons = []
    if v.got('comparisons', 'result') < 5000:
        reasons.append('fewer than 5000 step results compared with the model')
    if v.got('comparisons', 'immutability') < 20000:
        reasons.append('fewer than 20000 pool values re-checked for immutability')
    for op in ALL_OPS:
        if v.got('op', op) < 10:
            reasons.append('operation %s executed fewer than 10 times' % op)
    for lab in ('integer', 'decimal', 'double', 'float', 'string', 'AnyURI', 'untypedAtomic', 'boolean', 'QName',
                'Date10', 'DateTime10', 'Time', 'Duration', 'HexBinary', 'Base64Binary'):
        if v.got('key_type', lab) < 10:
            reasons.append('key type %s used fewer than 10 times' % lab)
    for rel in ('present-identical', 'present-same-key-other-literal', 'absent-confusable', 'absent'):
        if v.got('key_relation', rel) < 50:
            reasons.append('key relation %s seen fewer than 50 times' % rel)
    if v.got('pool', 'bound') < 2000:
        reasons.append('fewer than 2000 engine results entered the pool')
    return reasons
