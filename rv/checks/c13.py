"""C13 - Unicode code-point sets: set algebra (shadow model over operation histories)
and category/block tables (exhaustive against unicodedata)."""
import re
import sys
import unicodedata
import warnings

from ..core import Outcome
from ..engine import call
from ..models import cpset
from ..models.cpset import FULL, MAXCP, mask_of, mask_range, intervals, popcount, has

from elementpath.regex import UnicodeSubset, CharacterClass, RegexError, unicode_category, \
    unicode_block, install_unicode_data, unicode_version
from elementpath.regex import unicode_subsets as _us

PROPERTY = 'C13'
LEVEL = 'exploration'
EXHAUSTIVE_SUBCHECK = True
RULE = ('random operation histories (6-14 ops) on UnicodeSubset / CharacterClass shadowed by a bitmask model, '
        'universe biased to [0,64] and the plane/surrogate/maxunicode boundaries; a history is non-trivial '
        'when at least one operation changed the model set; distinct by canonical JSON of the history. '
        'Category tables: all 0x110000 code points x all categories vs unicodedata (exhaustive).')
ASSUMPTIONS = [
    'bitmask model + CPython unicodedata (15.0.0) are the ground truth',
    '\\i and \\c are compared with the XML 1.0 5th-edition NameStartChar/NameChar ranges on the BMP only',
    'block ranges have no independent source offline: only pairwise disjointness / range validity is decided',
    'non-running Unicode versions: only partition/union/disjointness invariants (no external ground truth)',
]

SPECIAL = [0xD7FE, 0xD7FF, 0xD800, 0xDFFF, 0xE000, 0xE001, 0xFFFD, 0xFFFE, 0xFFFF, 0x10000, 0x10001,
           0x10FFFD, 0x10FFFE, 0x10FFFF]
ALNUM = [c for c in range(48, 58)] + [c for c in range(65, 91)] + [c for c in range(97, 123)]


# ------------------------------------------------------------------ generators
def g_cp(r):
    x = r.random()
    if x < 0.80:
        return r.randint(0, 64)
    if x < 0.97:
        return r.choice(SPECIAL)
    return r.randint(0, MAXCP)


def g_range(r):
    a = g_cp(r)
    x = r.random()
    if x < 0.6:
        b = a + r.randint(1, 6)
    elif x < 0.9:
        b = g_cp(r) + 1
        if b <= a:
            a, b = b - 1, a + 1
    else:
        b = MAXCP + 1
    b = min(b, MAXCP + 1)
    if a < 0:
        a = 0
    if b <= a:
        b = a + 1
    return [a, b]


def g_items(r, n=None):
    n = r.randint(0, 5) if n is None else n
    return [g_cp(r) if r.random() < 0.5 else g_range(r) for _ in range(n)]


def g_strparts(r):
    parts = []
    for _ in range(r.randint(1, 4)):
        if r.random() < 0.5:
            parts.append(['c', r.choice(ALNUM)])
        else:
            # ranges inside one alnum block
            lo, hi = r.choice([(48, 57), (65, 90), (97, 122)])
            a = r.randint(lo, hi)
            b = r.randint(a, hi)
            parts.append(['r', a, b])
    return parts


def g_operand(r, allow=('int', 'range', 'list', 'str', 'subset', 'gen')):
    t = r.choice(allow)
    if t == 'int':
        return {'t': 'int', 'v': g_cp(r)}
    if t == 'range':
        return {'t': 'range', 'v': g_range(r)}
    if t == 'str':
        return {'t': 'str', 'parts': g_strparts(r)}
    return {'t': t, 'v': g_items(r)}


SUBSET_OPS = ['add', 'add', 'add', 'discard', 'discard', 'discard', 'update', 'difference_update',
              'ior', 'isub', 'iand', 'ixor', 'or', 'sub', 'and', 'xor', 'difference', 'complement',
              'copy', 'clear', 'rsub', 'cmp', 'bad_add']


def g_subset_history(r):
    """ops are generated against the running model so that the library's per-code-point
    paths (&=, ^=) are only taken on small differences (they are O(n) per code point)"""
    x = r.random()
    if x < 0.2:
        init = None
    elif x < 0.3:
        raw = g_items(r, r.randint(1, 8))
        if r.random() < 0.7:   # canonical list: sorted maximal runs, singletons as ints
            raw = [a if b - a == 1 else [a, b] for a, b in intervals(items_mask(raw))]
            init = {'t': 'canon_list', 'v': raw}
        else:
            init = {'t': 'raw_list', 'v': raw}
    else:
        init = g_operand(r, ('str', 'subset', 'gen', 'gen'))
        if init['t'] == 'gen':
            init = {'t': 'gen', 'v': g_items(r, r.randint(3, 10))}
    model = 0 if init is None else operand_mask(init)
    ops = []
    for _ in range(r.randint(6, 14)):
        name = r.choice(SUBSET_OPS)
        if name in ('add', 'discard'):
            arg = g_operand(r, ('int', 'range', 'range'))
            am = operand_mask(arg)
            model = (model | am) if name == 'add' else (model & ~am)
        elif name in ('update', 'difference_update'):
            arg = [g_operand(r, ('str', 'gen', 'list', 'subset')) for _ in range(r.randint(1, 2))]
            for a in arg:
                if a['t'] == 'subset' and popcount(operand_mask(a)) > 3000:
                    a['t'] = 'gen'   # a subset operand is iterated code point by code point
                model = (model | operand_mask(a)) if name == 'update' else (model & ~operand_mask(a))
        elif name in ('ior', 'isub', 'iand', 'ixor', 'or', 'sub', 'and', 'xor', 'difference'):
            arg = g_operand(r, ('subset',) if name == 'difference' else ('subset', 'subset', 'str', 'list', 'gen'))
            am = operand_mask(arg)
            if name == 'difference' and popcount(am) > 3000:
                continue   # difference() iterates its operand code point by code point
            if name in ('iand', 'and'):
                if popcount(model & ~am) > 3000:
                    continue
                model &= am
            elif name in ('ixor', 'xor'):
                if popcount(am) > 3000:
                    continue
                model ^= am
            elif name in ('ior', 'or'):
                model |= am
            else:
                model &= ~am
        elif name == 'rsub':
            arg = {'t': 'frozenset', 'v': [g_cp(r) for _ in range(r.randint(0, 6))]}
        elif name == 'cmp':
            arg = {'t': 'subset', 'v': g_items(r)}
        elif name == 'bad_add':
            arg = r.choice([{'t': 'int', 'v': -1}, {'t': 'int', 'v': MAXCP + 1},
                            {'t': 'range', 'v': [7, 3]}, {'t': 'range', 'v': [5, 5]},
                            {'t': 'range', 'v': [0, MAXCP + 2]}])
        else:
            arg = None
            if name == 'complement':
                model = FULL & ~model
            elif name == 'clear':
                model = 0
        ops.append([name, arg])
    return {'init': init, 'ops': ops}


# ------------------------------------------------------------------ model side
def parts_mask(parts):
    m = 0
    for p in parts:
        if p[0] == 'c':
            m |= 1 << p[1]
        else:
            m |= mask_range(p[1], p[2] + 1)
    return m


def parts_str(parts):
    return ''.join(chr(p[1]) if p[0] == 'c' else '%s-%s' % (chr(p[1]), chr(p[2])) for p in parts)


def items_mask(items):
    return mask_of([x if isinstance(x, int) else tuple(x) for x in items])


def tupled(items):
    return [x if isinstance(x, int) else tuple(x) for x in items]


def operand_mask(o):
    t = o['t']
    if t == 'int':
        return 1 << o['v']
    if t == 'range':
        return mask_range(o['v'][0], o['v'][1])
    if t == 'str':
        return parts_mask(o['parts'])
    return items_mask(o['v'])


def build_subset(items):
    s = UnicodeSubset()
    s.update(iter(tupled(items)))
    return s


def operand_obj(o):
    t = o['t']
    if t == 'int':
        return o['v']
    if t == 'range':
        return tuple(o['v'])
    if t == 'str':
        return parts_str(o['parts'])
    if t == 'list':
        return tupled(o['v'])
    if t == 'gen':
        return iter(tupled(o['v']))
    if t == 'subset':
        return build_subset(o['v'])
    if t == 'frozenset':
        return frozenset(o['v'])
    raise ValueError(t)


def geometry(model, a, b):
    """overlap geometry of [a,b) against the stored runs of `model`"""
    iv = intervals(model)
    if not iv:
        return 'empty-set'
    touch = [k for k, (x, y) in enumerate(iv) if not (b < x or a > y)]
    over = [k for k, (x, y) in enumerate(iv) if a < y and x < b]
    if not touch:
        if b < iv[0][0]:
            return 'before-all'
        if a > iv[-1][1]:
            return 'after-all'
        return 'in-gap'
    tag = 'touch%d-over%d' % (min(len(touch), 4), min(len(over), 4))
    if len(over) == 1:
        x, y = iv[over[0]]
        if x <= a and b <= y:
            tag += '-inside' if (x, y) != (a, b) else '-equal'
    if touch[-1] == len(iv) - 1:
        tag += '-atend'
    return tag


def rep_problems(cps):
    """set of names of broken representation invariants (empty = canonical)"""
    probs = set()
    last_end = None
    for cp in cps:
        if isinstance(cp, int) and not isinstance(cp, bool):
            a, b = cp, cp + 1
        elif isinstance(cp, (tuple, list)) and len(cp) == 2 and all(isinstance(x, int) for x in cp):
            a, b = cp
            if a >= b:
                probs.add('empty-or-reversed-range')
                continue
            if b == a + 1:
                probs.add('singleton-range')
        else:
            probs.add('bad-item-type')
            continue
        if a < 0 or b > MAXCP + 1:
            probs.add('out-of-range')
        if last_end is not None:
            if a < last_end:
                probs.add('unsorted-or-overlapping')
            elif a == last_end:
                probs.add('adjacent-not-merged')
        last_end = b if last_end is None else max(last_end, b)
    return probs


def rep_invariant(cps):
    p = rep_problems(cps)
    return ','.join(sorted(p)) if p else None


SOFT = {'adjacent-not-merged', 'singleton-range'}
# operations implemented by repeated UnicodeSubset.add() share its merge mechanism
ADD_PATH = {'add', 'update', 'ior', 'or', 'ixor', 'xor', 'init'}


def op_path(opname):
    op = opname.split(':')[0]
    return 'add-path' if op in ADD_PATH else op


def subset_mask(s):
    return mask_of(s.codepoints)


class Mismatch(Exception):
    def __init__(self, key, detail):
        self.key = key
        self.detail = detail


def check_subset_state(s, model, opname, out, deep=True, prev_probs=frozenset()):
    """compare the live subset with the model; returns the set of (soft) representation problems"""
    cps = list(s.codepoints)
    probs = rep_problems(cps)
    hard = probs - SOFT
    if not (hard & {'bad-item-type', 'empty-or-reversed-range', 'out-of-range'}):
        got = mask_of([tuple(x) if not isinstance(x, int) else x for x in cps])
        if got != model:
            diff = got ^ model
            raise Mismatch('C13/subset/members/%s' % opname,
                           'members differ after %s: symmetric difference runs %s' % (opname, intervals(diff)[:4]))
    if hard:
        raise Mismatch('C13/subset/representation/%s/%s' % (','.join(sorted(hard)), opname), 'codepoints=%r' % (cps[:12],))
    for p in sorted(probs - prev_probs):
        # a representation problem introduced by this operation (members are right)
        out.fail('C13/subset/representation/%s/%s' % (p, op_path(opname)), 'codepoints=%r' % (cps[:12],))
    # membership at run endpoints +-1
    for a, b in intervals(model)[:12]:
        for cp in (a - 1, a, b - 1, b):
            if 0 <= cp <= MAXCP and ((cp in s) != has(model, cp)):
                raise Mismatch('C13/subset/contains/%s' % opname, '%d in subset -> %r' % (cp, cp in s))
    out.dim('subset_state_checks', opname)
    n = popcount(model)
    if deep and n <= 2000:
        mem = cpset.members(model)
        if list(s) != mem:
            raise Mismatch('C13/subset/iter/%s' % opname, 'iteration differs from sorted members')
        if len(s) != n:
            raise Mismatch('C13/subset/len/%s' % opname, 'len=%d expected %d' % (len(s), n))
        if list(reversed(s)) != mem[::-1]:
            raise Mismatch('C13/subset/reversed/%s' % opname, 'reversed() differs')
    # extensional equality against a subset built freshly from the model's maximal runs
    fresh = UnicodeSubset()
    for a, b in intervals(model):
        fresh.add(a if b - a == 1 else (a, b))
    if rep_problems(list(fresh.codepoints)):
        raise Mismatch('C13/subset/representation/fresh-build', 'adding disjoint increasing runs gave %r' % (list(fresh.codepoints)[:8],))
    eq = (s == fresh) and (fresh == s)
    if not probs and not eq:
        raise Mismatch('C13/subset/equality/%s' % opname,
                       'same members, canonical representation, == is False: %r vs %r' % (cps[:8], list(fresh.codepoints)[:8]))
    if probs and not eq:
        for p in sorted(probs - prev_probs):
            out.fail('C13/subset/equality-not-extensional/%s' % p,
                     'same members but == is False: %r vs %r' % (cps[:8], list(fresh.codepoints)[:8]))
    return frozenset(probs)


def run_subset_history(case, out):
    init = case['init']
    if init is None:
        s = UnicodeSubset()
        model = 0
    elif init['t'] in ('canon_list', 'raw_list'):
        # a list argument is documented as "a sequence of integer values and ranges"
        s = UnicodeSubset(tupled(init['v']))
        model = items_mask(init['v'])
    else:
        s = UnicodeSubset(operand_obj(init))
        model = operand_mask(init)
    out.dim('init', 'none' if init is None else init['t'])
    try:
        probs = check_subset_state(s, model, 'init:' + ('none' if init is None else init['t']), out)
    except Mismatch as m:
        if init is not None and init['t'] == 'raw_list' and '/representation/' in m.key:
            # unsorted / overlapping input list kept as given: one mechanism, nothing more to learn
            out.fail('C13/subset/list-constructor-not-normalised', m.detail)
            return 0
        raise
    changed = 0
    for name, arg in case['ops']:
        before = model
        if name in ('add', 'discard'):
            am = operand_mask(arg)
            iv = intervals(am)[0]
            out.dim('geometry:' + name, geometry(model, iv[0], iv[1]))
            getattr(s, name)(operand_obj(arg))
            model = (model | am) if name == 'add' else (model & ~am)
        elif name == 'bad_add':
            r = call(s.add, operand_obj(arg))
            r2 = call(s.discard, operand_obj(arg))
            if r[0] != 'exc' or r[1] != 'ValueError' or r2[0] != 'exc' or r2[1] != 'ValueError':
                raise Mismatch('C13/subset/invalid-codepoint-accepted', '%r -> %r / %r' % (arg, r[:2], r2[:2]))
        elif name in ('update', 'difference_update'):
            am = 0
            for a in arg:
                am |= operand_mask(a)
            getattr(s, name)(*[operand_obj(a) for a in arg])
            model = (model | am) if name == 'update' else (model & ~am)
        elif name in ('ior', 'isub', 'iand', 'ixor'):
            am = operand_mask(arg)
            obj = operand_obj(arg)
            keep = list(obj.codepoints) if isinstance(obj, UnicodeSubset) else None
            if name == 'ior':
                s |= obj
                model |= am
            elif name == 'isub':
                s -= obj
                model &= ~am
            elif name == 'iand':
                s &= obj
                model &= am
            else:
                s ^= obj
                model ^= am
                if arg['t'] == 'list' and (rep_problems(tupled(arg['v'])) or mask_of(list(s.codepoints)) != model):
                    if mask_of(list(s.codepoints)) != model:
                        # '^' builds UnicodeSubset(list) from the operand: same mechanism as the list constructor
                        out.fail('C13/subset/list-constructor-not-normalised', '^= with list operand %r' % (arg['v'][:6],))
                        return changed
            if keep is not None and list(obj.codepoints) != keep:
                raise Mismatch('C13/subset/operand-mutated/' + name, 'right operand changed')
        elif name in ('or', 'sub', 'and', 'xor', 'difference'):
            am = operand_mask(arg)
            obj = operand_obj(arg)
            keep = list(obj.codepoints) if isinstance(obj, UnicodeSubset) else None
            mine = list(s.codepoints)
            if name == 'or':
                res, rm = s | obj, model | am
            elif name == 'sub':
                res, rm = s - obj, model & ~am
            elif name == 'difference':
                res, rm = s.difference(obj), model & ~am
            elif name == 'and':
                res, rm = s & obj, model & am
            else:
                res, rm = s ^ obj, model ^ am
                if arg['t'] == 'list' and mask_of(list(res.codepoints)) != rm and isinstance(res, UnicodeSubset):
                    out.fail('C13/subset/list-constructor-not-normalised', '^ with list operand %r' % (arg['v'][:6],))
                    return changed
            if list(s.codepoints) != mine or res is s:
                raise Mismatch('C13/subset/operand-mutated/' + name, 'left operand changed by a non in-place operator')
            if keep is not None and list(obj.codepoints) != keep:
                raise Mismatch('C13/subset/operand-mutated/' + name, 'right operand changed')
            if not isinstance(res, UnicodeSubset):
                raise Mismatch('C13/subset/result-type/' + name, type(res).__name__)
            probs = check_subset_state(res, rm, name + ':result', out, prev_probs=probs)
            s, model = res, rm
        elif name == 'rsub':
            fs = frozenset(arg['v'])
            r = call(lambda: fs - s)
            if r[0] == 'ok':
                want = sorted(x for x in fs if not has(model, x))
                if sorted(r[1]) != want:
                    raise Mismatch('C13/subset/rsub', 'frozenset - subset = %r expected %r' % (sorted(r[1])[:8], want[:8]))
            elif not (r[0] == 'exc' and r[1] == 'TypeError'):
                raise Mismatch('C13/subset/rsub', 'unexpected %r' % (r,))
        elif name == 'cmp':
            other = build_subset(arg['v'])
            om = items_mask(arg['v'])
            if (s == other) != (model == om):
                reps = rep_problems(list(s.codepoints)) | rep_problems(list(other.codepoints))
                if reps and model == om:
                    # same members but one side is not in canonical form (listed representation findings):
                    # equality compares the representations
                    raise Mismatch('C13/subset/equality-not-extensional/%s' % sorted(reps)[0],
                                   '== is False for equal sets; representation problems %s' % sorted(reps))
                raise Mismatch('C13/subset/equality/cmp', '== gives %r for masks equal=%r' % (s == other, model == om))
            if popcount(model) < 500 and popcount(om) < 500:
                if s.isdisjoint(other) != (model & om == 0):
                    raise Mismatch('C13/subset/isdisjoint', 'isdisjoint wrong')
                if (s <= other) != (model & ~om == 0):
                    raise Mismatch('C13/subset/le', '<= wrong')
        elif name == 'complement':
            s = UnicodeSubset(s.complement())
            model = FULL & ~model
        elif name == 'copy':
            c = s.copy()
            if c is s or c.codepoints is s.codepoints:
                raise Mismatch('C13/subset/copy-aliases', 'copy shares state')
            c.add(33)
            c.discard(2)
            check_subset_state(s, model, 'copy:original', out, deep=False, prev_probs=probs)
            s = s.copy()
        elif name == 'clear':
            s.clear()
            model = 0
        else:
            raise ValueError(name)
        out.dim('subset_op', name)
        if model != before:
            changed += 1
        probs = check_subset_state(s, model, name, out, prev_probs=probs)
    return changed


# ------------------------------------------------------------------ CharacterClass
CC_ESC = ['\\s', '\\S', '\\d', '\\D', '\\w', '\\W', '\\i', '\\I', '\\c', '\\C']
CC_CATS = ['Lu', 'Ll', 'L', 'Nd', 'N', 'P', 'Zs', 'Sm', 'Cc', 'Pd']
CC_BLOCKS = ['IsBasicLatin', 'IsLatin-1Supplement', 'IsGreek', 'IsArabic']

_U = None


def universe():
    global _U
    if _U is None:
        u = set(range(0, 0x180))
        u.update(range(0x370, 0x382))
        u.update(range(0x660, 0x66B))
        u.update(range(0x2000, 0x2072))
        u.update([0x300, 0x36F, 0x3000, 0x3001, 0x4E00, 0xB7, 0x203F, 0x2040, 0x2C00, 0x2FEF, 0x2FF0,
                  0xF900, 0xFDCF, 0xFDD0, 0xFDF0, 0x1D7CE, 0x1F600, 0x10FFFD])
        u.update(SPECIAL)
        _U = sorted(u)
    return _U


def cc_part_mask(part, xsd11=False):
    """mask of one charset part; returns (mask, astral_exact)"""
    cats = cpset.category_masks()
    k = part[0]
    if k == 'c':
        return 1 << part[1]
    if k == 'r':
        return mask_range(part[1], part[2] + 1)
    if k == 'esc':
        letter = part[1][1]
        m = cpset.escape_mask(letter.lower())
        return m if letter.islower() else FULL & ~m
    if k == 'cat':
        neg, name = part[1], part[2]
        m = cats.get(name, 0)
        return (FULL & ~m) if neg else m
    if k == 'blk':
        neg, name = part[1], part[2]
        m = mask_of(unicode_block(name[2:]).codepoints)
        return (FULL & ~m) if neg else m
    raise ValueError(part)


def cc_part_str(part):
    k = part[0]
    if k == 'c':
        return chr(part[1])
    if k == 'r':
        return '%s-%s' % (chr(part[1]), chr(part[2]))
    if k == 'esc':
        return part[1]
    return '\\%s{%s}' % ('P' if part[1] else 'p', part[2])


def g_cc_parts(r):
    parts = []
    for _ in range(r.randint(1, 3)):
        x = r.random()
        if x < 0.3:
            parts.append(['c', r.choice(ALNUM)])
        elif x < 0.45:
            lo, hi = r.choice([(48, 57), (65, 90), (97, 122)])
            a = r.randint(lo, hi)
            parts.append(['r', a, r.randint(a, hi)])
        elif x < 0.8:
            parts.append(['esc', r.choice(CC_ESC)])
        elif x < 0.95:
            parts.append(['cat', r.random() < 0.4, r.choice(CC_CATS)])
        else:
            parts.append(['blk', r.random() < 0.4, r.choice(CC_BLOCKS)])
    return parts


def g_cc_history(r):
    ops = []
    for _ in range(r.randint(2, 6)):
        name = r.choice(['add', 'add', 'add', 'discard', 'discard', 'complement', 'isub', 'sub', 'clear',
                         'add', 'discard', 'complement', 'isub', 'sub'] + (['copy'] if r.random() < 0.3 else []))
        if name in ('add', 'discard'):
            ops.append([name, g_cc_parts(r)])
        elif name in ('isub', 'sub'):
            ops.append([name, {'init': g_cc_parts(r) if r.random() < 0.8 else None,
                               'complement': r.random() < 0.4,
                               'then_add': g_cc_parts(r) if r.random() < 0.4 else None}])
        else:
            ops.append([name, None])
    return {'init': g_cc_parts(r) if r.random() < 0.7 else None, 'ops': ops}


# Name escapes are only decided on the BMP (see ASSUMPTIONS)
ASTRAL = FULL & ~((1 << 0x10000) - 1)


def uses_name_escape(parts):
    return any(p[0] == 'esc' and p[1][1] in 'iIcC' for p in (parts or []))


def cc_struct_mask(cc):
    """the class as a mask, read from its public positive/negative subsets (None if unavailable)"""
    pos = getattr(cc, 'positive', None)
    neg = getattr(cc, 'negative', None)
    if not isinstance(pos, UnicodeSubset) or not isinstance(neg, UnicodeSubset):
        return None
    pm = mask_of(pos.codepoints)
    if neg.codepoints:
        return pm | (FULL & ~mask_of(neg.codepoints))
    return pm


def cc_snapshot(cc):
    m = cc_struct_mask(cc)
    if m is None:
        return [cp in cc for cp in universe()[::13]]
    return m


def check_cc_state(cc, model, opname, out, astral_ok):
    uni = universe()
    scope = FULL if astral_ok else (FULL & ~ASTRAL)
    sm = cc_struct_mask(cc)
    if sm is not None:
        # whole code space at once through the public positive/negative subsets
        if (sm ^ model) & scope:
            raise Mismatch('C13/cclass/members/%s' % opname,
                           'members differ after %s at runs %s' % (opname, intervals((sm ^ model) & scope)[:4]))
        # `in` costs O(size of the negative subset) (truth value of a subset is its len()): sample it
        sample = uni[::13] if cheap_len(cc, 0) else uni[5::211]
    else:
        sample = uni
    bad = []
    for cp in sample:
        if not astral_ok and cp > 0xFFFF:
            continue
        if (cp in cc) != has(model, cp):
            bad.append(cp)
    if bad:
        raise Mismatch('C13/cclass/contains/%s' % opname,
                       'membership differs after %s at code points %s' % (opname, bad[:6]))
    out.dim('cclass_state_checks', opname)
    # str(cc) must denote the same set as a Python character class
    text = str(cc)
    r = call(re.compile, text)
    if r[0] != 'ok':
        if text not in ('[]', '[^]'):
            raise Mismatch('C13/cclass/str-uncompilable/%s' % opname, '%r' % text[:60])
    else:
        pat = r[1]
        bad = [cp for cp in uni if (astral_ok or cp <= 0xFFFF) and not (0xD800 <= cp <= 0xDFFF)
               and (pat.fullmatch(chr(cp)) is not None) != has(model, cp)]
        if bad:
            raise Mismatch('C13/cclass/str/%s' % opname, 'str() = %r differs at %s' % (text[:40], bad[:6]))
    if astral_ok and cheap_len(cc, model):
        n = popcount(model)
        out.dim('cclass_len_checks', 'negative' if cc.negative else 'positive-only')
        if len(cc) != n:
            raise Mismatch('C13/cclass/len/%s' % opname, 'len=%d expected %d' % (len(cc), n))


def cheap_len(cc, model):
    """len() walks the negative subset code point by code point: only ask when that is small"""
    neg = getattr(cc, 'negative', None)
    if neg:
        return sum((1 if isinstance(c, int) else c[1] - c[0]) for c in neg.codepoints) <= 400
    return popcount(model) <= 3000


def build_cc(spec):
    cc = CharacterClass()
    m = 0
    if spec.get('init'):
        cc.add(''.join(cc_part_str(p) for p in spec['init']))
        for p in spec['init']:
            m |= cc_part_mask(p)
    if spec.get('complement'):
        cc.complement()
        m = FULL & ~m
    if spec.get('then_add'):
        cc.add(''.join(cc_part_str(p) for p in spec['then_add']))
        for p in spec['then_add']:
            m |= cc_part_mask(p)
    return cc, m


def run_cc_history(case, out):
    cc = CharacterClass()
    model = 0
    astral_ok = True
    if case['init']:
        cc.add(''.join(cc_part_str(p) for p in case['init']))
        for p in case['init']:
            model |= cc_part_mask(p)
        astral_ok = astral_ok and not uses_name_escape(case['init'])
    check_cc_state(cc, model, 'init', out, astral_ok)
    changed = 0
    for name, arg in case['ops']:
        before = model
        if name in ('add', 'discard'):
            text = ''.join(cc_part_str(p) for p in arg)
            am = 0
            for p in arg:
                am |= cc_part_mask(p)
            astral_ok = astral_ok and not uses_name_escape(arg)
            getattr(cc, name)(text)
            model = (model | am) if name == 'add' else (model & ~am)
            out.dim('cclass_shape', '%s:%s:neg=%d' % (name, '+'.join(sorted(set(
                p[0] + ('^' if (p[0] == 'esc' and p[1][1].isupper()) or (p[0] in ('cat', 'blk') and p[1]) else '')
                for p in arg))), 1 if getattr(cc, 'negative', None) else 0))
        elif name == 'complement':
            cc.complement()
            model = FULL & ~model
        elif name in ('isub', 'sub'):
            other, om = build_cc(arg)
            if other.negative and not cc.negative and popcount(model) > 3000:
                out.dim('cclass_op', 'skipped-slow-intersection')
                continue   # positive &= other.negative walks code point by code point
            astral_ok = astral_ok and not uses_name_escape(arg.get('init')) \
                and not uses_name_escape(arg.get('then_add'))
            uni = universe()
            other_before = cc_snapshot(other)
            if name == 'isub':
                cc -= other
            else:
                mine_before = cc_snapshot(cc)
                res = cc - other
                if cc_snapshot(cc) != mine_before:
                    raise Mismatch('C13/cclass/operand-mutated/sub', 'left operand of - changed')
                cc = res
            if cc_snapshot(other) != other_before:
                raise Mismatch('C13/cclass/operand-mutated/' + name, 'right operand changed')
            model &= ~om
        elif name == 'copy':
            import copy as _copy
            c2 = _copy.copy(cc)
            c2.add('\\d')
            c2.discard('a')
            check_cc_state(cc, model, 'copy:original', out, astral_ok)
        elif name == 'clear':
            cc.clear()
            model = 0
            astral_ok = True
        out.dim('cclass_op', name)
        if model != before:
            changed += 1
        check_cc_state(cc, model, name, out, astral_ok)
    return changed


# ------------------------------------------------------------------ tables
TWO = ['Cc', 'Cf', 'Cn', 'Co', 'Cs', 'Ll', 'Lm', 'Lo', 'Lt', 'Lu', 'Mc', 'Me', 'Mn', 'Nd', 'Nl', 'No',
       'Pc', 'Pd', 'Pe', 'Pf', 'Pi', 'Po', 'Ps', 'Sc', 'Sk', 'Sm', 'So', 'Zl', 'Zp', 'Zs']
MAJ = 'CLMNPSZ'


def installed_tables():
    cats = {}
    for name in TWO + list(MAJ):
        try:
            cats[name] = unicode_category(name)
        except KeyError:
            cats[name] = None
    return cats


def check_tables_current(out):
    """installed default data vs unicodedata, all code points x all categories"""
    if unicode_version() != unicodedata.unidata_version:
        out.fail('C13/table/default-version', 'installed %s, interpreter %s' % (unicode_version(), unicodedata.unidata_version))
        return
    ref = cpset.category_masks()
    cats = installed_tables()
    checked = 0
    for name, sub in cats.items():
        if sub is None:
            out.fail('C13/table/category-missing/' + name, 'not installed')
            continue
        inv = rep_invariant(list(sub.codepoints))
        if inv:
            out.fail('C13/table/representation/%s' % name, inv)
            continue
        got = mask_of(sub.codepoints)
        want = ref.get(name, 0)
        checked += MAXCP + 1
        if got != want:
            d = intervals(got ^ want)
            out.fail('C13/table/category/' + name, 'differs from unicodedata at %d runs, first %s' % (len(d), d[:3]))
    out.dim('table_cells_checked', 'current-version', checked)
    check_partition(cats, 'current', out)
    check_blocks(out, 'current')


def check_partition(cats, label, out):
    acc = 0
    for name in TWO:
        if cats.get(name) is None:
            continue
        m = mask_of(cats[name].codepoints)
        if acc & m:
            out.fail('C13/table/overlap/%s' % name, 'version %s: category %s overlaps another' % (label, name))
        acc |= m
    if acc != FULL:
        out.fail('C13/table/not-covering', 'version %s: two-letter categories leave %s uncovered' % (
            label, intervals(FULL & ~acc)[:3]))
    for maj in MAJ:
        if cats.get(maj) is None:
            continue
        u = 0
        for name in TWO:
            if name[0] == maj and cats.get(name) is not None:
                u |= mask_of(cats[name].codepoints)
        if u != mask_of(cats[maj].codepoints):
            out.fail('C13/table/major-union/%s' % maj, 'version %s: %s is not the union of its subcategories' % (label, maj))
    out.dim('partition_checks', label)


def current_block_names(version):
    """names (as spelled in the version tables) of the blocks defined for `version` and not superseded by it"""
    from elementpath.regex import unicode_blocks as ub
    vi = tuple(int(x) for x in version.split('.'))
    names = list(ub.UNICODE_BLOCKS_VER_2_0_0)
    removed = set()
    for k, v in ub.__dict__.items():
        if k.startswith('UPDATE_BLOCKS_VER_') and tuple(int(x) for x in k[18:].split('_')) <= vi:
            names.extend(n for n in v if n not in names)
        elif k.startswith('REMOVED_BLOCKS_VER_') and tuple(int(x) for x in k[19:].split('_')) <= vi:
            removed.update(v)
    return [n for n in names if n not in removed]


def check_blocks(out, label):
    """the blocks of the installed version (those it does not supersede) are non-empty, canonical and pairwise
    disjoint; the XSD-spelled lookup and the normalized lookup return the same set"""
    acc = 0
    n = 0
    owner = {}
    for name in current_block_names(unicode_version()):
        xsd_name = name.replace(' ', '').replace('_', '')
        r = call(unicode_block, xsd_name)
        if r[0] != 'ok':
            out.fail('C13/table/block-lookup-failed', 'version %s: unicode_block(%r) -> %r' % (label, xsd_name, r))
            continue
        sub = r[1]
        inv = rep_invariant(list(sub.codepoints))
        if inv:
            out.fail('C13/table/block-representation', '%s: %s' % (name, inv))
            continue
        m = mask_of(sub.codepoints)
        r2 = call(unicode_block, name, True)
        if r2[0] != 'ok' or mask_of(r2[1].codepoints) != m:
            out.fail('C13/table/block-normalized-lookup',
                     'version %s: unicode_block(%r, normalize=True) -> %s, unicode_block(%r) is a block' % (
                         label, name, r2[0] if r2[0] != 'ok' else 'another set', xsd_name))
        if m == 0:
            out.fail('C13/table/block-empty', name)
        if acc & m:
            other = [o for o, om in owner.items() if om & m][:2]
            out.fail('C13/table/block-overlap', 'version %s: block %r overlaps %s at %s' % (
                label, name, other, intervals(acc & m)[:2]))
        acc |= m
        owner[name] = m
        n += 1
    out.dim('blocks_checked', label, n)
    nb = call(unicode_block, 'NoBlock')
    if nb[0] == 'ok':
        m = mask_of(nb[1].codepoints)
        out.dim('noblock_checked', label)
        # NoBlock is defined over all (XSD-named) blocks incl. superseded ones
        if m & ~FULL:
            out.fail('C13/table/noblock', 'outside code space')
        if m & acc:
            out.fail('C13/table/noblock-overlaps-a-block', 'version %s: %s' % (label, intervals(m & acc)[:2]))


def check_versions(out, versions):
    base = {k: list(v.codepoints) for k, v in installed_tables().items() if v is not None}
    base_version = unicode_version()
    try:
        for ver in versions:
            with warnings.catch_warnings():
                warnings.simplefilter('ignore')
                r = call(install_unicode_data, ver)
            if r[0] != 'ok':
                out.fail('C13/table/install/%s' % ver, repr(r))
                continue
            if unicode_version() != ver:
                out.fail('C13/table/install-version', 'asked %s got %s' % (ver, unicode_version()))
            check_partition(installed_tables(), ver, out)
            check_blocks(out, ver)
            out.dim('versions_installed', ver)
    finally:
        install_unicode_data()
    if unicode_version() != base_version:
        out.fail('C13/table/restore-version', unicode_version())
    after = {k: list(v.codepoints) for k, v in installed_tables().items() if v is not None}
    if after != base:
        out.fail('C13/table/restore', 'tables differ after re-installing the default')


# ------------------------------------------------------------------ harness interface
def check_case(kind, case):
    out = Outcome()
    try:
        if kind == 'subset_history':
            changed = run_subset_history(case, out)
            out.nontrivial = changed > 0
            out.obs = '%d ops, %d changed the set' % (len(case['ops']), changed)
        elif kind == 'cclass_history':
            changed = run_cc_history(case, out)
            out.nontrivial = changed > 0
            out.obs = '%d ops, %d changed the set' % (len(case['ops']), changed)
        elif kind == 'tables':
            check_tables_current(out)
            out.obs = 'all %d code points x %d categories compared with unicodedata %s' % (
                MAXCP + 1, len(TWO) + len(MAJ), unicodedata.unidata_version)
        elif kind == 'versions':
            check_versions(out, case['versions'])
            out.obs = 'installed %s' % case['versions']
    except Mismatch as m:
        out.fail(m.key, m.detail)
    except (RegexError, ValueError, TypeError, IndexError, KeyError, AttributeError, AssertionError) as e:
        from ..engine import where
        w = where(e)
        if w == 'outside-repo':
            raise
        out.fail('C13/%s/exception/%s@%s' % (kind.split('_')[0], type(e).__name__, w), repr(e)[:200])
    return out


def shrink(kind, case):
    if kind in ('subset_history', 'cclass_history'):
        ops = case['ops']
        for i in range(len(ops)):
            yield {'init': case['init'], 'ops': ops[:i] + ops[i + 1:]}
        if case['init'] is not None:
            yield {'init': None, 'ops': ops}


def run(h):
    h.case('tables', {})
    if h.tier == 'thorough':
        vers = list(_us.UNICODE_VERSIONS)
        mine = vers[h.shard::h.nshards] if h.nshards > 1 else vers
        if mine:
            h.case('versions', {'versions': mine}, cpu=600)
    else:
        h.case('versions', {'versions': ['16.0.0', '13.0.0', '12.1.0', '5.0.0', '3.1.0']}, cpu=400)
    r = h.rng
    for _ in range(h.n(800)):
        h.case('subset_history', g_subset_history(r))
    for _ in range(h.n(180)):
        h.case('cclass_history', g_cc_history(r))


def floors(v):
    reasons = []
    if v.got('subset_state_checks') < 5000:
        reasons.append('fewer than 5000 UnicodeSubset states compared with the model')
    if v.got('cclass_state_checks') < 150:
        reasons.append('fewer than 150 CharacterClass states compared with the model')
    if v.got('table_cells_checked') < (MAXCP + 1) * 30:
        reasons.append('category tables not compared exhaustively')
    for g in ('before-all', 'after-all', 'in-gap', 'touch1-over1-inside', 'touch2-over2'):
        if v.got('geometry:add', g) + v.got('geometry:discard', g) < 5:
            reasons.append('overlap geometry %s seen fewer than 5 times' % g)
    return reasons
