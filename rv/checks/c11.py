"""C11 - date, time and duration values follow the proleptic Gregorian timeline.

Every case is a handful of lexical literals (JSON strings).  The oracle parses them with the
integer-only model `rv.models.calendar`, computes the expected value / instant / ordering from the
XSD and F&O definitions, and compares with what elementpath produces through

* the `elementpath.datatypes` API (fromstring, todelta / fromdelta, + - and the six comparisons), and
* XPath 2.0 / 3.1 expressions evaluated with xsd_version '1.0' and '1.1', with and without an
  implicit timezone in the dynamic context.

Failing comparisons are attributed to a mechanism (todelta, fromdelta, year-field ordering, year-zero
crossing, ...) by re-running the primitive operations, so that one defect keeps one or two keys.
"""
import datetime as _pydt          # only to build/read timedelta arguments of the API under test
from decimal import Decimal
import xml.etree.ElementTree as ET

from ..core import Outcome
from ..engine import call, PARSERS
from ..models import calendar as cal

from elementpath import XPathContext
from elementpath import datatypes as dt

PROPERTY = 'C11'
LEVEL = 'exploration'
RULE = ('cases are literals drawn from a boundary pool: years {1,2,4,5,100,101,400,401,820,1582,1900,2000,9999,'
        '10000,10001,12000,99999,2^31-ish} and their BCE mirrors (incl. 1 BCE / year 0000), all month ends, 29 Feb on '
        'both sides of year 0, first/last day of year, 24:00:00, 0-7 fraction digits, timezones {none,Z,+-00:01,'
        '+-13:59,+-14:00,+-05:00,+05:30,random}; durations incl. zero, negative, sub-second, > 400 years; '
        'each case is checked through the datatypes API or an XPath expression (parser 2.0/3.1, XSD 1.0/1.1, '
        'implicit timezone present/absent). A case is non-trivial when at least one engine result was compared with '
        'a model-determined expectation; distinct by canonical JSON of the case.')
ASSUMPTIONS = [
    'rv.models.calendar (integer day-number algorithm, XSD 1.1 App. E.3 / F&O 3.1 sec. 8-9) is the ground truth',
    'XSD 1.0 lexical year -N denotes N BCE (astronomical 1-N) and the calendar is proleptic Gregorian; whether '
    '29 February exists in an XSD 1.0 BCE year is ambiguous in XSD 1.0 and is not decided (only the engine\'s '
    'internal consistency on such values is)',
    'overflow errors (OverflowError / FODT0001 / FODT0002) are accepted as implementation limits whenever an '
    'operand or the expected result lies outside years 0001-9999; wrong values are never accepted',
    'datatypes API without timezone on one side of a comparison/subtraction: the documented default (UTC) is '
    'taken as the implicit timezone; in XPath the mixed case is decided only when the context supplies a timezone',
    'fraction digits beyond microseconds are implementation-defined precision: such literals are counted, not decided',
]

import re as _re
_YEAR_PREFIX = _re.compile(r'^-?[0-9]+')
ROOT = ET.Element('r')
KINDS = ('dateTime', 'date', 'time')
API_CLS = {
    ('dateTime', '1.0'): dt.DateTime10, ('dateTime', '1.1'): dt.DateTime,
    ('date', '1.0'): dt.Date10, ('date', '1.1'): dt.Date,
    ('time', '1.0'): dt.Time, ('time', '1.1'): dt.Time,
}
CMP_OPS = ('eq', 'ne', 'lt', 'le', 'gt', 'ge')
OVERFLOW_CODES = ('FODT0001', 'FODT0002', 'FOAR0002')
_PARSER_CACHE = {}


# ------------------------------------------------------------------ bridging engine values to the model
def lib_tz(obj):
    tz = obj.tzinfo
    if tz is None:
        return None
    off = tz.offset
    return off.days * 1440 + off.seconds // 60


def lib_value(obj, kind):
    """engine date/time object -> model value tuple (None if it is not such an object)"""
    if not isinstance(obj, dt.AbstractDateTime) or obj.name != kind:
        return None
    if kind == 'time':
        return cal.REF_TIME_DATE + (obj.hour, obj.minute, obj.second, obj.microsecond, lib_tz(obj))
    y = cal.astro_from_nozero(obj.year)
    if kind == 'date':
        return (y, obj.month, obj.day, 0, 0, 0, 0, lib_tz(obj))
    return (y, obj.month, obj.day, obj.hour, obj.minute, obj.second, obj.microsecond, lib_tz(obj))


def lib_dur_us(obj):
    """engine dayTimeDuration -> microseconds (None if not one)"""
    if not isinstance(obj, dt.DayTimeDuration) or obj.months:
        return None
    s = obj.seconds * 1000000
    if s != s.to_integral_value():
        return None
    return int(s)


def td_us(td):
    return (td.days * 86400 + td.seconds) * cal.US + td.microseconds


def us_td(us):
    days, r = divmod(us, cal.DAY_US)
    secs, micro = divmod(r, cal.US)
    return _pydt.timedelta(days=days, seconds=secs, microseconds=micro)


def yclass(y):
    if y > 9999:
        return 'big'
    if y >= 1:
        return 'ce'
    return 'bce1' if y == 0 else 'bce'


def era(*years):
    s = set()
    for y in years:
        s.add('big' if y > 9999 else ('ce' if y >= 1 else 'bce'))
    return '+'.join(sorted(s))


def tzrel(a, b):
    if a[7] is None and b[7] is None:
        return 'none'
    if a[7] is None or b[7] is None:
        return 'mixed'
    return 'same' if a[7] == b[7] else 'diff'


def in_core(*vals):
    """all years inside 0001..9999 (where no implementation limit may be invoked)"""
    return all(1 <= v[0] <= 9999 for v in vals if v is not None)


def shown(kind, v, xsd):
    try:
        return cal.fmt(kind, v, xsd)
    except Exception:
        return repr(v)


def is_overflow(r):
    if r[0] == 'err':
        return r[1] in OVERFLOW_CODES or r[2] == 'ElementPathOverflowError'
    return r[0] == 'exc' and r[1] == 'OverflowError'


def failure_of(r):
    if r[0] == 'err':
        return 'error-%s' % (r[1] or r[2])
    return 'exception-%s' % r[1]


def ambig10(xsd, *vals, clamp=False):
    """XSD 1.0 does not say which BCE years have a 29 February (Appendix E of XSD 1.0 applies the
    leap rule to the year value, ISO 8601 to the astronomical year): not decided"""
    if xsd != '1.0':
        return False
    for v in vals:
        if v is not None and v[0] <= 0 and v[1] == 2 and (v[2] == 29 or (clamp and v[2] == 28)):
            return True
    return False


def ambig10_cmp(xsd, *vals):
    """the engine orders XSD 1.0 BCE values on a proxy calendar whose leap years follow the lexical year:
    around February/March the UTC normalisation is then as ambiguous as the leap day itself"""
    if xsd != '1.0':
        return False
    for v in vals:
        if v is not None and v[0] <= 0 and v[1] in (2, 3) and cal.is_leap(v[0]) != cal.is_leap(v[0] - 1):
            return True
    return False


def big_leap_mismatch(xsd, y):
    """years above 9999 whose leap status differs from that of the following year"""
    return xsd == '1.1' and y > 9999 and cal.is_leap(y) != cal.is_leap(y + 1)


CTOR_BIG_KEY = 'C11/constructor/xsd11-year-above-9999-leap-status'


def ctor_defect(kind, xsd, w):
    """can the engine construct the expected value at all?  -> key of the literal defect or None"""
    if kind == 'time' or w is None:
        return None
    r = api_make(kind, xsd, cal.fmt(kind, w, xsd))
    if r[0] == 'ok' and lib_value(r[1], kind) == w:
        return None
    if big_leap_mismatch(xsd, w[0]):
        return CTOR_BIG_KEY
    if r[0] != 'ok':
        return 'C11/literal/valid-rejected/%s' % yclass(w[0])
    return 'C11/literal/components/%s' % yclass(w[0])


def fromtimedelta_defect(us):
    """DayTimeDuration.fromtimedelta is the last step of every subtraction"""
    try:
        r = call(dt.DayTimeDuration.fromtimedelta, us_td(us))
    except OverflowError:
        return None
    if r[0] != 'ok' or lib_dur_us(r[1]) != us:
        return 'C11/duration/fromtimedelta/%s' % ('negative-fraction' if us < 0 and us % cal.US else 'value')
    return None


def operand_ok(cx, kind, xsd, text, v):
    """operands whose literal the engine already gets wrong are reported by the literal checks only"""
    r = api_make(kind, xsd, text)
    if r[0] == 'ok' and lib_value(r[1], kind) == v:
        return True
    cx.undecided('operand-literal-defect')
    return False


class Ctx:
    """per-case bookkeeping"""
    def __init__(self, out):
        self.out = out
        self.compared = 0
        self.notes = []

    def cmp(self, oracle='model'):
        self.compared += 1
        self.out.dim('oracle_comparisons', oracle)

    def undecided(self, why):
        self.out.dim('undecided', why)


def handle_nonvalue(cx, r, key, detail, core):
    """engine raised instead of returning a value where the model has one"""
    if is_overflow(r) and not core:
        cx.undecided('overflow-limit')
        return
    cx.out.fail('%s/%s' % (key, failure_of(r)), dict(detail, got=list(r)))


# ------------------------------------------------------------------ API layer
def api_make(kind, xsd, text):
    return call(API_CLS[(kind, xsd)].fromstring, text)


def check_literal(cx, kind, xsd, text, layer='api', r=None):
    """acceptance + components of one literal.  -> (model value or None, engine object or None)"""
    out = cx.out
    p = cal.parse(kind, text, xsd)
    if r is None:
        r = api_make(kind, xsd, text)
    out.dim('literal_kind', '%s/%s' % (kind, xsd))
    bce10 = xsd == '1.0' and kind != 'time' and text.startswith('-') and ('-02-29' in text or '-02-28T24' in text)
    if bce10:
        cx.undecided('xsd10-bce-feb29')
        return None, (r[1] if r[0] == 'ok' and '-02-29' in text else None)
    if p is None:
        cx.cmp()
        if r[0] == 'ok':
            m = cal._RE[kind].match(text)
            yk = 'other'
            if m is not None and kind != 'time':
                y = cal._year(m.group(1), m.group(2), xsd)
                if y is not None:
                    yk = yclass(y)
                    if big_leap_mismatch(xsd, y) and m.group(3) == '02':
                        out.fail(CTOR_BIG_KEY, {'text': text, 'xsd': xsd, 'expected': 'rejected', 'got': str(r[1])})
                        return None, None
            out.fail('C11/literal/invalid-accepted/%s' % yk, {'text': text, 'xsd': xsd, 'got': str(r[1])})
        elif r[0] == 'exc' and r[1] not in ('ValueError', 'OverflowError'):
            out.fail('C11/literal/exception-%s' % r[1], {'text': text, 'xsd': xsd})
        return None, None
    v, exact = p
    if r[0] != 'ok':
        if abs(v[0]) > 9999 and (is_overflow(r) or abs(v[0]) >= 2 ** 31 - 1):
            cx.undecided('overflow-limit')
            return None, None
        cx.cmp()
        if kind != 'time' and big_leap_mismatch(xsd, int(text.lstrip('-').split('-')[0])):
            out.fail(CTOR_BIG_KEY, {'text': text, 'xsd': xsd, 'expected': 'accepted', 'got': list(r)})
            return None, None
        yc = yclass(v[0]) if kind != 'time' else 'time'
        out.fail('C11/literal/valid-rejected/%s' % yc, {'text': text, 'xsd': xsd, 'got': list(r)})
        return None, None
    obj = r[1]
    if not exact:
        cx.undecided('sub-microsecond-digits')
        return None, None
    got = lib_value(obj, kind)
    cx.cmp()
    if got != v:
        h24 = 'T24:00:00' in text or text.startswith('24:00:00')
        if kind != 'time' and big_leap_mismatch(xsd, int(text.lstrip('-').split('-')[0])):
            key = CTOR_BIG_KEY
        elif h24 and got is not None and got[1:] == v[1:] and got[0] != v[0]:
            key = 'C11/literal/24:00:00/year-not-carried'
        elif h24:
            key = 'C11/literal/24:00:00/%s' % (yclass(v[0]) if kind != 'time' else 'time')
        else:
            key = 'C11/literal/components/%s' % (yclass(v[0]) if kind != 'time' else 'time')
        out.fail(key, {'text': text, 'xsd': xsd, 'layer': layer,
                       'expected': shown(kind, v, xsd), 'got': str(obj)})
        return None, None
    return v, obj


def string_key(kind, xsd, v, exp, got):
    ym = _YEAR_PREFIX.match(got) if isinstance(got, str) else None
    if kind != 'time' and ym is not None and got[ym.end():] == exp[_YEAR_PREFIX.match(exp).end():]:
        return 'C11/string/year/%s/xsd%s' % (yclass(v[0]), xsd)
    return 'C11/string/%s/%s' % (kind, yclass(v[0]) if kind != 'time' else 'time')


def check_string(cx, kind, xsd, v, obj):
    """str() is the lexical form of the same value in the same year numbering"""
    r = call(str, obj)
    cx.cmp()
    exp = cal.fmt(kind, v, xsd)
    if r[0] != 'ok':
        cx.out.fail('C11/string/%s' % failure_of(r), {'value': exp})
        return
    if r[1] != exp:
        back = cal.parse(kind, r[1], xsd)
        if back is None or back[0] != v:
            cx.out.fail(string_key(kind, xsd, v, exp, r[1]), {'expected': exp, 'got': r[1], 'xsd': xsd})
        else:
            cx.undecided('non-canonical-string')


def expected_delta_us(v):
    """todelta(): offset of the (UTC) instant, or of the local reading when there is no timezone"""
    return cal.instant(v, 0)


def check_todelta(cx, kind, xsd, v, obj):
    """-> True ok / False failed / None undecided"""
    r = call(obj.todelta)
    exp = expected_delta_us(v)
    if r[0] != 'ok':
        if is_overflow(r) and not in_core(v):
            cx.undecided('overflow-limit')
            return None
        cx.cmp()
        cx.out.fail('C11/todelta/%s/%s' % (yclass(v[0]), failure_of(r)), {'value': shown(kind, v, xsd)})
        return False
    cx.cmp()
    got = td_us(r[1])
    if got != exp:
        cx.out.fail('C11/todelta/%s' % yclass(v[0]),
                    {'value': shown(kind, v, xsd), 'xsd': xsd, 'expected_us': exp, 'got_us': got,
                     'off_by_days': (got - exp) / cal.DAY_US})
        return False
    return True


def fromdelta_key(kind, w):
    zero = '/time-zero' if (w[3:7] == (0, 0, 0, 0) and kind == 'dateTime') else ''
    return 'C11/fromdelta/%s%s' % (yclass(w[0]), zero)


def check_fromdelta(cx, kind, xsd, us):
    """cls.fromdelta(model delta) is the model's value at that offset (no timezone)"""
    cls = API_CLS[(kind, xsd)]
    w = cal.from_local_us(us, None)
    if kind == 'date':
        w = cal.date_of(w)
    if ambig10(xsd, w):
        cx.undecided('xsd10-bce-feb29')
        return None
    try:
        td = us_td(us)
    except OverflowError:
        cx.undecided('timedelta-range')
        return None
    r = call(cls.fromdelta, td)
    if r[0] != 'ok':
        if is_overflow(r) and not in_core(w):
            cx.undecided('overflow-limit')
            return None
        cx.cmp()
        cx.out.fail(ctor_defect(kind, xsd, w) or '%s/%s' % (fromdelta_key(kind, w), failure_of(r)),
                    {'delta_us': us, 'expected': shown(kind, w, xsd), 'got': list(r)})
        return False
    cx.cmp()
    got = lib_value(r[1], kind)
    if got != w:
        cx.out.fail(ctor_defect(kind, xsd, w) or fromdelta_key(kind, w),
                    {'delta_us': us, 'expected': shown(kind, w, xsd), 'got': str(r[1]), 'xsd': xsd})
        return False
    return True


def check_roundtrip(cx, kind, xsd, v, obj, explained):
    """fromdelta(todelta(d)) denotes the same instant as d (engine against engine + model)"""
    cls = API_CLS[(kind, xsd)]
    if ambig10(xsd, cal.from_local_us(cal.instant(v, 0), None)):
        cx.undecided('xsd10-bce-feb29')
        return
    r = call(lambda: cls.fromdelta(obj.todelta(), adjust_timezone=(kind == 'date' and v[7] is not None)))
    if r[0] != 'ok':
        if is_overflow(r) and not in_core(v):
            cx.undecided('overflow-limit')
            return
        cx.cmp('roundtrip')
        if not explained:
            cx.out.fail('C11/roundtrip/%s/%s' % (yclass(v[0]), failure_of(r)), {'value': shown(kind, v, xsd)})
        return
    back = lib_value(r[1], kind)
    cx.cmp('roundtrip')
    same = back is not None and cal.instant(back, 0) == cal.instant(v, 0)
    if kind == 'dateTime' or v[7] is None:
        # no timezone can have been introduced: the value itself must come back (as UTC reading)
        same = same and back[7] is None
    if not same and not explained:
        if kind == 'date' and v[7] is not None and back is not None and back[1:] == v[1:] and back[0] != v[0]:
            key = 'C11/fromdelta/date-adjust-timezone/year-not-carried'
        else:
            key = 'C11/roundtrip/%s/%s' % (kind, yclass(v[0]))
        cx.out.fail(key, {'value': shown(kind, v, xsd), 'got': str(r[1]), 'xsd': xsd})
    # the engine's own equality must agree
    r2 = call(lambda: r[1] == obj)
    if r2[0] == 'ok' and r2[1] is not True and same and not ambig10_cmp(xsd, v, back):
        if big_leap_mismatch(xsd, v[0]) and v[1] in (2, 3):
            key = CTOR_BIG_KEY
        elif back[0] != v[0]:
            key = 'C11/compare/year-field-ordered-before-instant'
        else:
            key = 'C11/roundtrip/eq-false-on-same-instant'
        cx.out.fail(key, {'value': shown(kind, v, xsd), 'fromdelta(todelta)': str(r[1]), 'op': '=='})


def run_value(case, cx):
    kind, xsd, text = case['kind'], case['xsd'], case['text']
    r = api_make(kind, xsd, text)
    v, obj = check_literal(cx, kind, xsd, text, r=r)
    if v is None:
        if obj is not None and kind != 'time':
            # ambiguous XSD 1.0 BCE leap day that the engine accepted: only self-consistency is decided
            rr = call(lambda: API_CLS[(kind, xsd)].fromdelta(obj.todelta()))
            cx.cmp('roundtrip')
            if rr[0] == 'ok' and (str(rr[1]) != str(obj)) and lib_tz(obj) is None:
                cx.out.fail('C11/roundtrip/xsd10-bce-feb29-accepted-but-not-on-timeline',
                            {'text': text, 'fromdelta(todelta)': str(rr[1])})
        return
    cx.out.dim('value_year_class', yclass(v[0]) if kind != 'time' else 'time')
    cx.out.dim('value_tz', 'none' if v[7] is None else ('Z' if v[7] == 0 else 'offset'))
    check_string(cx, kind, xsd, v, obj)
    if kind == 'time':
        return
    t_ok = check_todelta(cx, kind, xsd, v, obj)
    us = cal.instant(v, 0)
    f_ok = check_fromdelta(cx, kind, xsd, us)
    if kind == 'dateTime' and case.get('probe_us') is not None:
        check_fromdelta(cx, kind, xsd, us + case['probe_us'])
    check_roundtrip(cx, kind, xsd, v, obj, explained=(t_ok is False or f_ok is False))


# ---- arithmetic / comparison through the API
def attribute_daytime(cx, kind, xsd, a, exp, dus=None):
    """why did a (+/-) dayTimeDuration fail? -> key of the primitive that is wrong, or None"""
    if kind == 'time':
        return None
    k = ctor_defect(kind, xsd, exp)
    if k:
        return k
    ra = api_make(kind, xsd, cal.fmt(kind, a, xsd))
    if ra[0] == 'ok':
        r = call(ra[1].todelta)
        if r[0] == 'ok' and td_us(r[1]) != expected_delta_us(a):
            return 'C11/todelta/%s' % yclass(a[0])
    # the engine computes fromdelta(UTC delta + offset): probe fromdelta at the expected local reading
    # (dates: the engine drops the time afterwards, so probe the dateTime class at midnight and at noon)
    base = cal.local_us(exp)
    probes = [base] if kind == 'dateTime' else [base, base + 12 * 3600 * cal.US]
    if dus is not None:
        probes.append(cal.local_us(a) + dus)      # the local reading the engine passes to fromdelta
    for us in probes:
        w = cal.from_local_us(us, None)
        try:
            r = call(API_CLS[('dateTime', xsd)].fromdelta, us_td(us))
        except OverflowError:
            return None
        if r[0] != 'ok':
            return '%s/%s' % (fromdelta_key('dateTime', w), failure_of(r))
        if lib_value(r[1], 'dateTime') != w:
            return fromdelta_key('dateTime', w)
    return None


def model_add_daytime(kind, v, dus):
    if kind == 'date':
        return cal.add_daytime_date(v, dus)
    if kind == 'time':
        return cal.add_daytime_time(v, dus)
    return cal.add_daytime(v, dus)


def compare_value(cx, r, kind, xsd, exp, key, detail, core, attribute=None, flat=False):
    """engine outcome `r` must be the model value `exp` (components and timezone)"""
    if ambig10(xsd, exp):
        cx.undecided('xsd10-bce-feb29')
        return False
    if r[0] != 'ok':
        if is_overflow(r) and (not core or kind == 'time'):
            cx.undecided('overflow-limit')
            return False
        cx.cmp()
        k = attribute() if attribute else None
        cx.out.fail(k or (key if flat else '%s/%s' % (key, failure_of(r))),
                    dict(detail, expected=shown(kind, exp, xsd), got=list(r)))
        return False
    cx.cmp()
    got = lib_value(r[1], kind)
    if got != exp:
        k = attribute() if attribute else None
        cx.out.fail(k or key, dict(detail, expected=shown(kind, exp, xsd), got=str(r[1]), xsd=xsd))
        return False
    return True


def ym_key(a, exp, months):
    if (a[0] <= 0) != (exp[0] <= 0):
        return 'C11/add-yearMonth/crosses-year-zero'
    if exp[0] <= 0:
        if exp[1] == 2 and a[2] >= 28:
            return 'C11/add-yearMonth/bce/february-clamp'
        return 'C11/add-yearMonth/bce'
    if exp[0] > 9999:
        return 'C11/add-yearMonth/result-beyond-9999'
    if a[0] > 9999:
        return 'C11/add-yearMonth/from-beyond-9999'
    if exp[2] != a[2]:
        return 'C11/add-yearMonth/ce/clamp'
    return 'C11/add-yearMonth/ce'


def model_cmp(a, b, implicit):
    ia, ib = cal.instant(a, implicit), cal.instant(b, implicit)
    return {'eq': ia == ib, 'ne': ia != ib, 'lt': ia < ib, 'le': ia <= ib, 'gt': ia > ib, 'ge': ia >= ib}


def year_field_cmp(a, b):
    """what an ordering by the year field first (then the instant) would answer, or None"""
    if a[0] == b[0]:
        return None
    lt = a[0] < b[0]
    return {'eq': False, 'ne': True, 'lt': lt, 'le': lt, 'gt': not lt, 'ge': not lt}


def cmp_key(kind, a, b, exp, got_map, xsd='1.0'):
    if kind != 'time' and any(big_leap_mismatch(xsd, v[0]) and v[1] in (2, 3) for v in (a, b)):
        return CTOR_BIG_KEY
    yf = year_field_cmp(a, b)
    if yf is not None and kind != 'time' and all(got_map.get(o) == yf[o] for o in got_map) and yf != exp:
        return 'C11/compare/year-field-ordered-before-instant'
    return 'C11/compare/tz-%s/%s' % (tzrel(a, b), era(a[0], b[0]) if kind != 'time' else 'time')


PY_OPS = {'eq': lambda x, y: x == y, 'ne': lambda x, y: x != y, 'lt': lambda x, y: x < y,
          'le': lambda x, y: x <= y, 'gt': lambda x, y: x > y, 'ge': lambda x, y: x >= y}


def run_arith(case, cx):
    kind, xsd = case['kind'], case['xsd']
    out = cx.out
    cls = API_CLS[(kind, xsd)]
    a, ao = check_literal(cx, kind, xsd, case['a'])
    if a is None:
        return
    # -- dayTimeDuration
    if case.get('dur') is not None:
        pd = cal.parse_duration(case['dur'])
        rd = call(dt.DayTimeDuration.fromstring, case['dur'])
        if pd is None or pd[0][0] != 0 or not pd[1] or rd[0] != 'ok':
            cx.undecided('duration-literal')
        else:
            dus = pd[0][1]
            dobj = rd[1]
            cx.cmp()
            if lib_dur_us(dobj) != dus:
                out.fail('C11/duration/literal-value', {'text': case['dur'], 'got': str(dobj)})
            else:
                out.dim('api_op', '%s+dayTime' % kind)
                for sign, name in ((1, 'add'), (-1, 'sub')):
                    exp = model_add_daytime(kind, a, sign * dus)
                    r = call((lambda: ao + dobj) if sign == 1 else (lambda: ao - dobj))
                    det = {'op': '%s %s %s' % (case['a'], '+' if sign == 1 else '-', case['dur'])}
                    ok = compare_value(cx, r, kind, xsd, exp,
                                       'C11/%s-dayTime/%s/%s' % (name, kind, yclass(exp[0]) if kind != 'time' else 'time'),
                                       det, in_core(a, exp),
                                       attribute=lambda: attribute_daytime(cx, kind, xsd, a, exp, sign * dus))
                    if ok:
                        # d + dur - dur = d  (dates: only for whole days)
                        if kind != 'date' or dus % cal.DAY_US == 0:
                            r2 = call((lambda: r[1] - dobj) if sign == 1 else (lambda: r[1] + dobj))
                            compare_value(cx, r2, kind, xsd, a if kind != 'time' else a,
                                          'C11/add-sub-dayTime-identity/%s/%s' % (kind, yclass(a[0]) if kind != 'time' else 'time'),
                                          dict(det, step='inverse'), in_core(a, exp),
                                          attribute=lambda: attribute_daytime(cx, kind, xsd, exp, a, -sign * dus))
                if kind != 'time':
                    r = call(lambda: dobj + ao)
                    exp = model_add_daytime(kind, a, dus)
                    if r[0] == 'exc' and r[1] == 'TypeError':
                        cx.cmp()
                        out.fail('C11/dayTime-plus-value/%s/type-error' % kind,
                                 {'op': '%s + %s' % (case['dur'], case['a']), 'got': list(r), 'layer': 'api'})
                    else:
                        compare_value(cx, r, kind, xsd, exp, 'C11/dayTime-plus-value/%s' % kind,
                                      {'op': '%s + %s' % (case['dur'], case['a'])}, in_core(a, exp),
                                      attribute=lambda: attribute_daytime(cx, kind, xsd, a, exp, dus))
    # -- yearMonthDuration (clamping)
    if case.get('ym') is not None and kind != 'time':
        pd = cal.parse_duration(case['ym'])
        rd = call(dt.YearMonthDuration.fromstring, case['ym'])
        if pd is None or pd[0][1] != 0 or rd[0] != 'ok':
            cx.undecided('duration-literal')
        else:
            months = pd[0][0]
            out.dim('api_op', '%s+yearMonth' % kind)
            for sign in (1, -1):
                exp = cal.add_months(a, sign * months)
                if abs(exp[0]) >= 2 ** 31 - 1:
                    cx.undecided('overflow-limit')
                    continue
                if ambig10(xsd, exp, clamp=exp[2] != a[2]):
                    cx.undecided('xsd10-bce-feb29')
                    continue
                r = call((lambda: ao + rd[1]) if sign == 1 else (lambda: ao - rd[1]))
                out.dim('ym_clamp', 'clamped' if exp[2] != a[2] else 'kept')
                compare_value(cx, r, kind, xsd, exp, ym_key(a, exp, months),
                              {'op': '%s %s %s' % (case['a'], '+' if sign == 1 else '-', case['ym'])},
                              in_core(a, exp), flat=True)
    # -- second value: elapsed time, d1 + (d2 - d1), comparisons
    if case.get('b') is not None:
        b, bo = check_literal(cx, kind, xsd, case['b'])
        if b is None:
            return
        rel = tzrel(a, b)
        out.dim('api_pair', '%s/%s/tz-%s' % (kind, era(a[0], b[0]) if kind != 'time' else 'time', rel))
        exp_us = cal.instant(b, 0) - cal.instant(a, 0)
        r = call(lambda: bo - ao)
        det = {'op': '%s - %s' % (case['b'], case['a']), 'xsd': xsd}
        core = in_core(a, b) and kind != 'time'
        elapsed_ok = False
        if r[0] != 'ok':
            handle_nonvalue(cx, r, 'C11/subtract/%s/%s' % (kind, era(a[0], b[0]) if kind != 'time' else 'time'), det, core)
        else:
            cx.cmp()
            got = lib_dur_us(r[1])
            if got != exp_us:
                key = fromtimedelta_defect(exp_us)
                if kind != 'time' and key is None:
                    for v, o in ((a, ao), (b, bo)):
                        rt = call(o.todelta)
                        if rt[0] == 'ok' and td_us(rt[1]) != expected_delta_us(v) and not in_core(a, b):
                            key = 'C11/todelta/%s' % yclass(v[0])
                            break
                out.fail(key or 'C11/subtract/%s/%s/tz-%s' % (kind, era(a[0], b[0]) if kind != 'time' else 'time', rel),
                         dict(det, expected=cal.fmt_daytime(exp_us), got=str(r[1])))
            else:
                elapsed_ok = True
        if elapsed_ok and kind != 'time':
            # d1 + (d2 - d1) = d2 : the model gives the value in d1's timezone at d2's instant
            exp = model_add_daytime(kind, a, exp_us)
            r2 = call(lambda: ao + r[1])
            ok = compare_value(cx, r2, kind, xsd, exp, 'C11/add-difference/%s' % era(a[0], b[0]),
                               {'op': '%s + (%s - %s)' % (case['a'], case['b'], case['a'])}, core,
                               attribute=lambda: attribute_daytime(cx, kind, xsd, a, exp, exp_us))
            if ok and (kind == 'dateTime' or rel in ('none', 'same')):
                r3 = call(lambda: r2[1] == bo)
                cx.cmp('identity')
                if r3[0] == 'ok' and r3[1] is not True and cmp_probe_ok(bo, b) and not ambig10_cmp(xsd, exp, b):
                    if any(big_leap_mismatch(xsd, v[0]) and v[1] in (2, 3) for v in (exp, b)):
                        key = CTOR_BIG_KEY
                    elif exp[0] != b[0]:
                        key = 'C11/compare/year-field-ordered-before-instant'
                    else:
                        key = 'C11/add-difference/not-eq-target'
                    out.fail(key, {'op': 'd1 + (d2 - d1) == d2', 'a': case['a'], 'b': case['b'], 'sum': str(r2[1])})
        # comparisons
        if ambig10_cmp(xsd, a, b):
            cx.undecided('xsd10-bce-feb29')
            return
        exp_map = model_cmp(a, b, 0)
        got_map = {}
        errs = {}
        for op in CMP_OPS:
            rc = call(PY_OPS[op], ao, bo)
            if rc[0] == 'ok':
                got_map[op] = rc[1]
            else:
                errs[op] = rc
        cx.cmp()
        out.dim('compare_relation', 'eq' if exp_map['eq'] else ('lt' if exp_map['lt'] else 'gt'))
        if errs:
            op = sorted(errs)[0]
            out.fail('C11/compare/%s/%s' % (kind, failure_of(errs[op])), {'a': case['a'], 'b': case['b'], 'op': op})
        bad = [o for o in CMP_OPS if o in got_map and got_map[o] != exp_map[o]]
        if bad:
            out.fail(cmp_key(kind, a, b, exp_map, got_map, xsd),
                     {'a': case['a'], 'b': case['b'], 'xsd': xsd, 'wrong_ops': bad,
                      'expected': {o: exp_map[o] for o in bad}, 'layer': 'api'})


def cmp_probe_ok(bo, b):
    r = call(lambda: bo == bo)
    return r[0] == 'ok' and r[1] is True


# ---- durations through the API
def dur_order(m1, s1, m2, s2):
    """XSD 1.1 3.3.6.2 order: compare the four reference dateTimes plus each duration -> -1/0/1/None"""
    res = set()
    for y, mo in ((1696, 9), (1697, 2), (1903, 3), (1903, 7)):
        base = (y, mo, 1, 0, 0, 0, 0, 0)
        i1 = cal.instant(cal.add_months(base, m1)) + s1
        i2 = cal.instant(cal.add_months(base, m2)) + s2
        res.add((i1 > i2) - (i1 < i2))
    if len(res) == 1:
        return res.pop()
    return None


def run_duration(case, cx):
    out = cx.out
    t1, t2 = case['d1'], case['d2']
    objs = []
    vals = []
    for t in (t1, t2):
        p = cal.parse_duration(t)
        m, s = p[0] if p else (0, 0)
        cls = dt.Duration
        if case.get('sub') == 'dayTime':
            cls = dt.DayTimeDuration
        elif case.get('sub') == 'yearMonth':
            cls = dt.YearMonthDuration
        r = call(cls.fromstring, t)
        if p is None or not p[1]:
            cx.undecided('duration-literal')
            return
        opposite = (m > 0 > s) or (m < 0 < s)
        if r[0] != 'ok':
            cx.cmp()
            out.fail('C11/duration/valid-rejected', {'text': t, 'got': list(r)})
            return
        cx.cmp()
        o = r[1]
        gs = o.seconds * 1000000
        if o.months != m or gs != s:
            out.fail('C11/duration/literal-value', {'text': t, 'got': str(o), 'months': o.months, 'seconds': str(o.seconds)})
            return
        # string form re-parses to the same value
        rs = call(str, o)
        back = cal.parse_duration(rs[1]) if rs[0] == 'ok' else None
        cx.cmp()
        if back is None or back[0] != (m, s):
            out.fail('C11/duration/string', {'text': t, 'got': list(rs) if rs[0] != 'ok' else rs[1]})
        if cls is dt.DayTimeDuration:
            rt = call(o.get_timedelta)
            cx.cmp()
            if rt[0] != 'ok':
                if not is_overflow(rt):
                    out.fail('C11/duration/get_timedelta/%s' % failure_of(rt), {'text': t})
            elif td_us(rt[1]) != s:
                out.fail('C11/duration/get_timedelta/%s' % ('negative-fraction' if s < 0 and s % cal.US else 'value'),
                         {'text': t, 'expected_us': s, 'got_us': td_us(rt[1])})
            else:
                rb = call(dt.DayTimeDuration.fromtimedelta, rt[1])
                cx.cmp()
                if rb[0] != 'ok' or lib_dur_us(rb[1]) != s:
                    out.fail('C11/duration/fromtimedelta/%s' % ('negative-fraction' if s < 0 and s % cal.US else 'value'),
                             {'text': t, 'got': str(rb[1]) if rb[0] == 'ok' else list(rb)})
        objs.append(o)
        vals.append((m, s))
    (m1, s1), (m2, s2) = vals
    o1, o2 = objs
    order = dur_order(m1, s1, m2, s2)
    out.dim('duration_order', {None: 'incomparable', -1: 'lt', 0: 'eq', 1: 'gt'}[order])
    exp = {'eq': (m1, s1) == (m2, s2), 'ne': (m1, s1) != (m2, s2),
           'lt': order == -1, 'gt': order == 1,
           'le': order in (-1, 0) and (order == -1 or (m1, s1) == (m2, s2)),
           'ge': order in (1, 0) and (order == 1 or (m1, s1) == (m2, s2))}
    if order == 0 and (m1, s1) != (m2, s2):
        # equal on all four reference points but different values (cannot happen for month/second pairs)
        cx.undecided('duration-order-tie')
        return
    bad = []
    for op in CMP_OPS:
        rc = call(PY_OPS[op], o1, o2)
        if rc[0] != 'ok':
            out.fail('C11/duration/compare/%s' % failure_of(rc), {'d1': t1, 'd2': t2, 'op': op})
            return
        if order is None and op in ('le', 'ge'):
            continue        # XSD defines only the strict partial order; <= on incomparable values is not specified
        if rc[1] != exp[op]:
            bad.append(op)
    cx.cmp()
    if bad:
        mixed = 'mixed' if (m1 or m2) and (s1 or s2) else ('months' if (m1 or m2) else 'seconds')
        out.fail('C11/duration/compare/%s/%s' % (mixed, 'incomparable' if order is None else 'ordered'),
                 {'d1': t1, 'd2': t2, 'wrong_ops': bad, 'model_order': order})
    # sum / difference of same-kind durations
    if case.get('sub') in ('dayTime', 'yearMonth'):
        r = call(lambda: (o1 + o2) - o2)
        cx.cmp('identity')
        if r[0] == 'ok':
            if (r[1].months, r[1].seconds * 1000000) != (m1, s1):
                out.fail('C11/duration/add-sub-identity', {'d1': t1, 'd2': t2, 'got': str(r[1])})
        elif not is_overflow(r):
            out.fail('C11/duration/add/%s' % failure_of(r), {'d1': t1, 'd2': t2})


# ------------------------------------------------------------------ XPath layer
def xp_eval(expr, ver, xsd, tz, use_ctx=True):
    key = (ver, xsd)
    parser = _PARSER_CACHE.get(key)
    if parser is None:
        parser = _PARSER_CACHE[key] = PARSERS[ver](xsd_version=xsd)

    def f():
        tok = parser.parse(expr)
        ctx = XPathContext(root=ROOT, timezone=tz) if use_ctx else None
        return tok.evaluate(ctx)
    return call(f)


def lit(kind, text):
    return "xs:%s('%s')" % (kind, text)


def one(r):
    """unwrap singleton result lists"""
    if r[0] == 'ok' and isinstance(r[1], list) and len(r[1]) == 1:
        return ('ok', r[1][0])
    return r


COMPONENTS = {
    'dateTime': ('year', 'month', 'day', 'hours', 'minutes', 'seconds', 'timezone'),
    'date': ('year', 'month', 'day', 'timezone'),
    'time': ('hours', 'minutes', 'seconds', 'timezone'),
}


def model_component(kind, v, comp, xsd):
    y, mo, d, h, mi, s, us, tz = v
    if comp == 'year':
        return cal.lexical_from_astro(y, xsd)
    if comp == 'month':
        return mo
    if comp == 'day':
        return d
    if comp == 'hours':
        return h
    if comp == 'minutes':
        return mi
    if comp == 'seconds':
        return Decimal(s) + Decimal(us) / Decimal(1000000)
    return None if tz is None else tz * cal.MIN_US


def run_xpath(case, cx):
    out = cx.out
    kind, xsd, ver, tz, op = case['kind'], case['xsd'], case['ver'], case.get('tz'), case['op']
    use_ctx = case.get('ctx', True)
    implicit = cal.parse_tz(tz) if (tz is not None and use_ctx) else None
    pa = cal.parse(kind, case['a'], xsd)
    if pa is None or not pa[1]:
        cx.undecided('literal-not-decided')
        return
    a = pa[0]
    if xsd == '1.0' and kind != 'time' and a[0] <= 0 and (a[1], a[2]) == (2, 29):
        cx.undecided('xsd10-bce-feb29')
        return
    A = lit(kind, case['a'])
    if op != 'literal' and not operand_ok(cx, kind, xsd, case['a'], a):
        return
    out.dim('xpath_op', '%s/%s' % (op, kind))
    out.dim('xpath_config', 'xpath%s/xsd%s/%s' % (ver, xsd, 'implicit-tz' if implicit is not None else ('no-tz' if use_ctx else 'no-context')))
    ycls = yclass(a[0]) if kind != 'time' else 'time'
    b = None
    if case.get('b') is not None:
        pb = cal.parse(kind, case['b'], xsd)
        if pb is None or not pb[1] or (xsd == '1.0' and kind != 'time' and pb[0][0] <= 0 and pb[0][1:3] == (2, 29)):
            cx.undecided('literal-not-decided')
            return
        b = pb[0]
        B = lit(kind, case['b'])
        if not operand_ok(cx, kind, xsd, case['b'], b):
            return
    dus = months = None
    if case.get('dur') is not None:
        pd = cal.parse_duration(case['dur'])
        if pd is None or not pd[1]:
            cx.undecided('duration-literal')
            return
        months, dus = pd[0]

    # is the literal itself accepted with the right value?  (also covers the constructor path)
    if op == 'literal':
        r = one(xp_eval(A, ver, xsd, tz, use_ctx))
        v, obj = check_literal(cx, kind, xsd, case['a'], layer='xpath', r=r if r[0] != 'ok' or isinstance(r[1], dt.AbstractDateTime) else ('exc', 'NotADateTime', ''))
        if v is not None:
            rs = one(xp_eval('string(%s)' % A, ver, xsd, tz, use_ctx))
            cx.cmp()
            exp = cal.fmt(kind, v, xsd)
            if rs[0] != 'ok' or rs[1] != exp:
                back = cal.parse(kind, rs[1], xsd) if rs[0] == 'ok' and isinstance(rs[1], str) else None
                if back is None or back[0] != v:
                    out.fail(string_key(kind, xsd, v, exp, rs[1] if rs[0] == 'ok' else None),
                             {'expr': 'string(%s)' % A, 'expected': exp, 'got': rs[1] if rs[0] == 'ok' else list(rs)})
        return

    if op == 'component':
        for comp in COMPONENTS[kind]:
            expr = '%s-from-%s(%s)' % (comp, kind, A)
            r = xp_eval(expr, ver, xsd, tz, use_ctx)
            exp = model_component(kind, a, comp, xsd)
            cx.cmp()
            out.dim('component', '%s-from-%s' % (comp, kind))
            if r[0] != 'ok':
                if is_overflow(r) and not in_core(a):
                    cx.undecided('overflow-limit')
                    continue
                out.fail('C11/component/%s/%s' % (comp, failure_of(r)), {'expr': expr})
                continue
            got = r[1]
            if comp == 'timezone':
                if exp is None:
                    ok = got == []
                else:
                    ok = lib_dur_us(got) == exp
                if not ok:
                    out.fail('C11/component/timezone/%s' % kind, {'expr': expr, 'expected_us': exp, 'got': str(got)})
            elif comp == 'seconds':
                ok = isinstance(got, (int, Decimal)) and not isinstance(got, bool) and Decimal(got) == exp
                if not ok:
                    frac = 'leading-zero-fraction' if (0 < a[6] < 100000) else 'value'
                    out.fail('C11/component/seconds/%s/%s' % (kind, frac), {'expr': expr, 'expected': str(exp), 'got': str(got)})
            else:
                ok = isinstance(got, int) and not isinstance(got, bool) and got == exp
                if not ok:
                    if comp == 'year' and a[0] <= 0:
                        key = 'C11/component/year/bce/xsd%s' % xsd
                    else:
                        key = 'C11/component/%s/%s' % (comp, kind)
                    out.fail(key, {'expr': expr, 'expected': exp, 'got': str(got)})
        return

    if op == 'compare':
        rel = tzrel(a, b)
        if rel == 'mixed' and implicit is None:
            cx.undecided('mixed-tz-without-implicit-timezone')
            return
        if ambig10_cmp(xsd, a, b):
            cx.undecided('xsd10-bce-feb29')
            return
        expr = '(' + ', '.join('%s %s %s' % (A, o, B) for o in CMP_OPS) + ')'
        r = xp_eval(expr, ver, xsd, tz, use_ctx)
        exp_map = model_cmp(a, b, implicit or 0)
        cx.cmp()
        out.dim('xpath_pair', '%s/%s/tz-%s' % (kind, era(a[0], b[0]) if kind != 'time' else 'time', rel))
        out.dim('compare_relation', 'eq' if exp_map['eq'] else ('lt' if exp_map['lt'] else 'gt'))
        if r[0] != 'ok' or not isinstance(r[1], list) or len(r[1]) != 6:
            out.fail('C11/compare/%s/%s' % (kind, failure_of(r) if r[0] != 'ok' else 'shape'), {'expr': expr, 'got': repr(r)[:200]})
            return
        got_map = dict(zip(CMP_OPS, r[1]))
        bad = [o for o in CMP_OPS if got_map[o] != exp_map[o]]
        if bad:
            key = cmp_key(kind, a, b, exp_map, got_map, xsd)
            if rel == 'mixed' and implicit and got_map == model_cmp(a, b, 0) and \
                    key.startswith('C11/compare/tz-'):
                key = 'C11/compare/implicit-timezone-ignored'
            elif rel == 'mixed' and key.startswith('C11/compare/tz-'):
                key += '/implicit'
            out.fail(key, {'a': case['a'], 'b': case['b'], 'xsd': xsd, 'implicit_tz': tz, 'wrong_ops': bad,
                           'expected': {o: exp_map[o] for o in bad}, 'layer': 'xpath%s' % ver})
        return

    if op == 'subtract':
        rel = tzrel(a, b)
        if rel == 'mixed' and implicit is None:
            cx.undecided('mixed-tz-without-implicit-timezone')
            return
        exp_us = cal.instant(b, implicit or 0) - cal.instant(a, implicit or 0)
        out.dim('xpath_pair', '%s/%s/tz-%s' % (kind, era(a[0], b[0]) if kind != 'time' else 'time', rel))
        core = in_core(a, b) and kind != 'time'
        expr = '%s - %s' % (B, A)
        r = one(xp_eval(expr, ver, xsd, tz, use_ctx))
        if r[0] != 'ok':
            handle_nonvalue(cx, r, 'C11/subtract/%s/%s' % (kind, era(a[0], b[0]) if kind != 'time' else 'time'), {'expr': expr}, core)
            return
        cx.cmp()
        if lib_dur_us(r[1]) != exp_us:
            key = 'C11/subtract/%s/%s/tz-%s' % (kind, era(a[0], b[0]) if kind != 'time' else 'time', rel)
            ftd = fromtimedelta_defect(exp_us)
            if ftd:
                key, rel = ftd, 'x'
            elif kind != 'time' and not core:
                for v in (a, b):
                    ro = api_make(kind, xsd, cal.fmt(kind, v, xsd))
                    if ro[0] == 'ok':
                        rt = call(ro[1].todelta)
                        if rt[0] == 'ok' and td_us(rt[1]) != expected_delta_us(v):
                            key = 'C11/todelta/%s' % yclass(v[0])
                            break
            if rel == 'mixed' and key.startswith('C11/subtract/'):
                key += '/implicit'
            out.fail(key, {'expr': expr, 'implicit_tz': tz, 'expected': cal.fmt_daytime(exp_us), 'got': str(r[1])})
            return
        if kind != 'time':
            # d1 + (d2 - d1) eq d2
            expr2 = '(%s + (%s - %s)) eq %s' % (A, B, A, B)
            exp_v = model_add_daytime(kind, a, exp_us)
            exp_eq = cal.instant(exp_v, implicit or 0) == cal.instant(b, implicit or 0)
            # (the parser also pre-evaluates constant sub-expressions without a context, i.e. with UTC)
            exp_v0 = model_add_daytime(kind, a, cal.instant(b, 0) - cal.instant(a, 0))
            if ambig10(xsd, exp_v, exp_v0):
                cx.undecided('xsd10-bce-feb29')
                return
            r2 = one(xp_eval(expr2, ver, xsd, tz, use_ctx))
            bigleap = CTOR_BIG_KEY if any(big_leap_mismatch(xsd, v[0]) and v[1] in (2, 3)
                                          for v in (a, b, exp_v, exp_v0)) else None
            if r2[0] != 'ok':
                if not (is_overflow(r2) and not core):
                    cx.cmp('identity')
                    k = bigleap or attribute_daytime(cx, kind, xsd, a, exp_v, exp_us)
                    out.fail(k or 'C11/add-difference/%s/%s' % (kind, failure_of(r2)), {'expr': expr2})
                else:
                    cx.undecided('overflow-limit')
            else:
                cx.cmp('identity')
                if r2[1] is not exp_eq and not ambig10_cmp(xsd, exp_v, b):
                    k = bigleap or attribute_daytime(cx, kind, xsd, a, exp_v, exp_us)
                    if k is None and rel == 'mixed' and implicit and \
                            r2[1] is (cal.instant(exp_v, 0) == cal.instant(b, 0)):
                        k = 'C11/compare/implicit-timezone-ignored'
                    if k is None and year_field_cmp(exp_v, b) is not None:
                        k = 'C11/compare/year-field-ordered-before-instant'
                    out.fail(k or 'C11/add-difference/%s' % era(a[0], b[0]),
                             {'expr': expr2, 'expected': exp_eq, 'got': r2[1], 'implicit_tz': tz})
        return

    if op in ('add-dayTime', 'sub-dayTime', 'dayTime-add', 'inverse-dayTime'):
        if months:
            cx.undecided('duration-literal')
            return
        D = "xs:dayTimeDuration('%s')" % case['dur']
        if op == 'add-dayTime':
            expr, exp = '%s + %s' % (A, D), model_add_daytime(kind, a, dus)
        elif op == 'dayTime-add':
            expr, exp = '%s + %s' % (D, A), model_add_daytime(kind, a, dus)
        elif op == 'sub-dayTime':
            expr, exp = '%s - %s' % (A, D), model_add_daytime(kind, a, -dus)
        else:
            expr = '(%s + %s) - %s' % (A, D, D)
            mid = model_add_daytime(kind, a, dus)
            exp = model_add_daytime(kind, mid, -dus)
            if ambig10(xsd, mid):
                cx.undecided('xsd10-bce-feb29')
                return
        r = one(xp_eval(expr, ver, xsd, tz, use_ctx))
        if op == 'dayTime-add' and r[0] == 'err' and r[1] == 'XPTY0004':
            cx.cmp()
            out.fail('C11/dayTime-plus-value/%s/type-error' % kind, {'expr': expr, 'got': list(r), 'layer': 'xpath'})
            return
        name = 'add-sub-dayTime-identity' if op == 'inverse-dayTime' else ('sub-dayTime' if op == 'sub-dayTime' else 'add-dayTime')
        compare_value(cx, r, kind, xsd, exp,
                      'C11/%s/%s/%s' % (name, kind, yclass(exp[0]) if kind != 'time' else 'time'),
                      {'expr': expr}, in_core(a, exp) and (op != 'inverse-dayTime' or in_core(model_add_daytime(kind, a, dus))),
                      attribute=lambda: (attribute_daytime(cx, kind, xsd, a, exp if op != 'inverse-dayTime' else model_add_daytime(kind, a, dus),
                                                            -dus if op == 'sub-dayTime' else dus)
                                         or (attribute_daytime(cx, kind, xsd, model_add_daytime(kind, a, dus), exp, -dus)
                                             if op == 'inverse-dayTime' else None)))
        return

    if op in ('add-yearMonth', 'sub-yearMonth', 'yearMonth-add'):
        if dus or kind == 'time':
            cx.undecided('duration-literal')
            return
        D = "xs:yearMonthDuration('%s')" % case['dur']
        if op == 'add-yearMonth':
            expr, exp = '%s + %s' % (A, D), cal.add_months(a, months)
        elif op == 'yearMonth-add':
            expr, exp = '%s + %s' % (D, A), cal.add_months(a, months)
        else:
            expr, exp = '%s - %s' % (A, D), cal.add_months(a, -months)
        if abs(exp[0]) >= 2 ** 31 - 1:
            cx.undecided('overflow-limit')
            return
        if ambig10(xsd, exp, clamp=exp[2] != a[2]):
            cx.undecided('xsd10-bce-feb29')
            return
        out.dim('ym_clamp', 'clamped' if exp[2] != a[2] else 'kept')
        r = one(xp_eval(expr, ver, xsd, tz, use_ctx))
        compare_value(cx, r, kind, xsd, exp, ym_key(a, exp, months), {'expr': expr}, in_core(a, exp), flat=True)
        return

    if op == 'adjust':
        mode = case['mode']      # 'implicit' (1 arg) | 'empty' | 'tz'
        fn = 'adjust-%s-to-timezone' % kind
        if mode == 'implicit':
            if implicit is None:
                cx.undecided('adjust-without-implicit-timezone')
                return
            expr, target = '%s(%s)' % (fn, A), implicit
        elif mode == 'empty':
            expr, target = '%s(%s, ())' % (fn, A), None
        else:
            pd = cal.parse_duration(case['target'])
            if pd is None or pd[0][0]:
                cx.undecided('duration-literal')
                return
            tus = pd[0][1]
            expr = "%s(%s, xs:dayTimeDuration('%s'))" % (fn, A, case['target'])
            if tus % cal.MIN_US or abs(tus) > 14 * 60 * cal.MIN_US:
                r = xp_eval(expr, ver, xsd, tz, use_ctx)
                cx.cmp()
                out.dim('adjust_mode', 'invalid-timezone')
                if r[0] != 'err' or r[1] != 'FODT0003':
                    out.fail('C11/adjust/invalid-timezone-not-FODT0003', {'expr': expr, 'got': repr(r)[:120]})
                return
            target = tus // cal.MIN_US
        exp = cal.adjust_to_tz(a, target, kind)
        out.dim('adjust_mode', '%s/%s' % (mode, 'tz-value' if a[7] is not None else 'no-tz-value'))
        r = one(xp_eval(expr, ver, xsd, tz, use_ctx))
        shift = None if (a[7] is None or target is None) else target - a[7]

        def attr():
            if kind == 'time' or a[7] is None or target is None:
                return None
            k = attribute_daytime(cx, kind, xsd, a, exp)
            if k or kind != 'date':
                return k
            # the engine goes through fromdelta(UTC reading - shift, adjust_timezone=True)
            for us in (cal.instant(a), cal.instant(a) - shift * cal.MIN_US):
                w = cal.from_local_us(us, None)
                rr = call(API_CLS[('dateTime', xsd)].fromdelta, us_td(us))
                if rr[0] != 'ok' or lib_value(rr[1], 'dateTime') != w:
                    return fromdelta_key('dateTime', w)
            return None
        ok = compare_value(cx, r, kind, xsd, exp,
                           'C11/adjust/%s/%s/%s' % (kind, mode, yclass(exp[0]) if kind != 'time' else 'time'),
                           {'expr': expr, 'implicit_tz': tz}, in_core(a, exp), attribute=attr)
        if ok and kind == 'dateTime' and a[7] is not None and target is not None:
            # the instant is preserved (model-side restatement of the property)
            cx.cmp('identity')
            if cal.instant(exp) != cal.instant(a):
                raise AssertionError('model adjust does not preserve the instant')
        return
    cx.undecided('unknown-op')


# ------------------------------------------------------------------ harness interface
REUSE_FIRST = ["$d + xs:dayTimeDuration('PT1H')", "$d - xs:dayTimeDuration('PT0S')", "$d lt xs:dateTime('2000-01-01T00:00:00Z')",
               "$d - xs:dateTime('2000-01-01T00:00:00Z')", "$d eq $d", "string($d)", "$d - xs:dateTime('12000-01-01T00:00:00Z')",
               "adjust-dateTime-to-timezone($d)", "year-from-dateTime($d)"]
REUSE_THEN = ["$d gt xs:dateTime('2000-01-01T00:00:00Z')", "$d - xs:dateTime('12000-01-01T00:00:00Z')",
              "$d - xs:dateTime('1999-12-31T23:00:00Z')", "$d + xs:dayTimeDuration('P1D')",
              "adjust-dateTime-to-timezone($d, xs:dayTimeDuration('PT5H')) + xs:dayTimeDuration('PT1H')",
              "adjust-dateTime-to-timezone($d, ()) + xs:dayTimeDuration('PT1H')",
              "adjust-dateTime-to-timezone($d, xs:dayTimeDuration('-PT8H')) - xs:dateTime('2000-01-01T00:00:00Z')",
              "adjust-dateTime-to-timezone($d) - xs:dayTimeDuration('PT1H')", "xs:date($d)", "string($d)",
              "$d le xs:dateTime('1999-12-31T22:00:00')", "hours-from-dateTime(adjust-dateTime-to-timezone($d, xs:dayTimeDuration('PT2H')))"]


def run_reused(case, out):
    """a value that has already taken part in an operation is used again: `for $d in V return (E1($d), E2($d))` must give
    for E2 what E2 gives on a fresh literal (an answer remembered on the value object shows here); also through a
    variable of the dynamic context used by two successive evaluations"""
    ver, xsd, tz, text, e1, e2 = case['ver'], case['xsd'], case['tz'], case['text'], case['e1'], case['e2']
    v = lit('dateTime', text)
    fresh = xp_eval(e2.replace('$d', v), ver, xsd, tz)
    both = xp_eval('for $d in %s return (count((%s)), %s)' % (v, e1, e2), ver, xsd, tz)
    out.dim('reused_value', 'for-binding')
    out.nontrivial = fresh[0] == 'ok'

    def norm(r):
        if r[0] != 'ok':
            return r[:2]
        x = r[1] if isinstance(r[1], list) else [r[1]]
        return ('ok', [str(i) for i in x])
    f = norm(fresh)
    b = norm(both)
    if b[0] == 'ok':
        b = ('ok', b[1][1:])
    # (when E1 itself fails the whole expression fails: nothing to compare)
    e1_alone = xp_eval(e1.replace('$d', v), ver, xsd, tz)
    if e1_alone[0] == 'ok' and f != b:
        out.fail('C11/reused-value/answer-differs-from-fresh-value/for-binding',
                 {'value': text, 'first': e1, 'then': e2, 'tz': tz, 'xsd': xsd, 'fresh': f, 'after-first-use': b})
    out.obs = '%s: %s then %s' % (text, e1, e2)


def check_case(kind, case):
    out = Outcome()
    if kind == 'reused':
        run_reused(case, out)
        return out
    cx = Ctx(out)
    if kind == 'value':
        run_value(case, cx)
    elif kind == 'arith':
        run_arith(case, cx)
    elif kind == 'duration':
        run_duration(case, cx)
    elif kind == 'xpath':
        run_xpath(case, cx)
    else:
        raise ValueError('unknown case kind %r' % kind)
    out.nontrivial = cx.compared > 0
    out.obs = '%d comparisons, %d failed' % (cx.compared, len(out.fails))
    return out


def shrink(kind, case):
    if kind == 'reused':
        return
    if kind == 'arith':
        for f in ('b', 'dur', 'ym'):
            if case.get(f) is not None and sum(1 for g in ('b', 'dur', 'ym') if case.get(g) is not None) > 1:
                c = dict(case)
                c[f] = None
                yield c
    if kind == 'value' and case.get('probe_us') is not None:
        c = dict(case)
        c['probe_us'] = None
        yield c
    if kind == 'xpath':
        if case.get('tz') is not None:
            c = dict(case)
            c['tz'] = None
            yield c
        if case.get('ver') != '2.0':
            yield dict(case, ver='2.0')
    # simpler literals: drop fraction, drop timezone
    for f in ('text', 'a', 'b'):
        t = case.get(f)
        if isinstance(t, str):
            import re
            t2 = re.sub(r'\.[0-9]+', '', t)
            if t2 != t:
                yield dict(case, **{f: t2})
            t3 = re.sub(r'(Z|[+-][0-9]{2}:[0-9]{2})$', '', t)
            if t3 != t and kind != 'xpath':
                yield dict(case, **{f: t3})


# ------------------------------------------------------------------ generators
POS_YEARS = [1, 1, 2, 4, 5, 100, 101, 400, 401, 820, 1582, 1600, 1900, 1972, 1999, 2000, 2001, 2024,
             9998, 9999, 9999, 10000, 10000, 10001, 12000, 99999, 146097]
NEG_YEARS = [0, 0, -1, -1, -3, -4, -5, -99, -100, -399, -400, -401, -819, -820, -1999, -9998, -9999,
             -10000, -10001, -99999]
HUGE_YEARS = [2 ** 31 - 2, 2 ** 31 - 1, -(2 ** 31 - 2), 2500000, -2500000]
TZS = [None, None, None, 0, 0, 1, -1, 839, -839, 840, -840, -300, 300, 330, 60, -720]
IMPLICIT = [None, 'Z', '-05:00', '+05:30', '+14:00', '-14:00', '+00:01']
FRACS = ['', '', '', '.5', '.005', '.000001', '.999999', '.123456', '.05', '.1234567']
DAYTIME = ['PT0S', 'PT1S', '-PT1S', 'PT0.000001S', '-PT0.000001S', 'PT0.5S', '-PT0.5S', 'P1D', '-P1D', 'PT24H',
           'PT23H59M59.999999S', 'P365D', 'P366D', '-P365D', '-P366D', 'P1461D', 'P36524D', 'P36525D',
           'P146097D', '-P146097D', 'P146098D', 'P150000D', '-P150000D', 'P3652059D', '-P3652059D',
           'P3DT1H2M', '-P3DT1H2M', 'PT14H', '-PT14H', 'PT36H', 'P31D', 'P59D', 'P60D', 'P730119D', '-P730119D']
YEARMONTH = ['P0M', 'P1M', '-P1M', 'P2M', 'P11M', 'P12M', 'P13M', '-P13M', 'P1Y', '-P1Y', 'P4Y', '-P4Y',
             'P100Y', '-P100Y', 'P400Y', '-P400Y', 'P1Y1M', 'P10Y', '-P10Y', 'P2000Y', '-P2000Y', 'P9999Y',
             '-P9999Y', 'P10000Y', '-P10000Y', 'P6M', '-P6M', '-P2M', 'P25M', '-P25M']


def g_year(r):
    x = r.random()
    if x < 0.42:
        return r.choice(POS_YEARS)
    if x < 0.80:
        return r.choice(NEG_YEARS)
    if x < 0.84:
        return r.choice(HUGE_YEARS)
    if x < 0.92:
        return r.randint(1, 9999)
    if x < 0.96:
        return r.randint(-9999, 0)
    return r.choice((-1, 1)) * r.randint(10000, 2000000)


def g_monthday(r, y):
    x = r.random()
    if x < 0.25:
        m = r.randint(1, 12)
        return m, cal.days_in_month(y, m)
    if x < 0.40:
        return (2, 29) if cal.is_leap(y) else (2, 28)
    if x < 0.50:
        return 1, 1
    if x < 0.60:
        return 12, 31
    if x < 0.68:
        return 3, 1
    if x < 0.75:
        m = r.choice((1, 3, 5, 7, 8, 10, 12))
        return m, r.choice((29, 30, 31))
    m = r.randint(1, 12)
    return m, r.randint(1, cal.days_in_month(y, m))


def g_tz(r):
    if r.random() < 0.85:
        return r.choice(TZS)
    return r.randint(-840, 840)


def g_clock(r):
    x = r.random()
    if x < 0.25:
        return '00:00:00'
    if x < 0.33:
        return '24:00:00'
    if x < 0.45:
        return '23:59:59' + r.choice(FRACS)
    if x < 0.55:
        return '12:30:15' + r.choice(FRACS)
    return '%02d:%02d:%02d%s' % (r.randint(0, 23), r.randint(0, 59), r.randint(0, 59), r.choice(FRACS))


def g_text(r, kind, xsd, y=None, tz='any'):
    """a literal of `kind`; the year is an astronomical year rendered in the numbering of `xsd`"""
    if tz == 'any':
        tz = g_tz(r)
    if kind == 'time':
        return g_clock(r) + cal.fmt_tz(tz)
    if y is None:
        y = g_year(r)
    m, d = g_monthday(r, y)
    s = '%s-%02d-%02d' % (cal.fmt_year(y, xsd), m, d)
    if kind == 'dateTime':
        s += 'T' + g_clock(r)
    return s + cal.fmt_tz(tz)


def g_near_year(r, y):
    x = r.random()
    if x < 0.35:
        return y
    if x < 0.7:
        return y + r.choice((-1, 1))
    if x < 0.8:
        return y + r.choice((-4, 4, -100, 100, -400, 400))
    return g_year(r)


def g_pair(r, kind, xsd):
    """two literals, biased to be close on the timeline (same day / across a year boundary) and
    to mix timezone relations"""
    y = g_year(r)
    rel = r.choice(('none', 'same', 'diff', 'diff', 'mixed'))
    t1 = g_tz(r)
    if rel == 'none':
        t1 = t2 = None
    elif rel == 'same':
        if t1 is None:
            t1 = 0
        t2 = t1
    elif rel == 'diff':
        if t1 is None:
            t1 = 0
        t2 = g_tz(r)
        if t2 is None or t2 == t1:
            t2 = -t1 if t1 else 840
    else:
        t1, t2 = (None, g_tz(r) or 0) if r.random() < 0.5 else (g_tz(r) or 0, None)
    if kind == 'time':
        a = g_text(r, kind, xsd, tz=t1)
        b = a[:8] + cal.fmt_tz(t2) if r.random() < 0.2 else g_text(r, kind, xsd, tz=t2)
        return a, b
    x = r.random()
    if x < 0.3 and kind == 'dateTime':
        # year boundary: late on 31 Dec vs early on 1 Jan
        a = '%s-12-31T%s%s' % (cal.fmt_year(y, xsd), r.choice(('23:00:00', '12:00:00', '23:59:59.999999', '24:00:00')), cal.fmt_tz(t1))
        b = '%s-01-01T%s%s' % (cal.fmt_year(y + 1, xsd), r.choice(('00:00:00', '01:00:00', '00:00:00.000001', '13:00:00')), cal.fmt_tz(t2))
        if xsd == '1.0' and False:
            pass
        return (a, b) if r.random() < 0.5 else (b, a)
    if x < 0.4 and kind == 'date':
        a = '%s-12-31%s' % (cal.fmt_year(y, xsd), cal.fmt_tz(t1))
        b = '%s-01-01%s' % (cal.fmt_year(y + 1, xsd), cal.fmt_tz(t2))
        return (a, b) if r.random() < 0.5 else (b, a)
    a = g_text(r, kind, xsd, y, t1)
    if x < 0.55:
        # same civil date, other clock / zone
        b = a.split('T')[0] if kind == 'dateTime' else None
        if b is not None:
            b = b + 'T' + g_clock(r) + cal.fmt_tz(t2)
        else:
            b = a[:len(a) - len(cal.fmt_tz(t1))] + cal.fmt_tz(t2)
        return a, b
    return a, g_text(r, kind, xsd, g_near_year(r, y), t2)


def g_daytime(r):
    if r.random() < 0.8:
        return r.choice(DAYTIME)
    d, s = r.randint(0, 800000), r.randint(0, 86399)
    t = 'P%dDT%dS' % (d, s) if r.random() < 0.7 else 'P%dDT%d.%06dS' % (d, s, r.randint(1, 999999))
    return ('-' if r.random() < 0.5 else '') + t


def g_duration_any(r, sub):
    if sub == 'dayTime':
        return g_daytime(r)
    if sub == 'yearMonth':
        return r.choice(YEARMONTH)
    sign = '-' if r.random() < 0.4 else ''
    x = r.random()
    if x < 0.25:
        # N years against the day counts that N years can span from the four reference dates
        n = r.choice((1, 1, 2, 3, 4, 4, 5, 8, 100, 200, 300, 400))
        y = r.random()
        if y < 0.3:
            return '%sP%dY' % (sign, n)
        if y < 0.45:
            return '%sP%dM' % (sign, 12 * n + r.choice((0, 0, 1, -1)))
        lo = n * 365 + n // 4 - n // 100 + n // 400
        return '%sP%dD' % (sign, lo + r.choice((-2, -1, 0, 0, 1, 1, 2)))
    if x < 0.45:
        # N months against the shortest / longest span N months take from the four reference dates
        n = r.choice((1, 2, 3, 4, 5, 6, 7, 8, 9, 10, 11, 13, 14, 17, 18, 23, 24, 25, 30, 36, 48, 49))
        if r.random() < 0.45:
            return '%sP%dM' % (sign, n)
        spans = []
        for y, mo in ((1696, 9), (1697, 2), (1903, 3), (1903, 7)):
            spans.append(cal.days_from_civil(*cal.add_months((y, mo, 1, 0, 0, 0, 0, None), n)[:3])
                         - cal.days_from_civil(y, mo, 1))
        d = r.choice((min(spans) - 1, min(spans), max(spans), max(spans) + 1, r.choice(spans)))
        return '%sP%dD%s' % (sign, d, r.choice(('', '', 'T12H', 'T1S')))
    if x < 0.55:
        # around the month-length ambiguity: N months vs 28..31 * N days
        n = r.choice((1, 1, 2, 3, 12))
        if r.random() < 0.5:
            return '%sP%dM' % (sign, n)
        return '%sP%dD' % (sign, r.choice((27, 28, 29, 30, 31, 32, 58, 59, 60, 61, 62, 89, 90, 91, 92, 93, 364, 365, 366, 367)))
    if x < 0.7:
        return '%sP%dY%dM%dDT%dH' % (sign, r.randint(0, 3), r.randint(0, 13), r.randint(0, 40), r.randint(0, 30))
    return sign + r.choice(DAYTIME + YEARMONTH).lstrip('-')


def g_duration_pair(r, sub):
    if sub == 'any' and r.random() < 0.45:
        # the same N on both sides: N months against day counts at the edge of what N months can span
        n = r.choice((1, 2, 3, 4, 5, 6, 7, 8, 9, 10, 11, 12, 13, 14, 17, 18, 23, 24, 25, 30, 36, 48, 49, 1200, 4800))
        spans = []
        for y, mo in ((1696, 9), (1697, 2), (1903, 3), (1903, 7)):
            spans.append(cal.days_from_civil(*cal.add_months((y, mo, 1, 0, 0, 0, 0, None), n)[:3])
                         - cal.days_from_civil(y, mo, 1))
        d = r.choice((min(spans) - 1, min(spans), max(spans), max(spans) + 1, r.choice(spans)))
        sign = '-' if r.random() < 0.3 else ''
        pair = ['%sP%dM' % (sign, n), '%sP%dD%s' % (sign, d, r.choice(('', '', 'T12H', 'T1S')))]
        if r.random() < 0.5:
            pair.reverse()
        return pair
    return [g_duration_any(r, sub), g_duration_any(r, sub)]


XP_OPS = ['literal', 'component', 'component', 'compare', 'compare', 'compare', 'subtract', 'subtract',
          'add-dayTime', 'sub-dayTime', 'dayTime-add', 'inverse-dayTime', 'add-yearMonth', 'sub-yearMonth',
          'yearMonth-add', 'adjust', 'adjust']
ADJ_TARGETS = ['PT0S', 'PT5H', '-PT5H', 'PT14H', '-PT14H', 'PT13H59M', '-PT13H59M', 'PT1M', '-PT1M', 'PT5H30M',
               '-PT10H', 'PT10H']
ADJ_BAD = ['PT14H1M', '-PT15H', 'PT30S', 'PT1M30S', 'P1D']


def g_xpath(r):
    kind = r.choice(('dateTime', 'dateTime', 'date', 'date', 'time'))
    xsd = r.choice(('1.0', '1.1'))
    ver = r.choice(('2.0', '3.1'))
    op = r.choice(XP_OPS)
    if kind == 'time' and 'yearMonth' in op:
        op = 'add-dayTime'
    case = {'kind': kind, 'xsd': xsd, 'ver': ver, 'op': op, 'tz': r.choice(IMPLICIT), 'a': None}
    if r.random() < 0.08:
        case['ctx'] = False
    if op in ('compare', 'subtract'):
        case['a'], case['b'] = g_pair(r, kind, xsd)
        if tzrel_text(case['a'], case['b'], kind) == 'mixed' and case['tz'] is None and r.random() < 0.8:
            case['tz'] = r.choice(IMPLICIT[1:])
            case.pop('ctx', None)
        return case
    case['a'] = g_text(r, kind, xsd)
    if 'dayTime' in op:
        case['dur'] = g_daytime(r)
    elif 'yearMonth' in op:
        case['dur'] = r.choice(YEARMONTH)
    elif op == 'adjust':
        case['mode'] = r.choice(('implicit', 'empty', 'tz', 'tz', 'tz'))
        if case['mode'] == 'implicit' and case['tz'] is None and r.random() < 0.85:
            case['tz'] = r.choice(IMPLICIT[1:])
            case.pop('ctx', None)
        if case['mode'] == 'tz':
            case['target'] = r.choice(ADJ_BAD) if r.random() < 0.06 else r.choice(ADJ_TARGETS)
            if kind == 'date' and r.random() < 0.15:
                # shifts of a day or more
                case['a'] = g_text(r, kind, xsd, tz=r.choice((-840, -839, -720)))
                case['target'] = r.choice(('PT14H', 'PT13H59M', 'PT12H', 'PT10H'))
    return case


def tzrel_text(a, b, kind):
    def has(t):
        body = t[8:] if kind == 'time' else t[10:]
        return body.endswith('Z') or (len(body) >= 6 and body[-6] in '+-' and body[-3] == ':')
    ha, hb = has(a), has(b)
    return 'mixed' if ha != hb else 'x'


def run(h):
    r = h.rng
    # values: literal -> components, string, todelta / fromdelta, round trip
    for _ in range(h.n(9000)):
        kind = r.choice(('dateTime', 'dateTime', 'dateTime', 'date', 'date', 'time'))
        xsd = r.choice(('1.0', '1.1'))
        case = {'kind': kind, 'xsd': xsd, 'text': g_text(r, kind, xsd)}
        if kind == 'dateTime' and r.random() < 0.5:
            case['probe_us'] = r.choice((1, -1, 1000000, -1000000, 86400000000, -86400000000, 43200000000))
        h.case('value', case)
    # deliberately invalid / borderline literals
    bad = ['0000-01-01T00:00:00', '-0000-01-01T00:00:00', '2000-02-30T00:00:00', '1900-02-29T00:00:00',
           '2000-13-01T00:00:00', '2000-00-10T00:00:00', '2000-01-00T00:00:00', '2000-01-01T24:00:01',
           '2000-01-01T24:01:00', '2000-01-01T25:00:00', '2000-01-01T00:60:00', '2000-01-01T00:00:60',
           '02000-01-01T00:00:00', '200-01-01T00:00:00', '2000-01-01T00:00:00+14:01', '2000-01-01T00:00:00+15:00',
           '-0001-02-29T00:00:00', '0000-02-29T00:00:00', '-0004-02-29T00:00:00', '-0005-02-29T00:00:00',
           '-0100-02-29T00:00:00', '-0101-02-29T00:00:00', '-0400-02-29T00:00:00', '-0401-02-29T00:00:00',
           '10000-02-29T00:00:00', '10100-02-29T00:00:00', '10001-02-29T00:00:00', '12000-02-29T24:00:00',
           '-0001-12-31T24:00:00', '0000-12-31T24:00:00', '-0002-12-31T24:00:00', '10000-12-31T24:00:00',
           '9999-12-31T24:00:00', '0001-12-31T24:00:00', '-10000-12-31T24:00:00', '2000-02-29T24:00:00']
    for text in bad:
        for xsd in ('1.0', '1.1'):
            h.case('value', {'kind': 'dateTime', 'xsd': xsd, 'text': text})
            h.case('value', {'kind': 'date', 'xsd': xsd, 'text': text.split('T')[0]})
            h.case('xpath', {'kind': 'dateTime', 'xsd': xsd, 'ver': '2.0', 'op': 'literal', 'tz': None, 'a': text})
    # API arithmetic and comparison
    for _ in range(h.n(9000)):
        kind = r.choice(('dateTime', 'dateTime', 'dateTime', 'date', 'date', 'time'))
        xsd = r.choice(('1.0', '1.1'))
        case = {'kind': kind, 'xsd': xsd, 'a': None, 'b': None, 'dur': None, 'ym': None}
        x = r.random()
        if x < 0.45:
            case['a'], case['b'] = g_pair(r, kind, xsd)
        else:
            case['a'] = g_text(r, kind, xsd)
            if x < 0.78 or kind == 'time':
                case['dur'] = g_daytime(r)
            else:
                case['ym'] = r.choice(YEARMONTH)
        h.case('arith', case)
    # durations
    for _ in range(h.n(2500)):
        sub = r.choice(('dayTime', 'yearMonth', 'any', 'any'))
        d1, d2 = g_duration_pair(r, sub)
        h.case('duration', {'sub': sub, 'd1': d1, 'd2': d2})
    # XPath layer
    for _ in range(h.n(26000)):
        h.case('xpath', g_xpath(r))
    # values used twice
    texts = ['1999-12-31T22:00:00', '2000-01-01T00:30:00', '12000-01-01T00:00:00', '-0044-03-15T12:00:00', '2000-01-01T12:00:00',
             '2000-01-01T12:00:00+05:00', '1999-12-31T23:30:00-02:00', '10000-01-01T00:00:00Z', '0001-01-01T00:00:00']
    for _ in range(h.n(600)):
        text = r.choice(texts) if r.random() < 0.7 else g_text(r, 'dateTime', '1.0')
        h.case('reused', {'ver': r.choice(['2.0', '3.1']), 'xsd': r.choice(['1.0', '1.1']), 'tz': r.choice([None, '-05:00', '+05:00', 'Z']),
                          'text': text, 'e1': r.choice(REUSE_FIRST), 'e2': r.choice(REUSE_THEN)})


def floors(v):
    reasons = []
    if v.got('reused_value') < 300:
        reasons.append('fewer than 300 values used twice')
    if v.got('oracle_comparisons', 'model') < 20000:
        reasons.append('fewer than 20000 engine results compared with the calendar model')
    for cls in ('ce', 'big', 'bce1', 'bce'):
        if v.got('value_year_class', cls) < 100:
            reasons.append('fewer than 100 %s values checked for todelta/fromdelta' % cls)
    for op in ('compare', 'subtract', 'add-dayTime', 'sub-dayTime', 'add-yearMonth', 'adjust', 'component', 'literal'):
        if sum(v.got('xpath_op', '%s/%s' % (op, k)) for k in KINDS) < 100:
            reasons.append('XPath operation %s evaluated fewer than 100 times' % op)
    for cfg in ('xpath2.0/xsd1.0', 'xpath2.0/xsd1.1', 'xpath3.1/xsd1.0', 'xpath3.1/xsd1.1'):
        if sum(v.got('xpath_config', '%s/%s' % (cfg, t)) for t in ('implicit-tz', 'no-tz', 'no-context')) < 300:
            reasons.append('configuration %s evaluated fewer than 300 times' % cfg)
        if v.got('xpath_config', cfg + '/implicit-tz') < 100:
            reasons.append('configuration %s with implicit timezone evaluated fewer than 100 times' % cfg)
    if v.got('ym_clamp', 'clamped') < 100:
        reasons.append('fewer than 100 yearMonthDuration additions needed day clamping')
    for rel in ('eq', 'lt', 'gt'):
        if v.got('compare_relation', rel) < 100:
            reasons.append('comparison relation %s seen fewer than 100 times' % rel)
    if v.got('duration_order') < 500:
        reasons.append('fewer than 500 duration comparisons')
    return reasons
