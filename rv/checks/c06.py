"""C06 - numeric operators and rounding functions follow F&O arithmetic.

Every case is one expression  `A op B`,  `op A`  or  `fn(A[, P])`  evaluated with elementpath.select and
compared (value, dynamic type, error code) with the reference model rv/models/numeric.py, which is a
transcription of F&O section 4 over exact rationals / correctly rounded binary32/binary64.
"""
import math
import xml.etree.ElementTree as ET
from decimal import Decimal
from fractions import Fraction

from ..core import Outcome
from ..engine import call, xselect, type_label, PARSERS
from ..models import numeric as M
from ..models.numeric import Num

from elementpath.datatypes import Float
from elementpath import XPathContext

PROPERTY = 'C06'
LEVEL = 'exploration'
RULE = ('cross product of per-type boundary pools (xs:integer, xs:decimal, xs:float, xs:double: zero, -0.0, '
        '+-small, ties, fractional, huge, tiny, INF, NaN) x 6 binary operators, plus unary +/- and '
        'abs/floor/ceiling/round/round-half-to-even with precision -3..3 (and a few large ones), plus random '
        'pairs; each operand rendered as literal, constructor call, variable or untyped attribute; parsers '
        '1.0 (doubles only), 2.0, 3.0, 3.1. A case is non-trivial when the specification fixes its outcome '
        '(not counted under oracle=undecided:*); distinct by canonical JSON (operator, operands, forms, version).')
ASSUMPTIONS = [
    'rv/models/numeric.py (exact rationals, correctly rounded binary32/64) is a faithful transcription of F&O 4.2-4.4',
    'xs:decimal results needing more than 18 significant digits are compared to a relative error of 1e-17 only',
    'float/double overflow may be INF or FOAR0002, underflow and NaN-vs-error for idiv(INF,0) are left undecided',
    'the sign of an exact zero remainder of float/double mod with a non-zero dividend is not checked',
    'idiv on float/double is decided only where the F&O 2.0 and 3.1 definitions agree',
    'XPath 1.0 operands are doubles; an int/Decimal result is accepted when its nearest double is the expected double',
]

VERSIONS = ('2.0', '3.0', '3.1')
BINOPS = ('+', '-', '*', 'div', 'idiv', 'mod')
FUNCS = ('neg', 'pos', 'abs', 'floor', 'ceiling', 'round', 'rhe')
FN_NAME = {'abs': 'abs', 'floor': 'floor', 'ceiling': 'ceiling', 'round': 'round', 'rhe': 'round-half-to-even'}

CORE = {
    'integer': ['0', '1', '-1', '2', '-2', '3', '-3', '5', '-5', '6', '-6', '7', '-7'],
    'decimal': ['0.0', '0.5', '-0.5', '1.5', '-1.5', '2.5', '-2.5', '3.0', '-3.0', '6.0', '-6.0', '6.5', '-6.5'],
    'float': ['0', '-0', '1', '-1', '0.5', '-0.5', '2.5', '-2.5', '3', '-3', '6', '-6', '6.5', '-6.5',
              'INF', '-INF', 'NaN'],
    'double': ['0', '-0', '1', '-1', '0.5', '-0.5', '2.5', '-2.5', '3', '-3', '6', '-6', '6.5', '-6.5',
               'INF', '-INF', 'NaN'],
}
EXT = {
    'integer': ['10', '-10', '15', '25', '-15', '-25', '35', '1250', '-1250', '1350', '12345', '-12345',
                '9223372036854775807', '-9223372036854775809', '18446744073709551616',
                '1000000000000000000000000000000', '-1000000000000000000000000000000', '4', '-4', '100', '-100'],
    'decimal': ['0.1', '-0.1', '0.2', '0.3', '0.0000001', '-0.0000001', '12345.678', '-12345.678', '2.45', '-2.45',
                '0.125', '-0.125', '0.05', '-0.05', '0.04', '-0.04', '1.0', '-1.0', '2.0', '-2.0', '7.0', '-7.0',
                '4.0', '-4.0', '1000000000000000000000000000000.5', '-1000000000000000000000000000000.5',
                '9223372036854775807.5', '0.123456789012345678', '1250.0', '-1250.0', '0.7', '-0.7'],
    'float': ['2', '-2', '5', '-5', '7', '-7', '1.5', '-1.5', '0.1', '-0.1', '0.25', '0.125', '-0.125',
              '1e10', '-1e10', '1e-19', '5e-19', '-5e-19', '3.4028235e38', '-3.4028235e38', '1e38', '16777216',
              '16777217', '1250', '-1250', '0.04', '-0.04', '2.45', '4', '-4'],
    'double': ['2', '-2', '5', '-5', '7', '-7', '1.5', '-1.5', '0.1', '-0.1', '0.2', '0.3', '0.7', '1e-7', '-1e-7',
               '1e300', '-1e300', '1e-300', '-1e-300', '4.9e-324', '1.7976931348623157e308',
               '-1.7976931348623157e308', '9007199254740993', '-9007199254740992', '1e30', '-1e30', '2.45', '-2.45',
               '0.125', '-0.125', '0.04', '-0.04', '1250', '-1250', '4503599627370496.5', '4503599627370495.5',
               '0.49999999999999994', '-0.49999999999999994', '1e22', '4', '-4'],
}
# XPath 1.0: only doubles; literals are written in plain decimal notation
V1_POOL = ['0', '-0', '1', '-1', '2', '-2', '3', '-3', '5', '-5', '6', '-6', '7', '-7', '0.5', '-0.5', '1.5', '-1.5',
           '2.5', '-2.5', '6.5', '-6.5', '0.1', '0.2', '-0.1', '0.7', '1250', '10', '-10', '12345.678', '0.04', '-0.04',
           '1000000000000000000000000000000', '9007199254740993', 'INF', '-INF', 'NaN', '1e300', '1e-300', '4.9e-324']
PRECISIONS = [None, None, 0, 1, 2, 3, -1, -2, -3, 1, -2]
BIG_PRECISIONS = [10, -10, 20, -20, 30, -30, 400, -400]


ANCHORS = [
    ('binop', {'v': '2.0', 'op': '*', 'a': ['float', '1e-19'], 'b': ['float', '5e-19'], 'fa': 'var', 'fb': 'var'}),
    ('binop', {'v': '3.1', 'op': 'div', 'a': ['float', '5e-19'], 'b': ['float', '1e19'], 'fa': 'var', 'fb': 'var'}),
    ('binop', {'v': '2.0', 'op': 'idiv', 'a': ['integer', '-6'], 'b': ['integer', '2'], 'fa': 'lit', 'fb': 'lit'}),
    ('binop', {'v': '2.0', 'op': 'idiv', 'a': ['double', '1'], 'b': ['double', '4.9e-324'], 'fa': 'lit', 'fb': 'var'}),
    ('binop', {'v': '2.0', 'op': 'idiv', 'a': ['decimal', '0.0'], 'b': ['decimal', '0.0'], 'fa': 'lit', 'fb': 'lit'}),
    ('binop', {'v': '2.0', 'op': 'idiv', 'a': ['double', '1.9163834914575274e+17'], 'b': ['double', '-11.338'],
               'fa': 'var', 'fb': 'lit'}),
    ('binop', {'v': '2.0', 'op': 'idiv', 'a': ['double', '-1.9163834914575274e+17'], 'b': ['double', '11.338'],
               'fa': 'var', 'fb': 'lit'}),
    ('binop', {'v': '2.0', 'op': 'idiv', 'a': ['decimal', '1000000000000000000000000000000.5'],
               'b': ['decimal', '0.5'], 'fa': 'lit', 'fb': 'lit'}),
    ('binop', {'v': '2.0', 'op': 'mod', 'a': ['decimal', '1000000000000000000000000000000.5'],
               'b': ['decimal', '2.5'], 'fa': 'lit', 'fb': 'lit'}),
    ('binop', {'v': '2.0', 'op': 'mod', 'a': ['integer', '5'], 'b': ['integer', '-3'], 'fa': 'lit', 'fb': 'lit'}),
    ('binop', {'v': '2.0', 'op': 'mod', 'a': ['double', '-6.5'], 'b': ['integer', '4'], 'fa': 'lit', 'fb': 'lit'}),
    ('binop', {'v': '2.0', 'op': 'mod', 'a': ['float', '5'], 'b': ['integer', '0'], 'fa': 'ctor', 'fb': 'lit'}),
    ('binop', {'v': '2.0', 'op': 'div', 'a': ['double', 'NaN'], 'b': ['double', '0'], 'fa': 'ctor', 'fb': 'lit'}),
    ('binop', {'v': '2.0', 'op': 'div', 'a': ['float', 'NaN'], 'b': ['integer', '0'], 'fa': 'ctor', 'fb': 'lit'}),
    ('binop', {'v': '1.0', 'op': 'mod', 'a': ['double', '1'], 'b': ['double', '-7'], 'fa': 'lit', 'fb': 'lit'}),
    ('binop', {'v': '1.0', 'op': 'mod', 'a': ['double', 'INF'], 'b': ['double', '0'], 'fa': 'var', 'fb': 'lit'}),
    ('unary', {'v': '3.1', 'fn': 'round', 'a': ['double', '7'], 'fa': 'attr', 'p': 30, 'fp': 'lit'}),
    ('unary', {'v': '3.1', 'fn': 'round', 'a': ['integer', '-15'], 'fa': 'lit', 'p': -1, 'fp': 'lit'}),
    ('unary', {'v': '2.0', 'fn': 'round', 'a': ['double', '1e30'], 'fa': 'lit'}),
    ('unary', {'v': '2.0', 'fn': 'rhe', 'a': ['decimal', '0.2'], 'fa': 'lit', 'p': 30, 'fp': 'lit'}),
]


# ------------------------------------------------------------------ rendering
def plain_decimal(lex):
    return 'e' not in lex.lower() and lex not in ('INF', '-INF', 'NaN')


def allowed_forms(ver, t, lex):
    """operand forms that are syntactically available for this value in this language version"""
    special = lex in ('INF', '-INF', 'NaN')
    if ver == '1.0':
        forms = ['var']
        if plain_decimal(lex):
            forms.append('attr')
            if lex != '-0' and len(lex) <= 12:   # the literal -0 is held as the int 0: -0.0 needs a double
                forms.append('lit')
        return forms
    if t == 'float' and not special and Fraction(M.to_single(Fraction(lex))) != Fraction(lex):
        return ['var']      # xs:float('0.1') is a lexical-mapping matter (C10): pass the binary32 value itself
    forms = ['ctor', 'var']
    if t in ('integer', 'decimal') or (t == 'double' and not special):
        forms.append('lit')
    if t == 'double':
        forms.append('attr')
    return forms


def py_value(t, lex):
    n = M.parse(t, lex)
    if t == 'integer':
        return n.v
    if t == 'decimal':
        return Decimal(lex)
    if t == 'double':
        return n.v
    return Float(n.v)


def render(ver, t, lex, form, name, variables, attrs):
    if form == 'var':
        variables[name] = py_value('double' if ver == '1.0' else t, lex)
        return '$' + name
    if form == 'attr':
        attrs[name] = lex
        return '@' + name
    if form == 'ctor':
        return "xs:%s('%s')" % (t, lex)
    # literal
    neg = lex.startswith('-')
    body = lex[1:] if neg else lex
    if ver != '1.0':
        if t == 'double' and 'e' not in body.lower():
            body += 'e0'
        elif t == 'decimal' and '.' not in body:
            body += '.0'
    return ('-' + body) if neg else body


def run_expr(ver, expr, variables, attrs):
    if attrs:
        root = ET.Element('r')
        for k in sorted(attrs):
            root.set(k, attrs[k])
        return call(xselect, expr, ver, root=root, variables=variables or None)
    return call(xselect, expr, ver, root=None, item=1, variables=variables or None)


# ------------------------------------------------------------------ comparison
def engine_num(v):
    """engine result -> (type label, comparable value) or (None, reason)"""
    if isinstance(v, list):
        if len(v) == 1:
            v = v[0]
        else:
            return None, 'sequence-of-%d' % len(v)
    if isinstance(v, bool):
        return None, 'boolean'
    if isinstance(v, int):
        lab = type_label(v)
        return ('integer' if lab == 'integer' else lab), int(v)
    if isinstance(v, Float):
        return 'float', float(v)
    if isinstance(v, float):
        return 'double', float(v)
    if isinstance(v, Decimal):
        if not v.is_finite():
            return None, 'non-finite-decimal'
        return 'decimal', Fraction(v)
    return None, 'type:' + type(v).__name__


def same_float(x, y, free_zero_sign=False):
    if x != x or y != y:
        return x != x and y != y
    if x == 0 and y == 0:
        return free_zero_sign or M.neg_zero(x) == M.neg_zero(y)
    return x == y


def value_matches(exp, e, gt, gv, inexact_float_operands=False):
    """-> None if equal, else the kind of difference.  gt/gv from engine_num; e = Num expected"""
    if e.t in ('integer', 'decimal'):
        if isinstance(gv, float):
            if gv != gv or abs(gv) == math.inf:
                return 'value'
            gv = Fraction(gv)
        ev = Fraction(e.v)
        if gv == ev:
            return None
        if exp.approx and abs(Fraction(gv) - ev) <= exp.approx:
            return None
        return 'value'
    # float / double expected
    if not isinstance(gv, float):
        if e.v != e.v or abs(e.v) == math.inf:
            return 'value'
        return None if (Fraction(gv) == Fraction(e.v) and not (e.v == 0 and M.neg_zero(e.v))) else (
            'zero-sign' if gv == 0 and e.v == 0 else 'value')
    if same_float(gv, e.v, exp.free_zero_sign):
        return None
    if gv == 0 and e.v == 0:
        return 'zero-sign'
    if e.t == 'float' and gv == gv and e.v == e.v:
        g32 = M.single_of_double(gv)
        if same_float(g32, e.v, exp.free_zero_sign):
            return 'float-extra-precision'
        if inexact_float_operands and e.v != 0 and abs(e.v) != math.inf and abs(g32) != math.inf \
                and abs(g32 - e.v) <= abs(e.v) * 2.0 ** -21:
            return 'float-extra-precision'
    return 'value'


def judge(exp, outcome, inexact_float_operands=False, alt=None):
    """-> (what, got_text); what None when the outcome is acceptable"""
    if outcome[0] == 'exc':
        return 'exception:%s@%s' % (outcome[1], outcome[2]), 'raised %s' % outcome[1]
    if outcome[0] == 'err':
        for a in exp.accept:
            if a[0] == 'err' and a[1] == outcome[1]:
                return None, outcome[1]
        if outcome[1] in ('XPTY0004', 'FORG0006', 'XPST0017', 'XPST0003', ''):
            return 'type-error:%s' % (outcome[1] or 'none'), outcome[1]
        if exp.accept[0][0] == 'err':
            return 'error-code:%s-for-%s' % (outcome[1], exp.accept[0][1]), outcome[1]
        return 'unexpected-error:%s' % outcome[1], outcome[1]
    gt, gv = engine_num(outcome[1])
    if gt is None:
        return 'result:' + gv, repr(outcome[1])[:80]
    got = '%s(%s)' % (gt, num_text(gv))
    worst = None
    for a in exp.accept:
        if a[0] != 'val':
            continue
        e = a[1]
        d = value_matches(exp, e, gt, gv, inexact_float_operands)
        if gt == e.t:
            if d is None:
                return None, got
            w = d
        else:
            w = 'type'
        if worst is None:
            worst = w
    if worst is None:
        return 'missing-error:%s' % exp.accept[0][1], got
    if alt is not None and worst in ('value', 'zero-sign'):
        # xs:float arithmetic carried out in double precision (the result is typed xs:float but is not a
        # binary32 value, or xs:integer for idiv): one mechanism whatever the operator
        for a in alt.accept:
            if a[0] == 'val' and ((gt == 'float' and a[1].t == 'double') or (gt == 'integer' and a[1].t == gt)) \
                    and value_matches(alt, a[1], a[1].t, gv) is None:
                return 'float-extra-precision', got
    e0 = exp.accept[0][1] if exp.accept[0][0] == 'val' else None
    if e0 is not None and e0.t == 'float' and gt == 'float' and gv == 0 and e0.v != 0 and abs(e0.v) < 1e-37:
        return 'float-flushed-to-zero', got
    return worst, got


def num_text(gv):
    if isinstance(gv, Fraction):
        return M.frac_text(gv)
    if isinstance(gv, float):
        return M.text(Num('double', gv))
    return str(gv)[:60]


def expect_text(exp):
    if exp.undecided:
        return 'undecided(%s)' % exp.undecided
    return ' | '.join(repr(a[1]) if a[0] == 'val' else a[1] for a in exp.accept) + \
        (' ~18 digits' if exp.approx else '')


# ------------------------------------------------------------------ classification
def sgn(n):
    if M.is_nan(n):
        return '?'
    if n.v == 0:
        if M.is_float_type(n.t) and M.neg_zero(n.v):
            return 'z-'
        return 'z'
    return 'p' if n.v > 0 else 'n'


def bin_class(op, a, b):
    """class of an operand pair (a, b already promoted to the common type)"""
    if op in ('div', 'idiv', 'mod') and b.v == 0:
        return 'nan-by-zero' if M.is_nan(a) else 'inf-by-zero' if M.is_inf(a) else 'zero-divisor'
    if M.is_nan(a) or M.is_nan(b):
        return 'nan'
    if op in ('div', 'idiv', 'mod'):
        if a.v == 0:
            return 'zero-dividend'
        if M.is_inf(a):
            return 'inf-dividend'
        if M.is_inf(b):
            return 'inf-divisor'
        if op == 'mod' and M.is_float_type(a.t):
            return sgn(a) + sgn(b)
        q = M.exact(a) / M.exact(b)
        return sgn(a) + sgn(b) + ('-exact' if q.denominator == 1 else '-inexact')
    if M.is_inf(a) or M.is_inf(b):
        return 'inf'
    if a.v == 0 or b.v == 0:
        return 'zero'
    big = max(abs(M.exact(a)), abs(M.exact(b)))
    small = min(abs(M.exact(a)), abs(M.exact(b)))
    if big >= 2 ** 53 or small < Fraction(1, 10 ** 6):
        return 'extreme'
    return 'finite'


def p_class(p):
    if p is None or p == 0:
        return 'p0'
    if abs(p) > 9:
        return 'p-big'
    return 'p-pos' if p > 0 else 'p-neg'


def un_class(fn, a, p):
    if M.is_nan(a):
        c = 'nan'
    elif M.is_inf(a):
        c = 'inf'
    elif a.v == 0:
        c = 'zero-neg' if sgn(a) == 'z-' else 'zero'
    elif fn in ('round', 'rhe') and (abs(M.exact(a)) >= 10 ** 24 or p_class(p) == 'p-big'):
        return 'beyond-decimal-context'      # value digits + precision exceed a 28-digit decimal context
    else:
        c = 'pos' if a.v > 0 else 'neg'
        if fn in ('round', 'rhe') and p_class(p) == 'p-neg':
            x = M.exact(a) * Fraction(10) ** p
            fr = x - M.floor_(x)
            c = 'tie' if fr == Fraction(1, 2) else 'exact' if fr == 0 else 'other'
        elif fn in ('round', 'rhe'):
            x = M.exact(a) * Fraction(10) ** (p or 0)
            fr = x - M.floor_(x)
            if fr == Fraction(1, 2):
                c += '-tie'
            elif fr == 0:
                c += '-exact'
            if abs(x) < Fraction(1, 2) or (abs(x) == Fraction(1, 2) and (fn == 'rhe' or x < 0)):
                c += '-to-zero'
        elif fn in ('floor', 'ceiling'):
            x = M.exact(a)
            if x.denominator == 1:
                c += '-exact'
            elif (fn == 'ceiling' and -1 < x < 0) or (fn == 'floor' and 0 < x < 1):
                c += '-to-zero'
    if fn in ('round', 'rhe'):
        c += '/' + p_class(p)
    return c


def coarse(cls):
    """operand class used in keys about types / errors / exceptions (the value class is irrelevant there)"""
    head = cls.partition('/')[0]
    if head in ('nan', 'inf'):
        return 'special'
    if head in ('inf-by-zero', 'nan-by-zero', 'zero-divisor'):
        return 'zero-divisor'
    if head in ('inf-dividend', 'inf-divisor', 'beyond-decimal-context'):
        return head
    return 'finite'


def ktype(t):
    return 'floating' if t in ('float', 'double') else t


def make_key(prefix, op, t, cls, what):
    if what == 'float-extra-precision':
        return 'C06/float/computed-in-double-precision'
    if what == 'float-flushed-to-zero':
        return 'C06/float/small-normal-result-flushed-to-zero'
    if what == 'exact-arithmetic-instead-of-double':
        return 'C06/xpath1/literal-arithmetic-exact-instead-of-double'
    tpart = '' if prefix != 'C06/' else ktype(t) + '/'
    if what.startswith('type-error:'):
        return '%s%s/%s%s' % (prefix, op, tpart, what)
    if what in ('value', 'zero-sign'):
        return '%s%s/%s%s/%s' % (prefix, op, tpart, cls, what)
    if what == 'type':
        c = coarse(cls)
        return '%s%s/%stype' % (prefix, op, '' if c in ('finite', 'special') else c + '/')
    return '%s%s/%s%s/%s' % (prefix, op, tpart, coarse(cls), what)


# ------------------------------------------------------------------ cases
def operand_nums(ver, case_operand, form):
    t, lex = case_operand
    if ver == '1.0' or form == 'attr':
        return M.parse('double', lex), 'double'
    return M.parse(t, lex), t


def float_inexact(t, lex, form):
    """xs:float operand whose lexical form is not a binary32 value (the engine keeps the double)"""
    if t != 'float' or form == 'var' or lex in ('INF', '-INF', 'NaN'):
        return False
    return Fraction(M.to_single(Fraction(lex))) != Fraction(lex)


def as_double(n):
    return Num('double', n.v) if n.t == 'float' else n


def short(outcome):
    if outcome[0] == 'ok':
        gt, gv = engine_num(outcome[1])
        if gt is None:
            return gv
        return '%s %s' % (gt, num_text(gv))
    return '%s %s' % (outcome[0], outcome[1])


def same_outcome(o1, o2):
    if o1[0] != o2[0]:
        return False
    if o1[0] != 'ok':
        return o1[1:] == o2[1:]
    a, b = engine_num(o1[1]), engine_num(o2[1])
    if a[0] != b[0]:
        return False
    if isinstance(a[1], float) and isinstance(b[1], float):
        return same_float(a[1], b[1])
    return a[1] == b[1]


def generic_prefix(ver, outcome, template, nums, extra=None):
    """An XPath 1.0 / untyped-operand failure that reproduces with the same double values passed as typed
    variables to the 2.0 parser is the generic mechanism, not a 1.0- or untyped-specific one."""
    variables = dict(extra or {})
    names = []
    for i, n in enumerate(nums):
        name = 'v%d' % i
        if n.t == 'decimal':
            variables[name] = Decimal(M.frac_text(n.v))
        elif n.t == 'float':
            variables[name] = Float(n.v)
        else:
            variables[name] = n.v
        names.append('$' + name)
    o2 = run_expr('2.0' if ver == '1.0' else ver, template % tuple(names), variables, {})
    return same_outcome(outcome, o2)


def settle(out, exp, outcome, ver, expr, prefix, op, t, cls, inexact=False, alt=None, v1_exact=None, rerun=None):
    """compare one outcome with the model's expectation, record dims / failure. -> True when acceptable"""
    out.dim('engine_outcome', outcome[0] if outcome[0] != 'err' else 'err:' + (outcome[1] or 'none'))
    if exp.undecided:
        out.dim('oracle', 'undecided:' + exp.undecided)
        out.nontrivial = False
        if outcome[0] == 'exc':
            out.fail(make_key(prefix, op, t, cls, 'exception:%s@%s' % (outcome[1], outcome[2])),
                     {'expr': expr, 'version': ver, 'expected': expect_text(exp), 'got': 'raised ' + outcome[1]})
            return False
        return True
    out.dim('oracle', 'decided' + (':approx' if exp.approx else '') + (':alternatives' if len(exp.accept) > 1 else ''))
    out.dim('comparisons', 'model-vs-engine')
    if ver == '1.0':
        what, got = judge_v1(exp, outcome, v1_exact)
    else:
        what, got = judge(exp, outcome, inexact, alt)
    if what is None:
        if outcome[0] == 'ok' and isinstance(outcome[1], Decimal) and outcome[1].is_zero() and outcome[1].is_signed():
            out.dim('note', 'decimal-negative-zero-result')
        return True
    if prefix != 'C06/' and rerun is not None and rerun(outcome):
        prefix = 'C06/'
        out.dim('note', 'specific-form-failure-reproduced-with-typed-variables')
    if what == 'exact-arithmetic-instead-of-double':
        # XPath 1.0 decimal literals are evaluated exactly (as xs:decimal) instead of as doubles: a
        # representation choice of the 1.0 parser that the property (typed F&O operands) does not cover
        out.dim('undecided', 'xpath1-decimal-literal-evaluated-exactly')
        return True
    out.fail(make_key(prefix, op, t, cls, what),
             {'expr': expr, 'version': ver, 'expected': expect_text(exp), 'got': got})
    return False


def judge_v1(exp, outcome, v1_exact):
    """XPath 1.0: every number is a double; the library may hold it as int/Decimal/float."""
    if outcome[0] != 'ok':
        return judge(exp, outcome)
    gt, gv = engine_num(outcome[1])
    if gt is None:
        return 'result:' + gv, repr(outcome[1])[:80]
    e = exp.accept[0][1] if exp.accept[0][0] == 'val' else None
    got = short(outcome)
    if e is None:
        return 'missing-error:%s' % exp.accept[0][1], got
    if isinstance(gv, float):
        if same_float(gv, e.v, exp.free_zero_sign):
            return None, got
        if gv == 0 and e.v == 0:
            return 'zero-sign', got
        return 'value', got
    # int / Decimal held by the library
    if e.v == e.v and abs(e.v) != math.inf:
        if M.to_double(Fraction(gv)) == e.v:
            return None, got      # the sign of zero cannot be observed on int/Decimal
        if v1_exact is not None:
            ex = v1_exact()
            if ex is not None and not ex.undecided and ex.accept[0][0] == 'val':
                ev = Fraction(ex.accept[0][1].v)
                if ev == Fraction(gv) or (ev != 0 and abs(Fraction(gv) - ev) <= abs(ev) * Fraction(1, 10 ** 17)):
                    return 'exact-arithmetic-instead-of-double', got
    return 'value', got


def v1_exact(fn):
    def f():
        try:
            return fn()
        except (ValueError, ZeroDivisionError, OverflowError):
            return None
    return f


def check_binop(case, out):
    ver, op = case['v'], case['op']
    fa, fb = case['fa'], case['fb']
    variables, attrs = {}, {}
    ea = render(ver, case['a'][0], case['a'][1], fa, 'a', variables, attrs)
    eb = render(ver, case['b'][0], case['b'][1], fb, 'b', variables, attrs)
    expr = '%s %s %s' % (ea, op, eb)
    a, ta = operand_nums(ver, case['a'], fa)
    b, tb = operand_nums(ver, case['b'], fb)
    exp = M.binary(op, a, b)
    outcome = run_expr(ver, expr, variables, attrs)
    ptype = M.common_type(a, b)
    cls = bin_class(op, M.promote(a, ptype), M.promote(b, ptype))
    if op == 'mod' and M.is_inf(b) and M.is_nan(a):
        cls = 'inf-divisor'
    out.dim('operator', op)
    out.dim('type_pair', 'number,number' if ver == '1.0' else '%s,%s' % (
        'untyped' if fa == 'attr' else ta, 'untyped' if fb == 'attr' else tb))
    out.dim('operator_x_type', '%s:%s' % (op, ptype))
    out.dim('form_pair', '%s,%s' % (fa, fb))
    out.dim('version', ver)
    out.dim('class:' + op, cls)
    prefix = 'C06/xpath1/' if ver == '1.0' else 'C06/untyped/' if 'attr' in (fa, fb) else 'C06/'
    inexact = float_inexact(case['a'][0], case['a'][1], fa) or float_inexact(case['b'][0], case['b'][1], fb)
    alt = M.binary(op, as_double(a), as_double(b)) if 'float' in (ta, tb) else None
    rerun = None
    if prefix != 'C06/':
        rerun = lambda o: generic_prefix(ver, o, '%s ' + op + ' %s', [a, b])   # noqa: E731
    ok = settle(out, exp, outcome, ver, expr, prefix, op, ptype, cls, inexact, alt,
                v1_exact(lambda: M.binary(op, M.parse('decimal', case['a'][1]), M.parse('decimal', case['b'][1])))
                if ver == '1.0' else None, rerun)
    out.obs = '%s -> %s' % (expr, short(outcome))
    return ok, exp


def check_unary(case, out):
    ver, fn = case['v'], case['fn']
    fa = case['fa']
    p = case.get('p')
    variables, attrs = {}, {}
    ea = render(ver, case['a'][0], case['a'][1], fa, 'a', variables, attrs)
    if fn in ('neg', 'pos'):
        sym = '-' if fn == 'neg' else '+'
        template = sym + '(%s)'
    elif p is None:
        template = FN_NAME[fn] + '(%s)'
    else:
        fp = case.get('fp', 'lit')
        if fp == 'var':
            variables['p'] = p
            ep = '$p'
        elif fp == 'ctor':
            ep = "xs:integer('%d')" % p
        else:
            ep = str(p)
        template = '%s(%%s, %s)' % (FN_NAME[fn], ep)
    if fn in ('neg', 'pos') and not ea.startswith('-'):
        expr = sym + ea
    else:
        expr = template % ea
    a, ta = operand_nums(ver, case['a'], fa)
    exp = M.unary(fn, a, p)
    outcome = run_expr(ver, expr, variables, attrs)
    cls = un_class(fn, a, p)
    name = {'neg': 'unary-minus', 'pos': 'unary-plus', 'rhe': 'round-half-to-even'}.get(fn, fn)
    if fn == 'round' and ver in ('3.0', '3.1'):
        name = 'round@3'
    out.dim('operator', name)
    out.dim('operator_x_type', '%s:%s' % (name, ta))
    out.dim('arg_type', 'number' if ver == '1.0' else 'untyped' if fa == 'attr' else ta)
    out.dim('form', fa)
    out.dim('version', ver)
    out.dim('class:' + name, cls)
    if fn in ('round', 'rhe'):
        out.dim('precision', 'none' if p is None else p)
    prefix = 'C06/xpath1/' if ver == '1.0' else 'C06/untyped/' if fa == 'attr' else 'C06/'
    inexact = float_inexact(case['a'][0], case['a'][1], fa)
    alt = M.unary(fn, as_double(a), p) if ta == 'float' else None
    rerun = None
    if prefix != 'C06/':
        rerun = lambda o: generic_prefix(ver, o, template, [a], {'p': p} if '$p' in template else None)  # noqa
    v1x = None
    if ver == '1.0' and fa == 'lit':
        v1x = v1_exact(lambda: M.unary(fn, M.parse('decimal', case['a'][1]), p))
    ok = settle(out, exp, outcome, ver, expr, prefix, name, ta, cls, inexact, alt, v1x, rerun)
    out.obs = '%s -> %s' % (expr, short(outcome))
    return ok


def check_law(case, out):
    """a = (a idiv b) * b + (a mod b)   (engine only), for finite integer/decimal pairs"""
    ver = case['v']
    sub = {'v': ver, 'a': case['a'], 'b': case['b'], 'fa': case['fa'], 'fb': case['fb']}
    o1, o2 = Outcome(), Outcome()
    ok1, _ = check_binop(dict(sub, op='idiv'), o1)
    ok2, _ = check_binop(dict(sub, op='mod'), o2)
    out.fails.extend(o1.fails)
    out.fails.extend(o2.fails)
    out.dims.extend(o1.dims)
    out.dims.extend(o2.dims)
    variables, attrs = {}, {}
    ea = render(ver, case['a'][0], case['a'][1], case['fa'], 'a', variables, attrs)
    eb = render(ver, case['b'][0], case['b'][1], case['fb'], 'b', variables, attrs)
    expr = '(%s idiv %s) * %s + (%s mod %s)' % (ea, eb, eb, ea, eb)
    a = M.parse(*case['a'])
    b = M.parse(*case['b'])
    outcome = run_expr(ver, expr, variables, attrs)
    out.dim('operator', 'law:idiv-mod')
    out.dim('law_type_pair', '%s,%s' % (a.t, b.t))
    out.obs = '%s -> %s' % (expr, short(outcome))
    ptype = M.common_type(a, b)
    if b.v == 0:
        exp = M.err('FOAR0001')
    else:
        exp = M.val(ptype, M.exact(a) if ptype == 'decimal' else a.v)
    what, got = judge(exp, outcome)
    out.dim('comparisons', 'law')
    if what is None:
        out.dim('law', 'holds')
        return
    if not (ok1 and ok2):
        out.dim('law', 'broken:explained-by-idiv-or-mod-finding')
        return
    out.dim('law', 'broken')
    out.fail('C06/law/idiv-mod-identity/%s/%s' % (ptype, what.split(':')[0]),
             {'expr': expr, 'version': ver, 'expected': expect_text(exp), 'got': got})


def check_reuse(case, out):
    """one parsed expression over variables, evaluated with several bindings in turn (a `for` body, a path step, a
    reused Selector): every evaluation must give what a fresh parse gives for the same bindings (the values
    themselves are judged by the other kinds)"""
    ver, expr, sets = case['v'], case['expr'], case['sets']
    out.dim('reuse_expression', expr.split('(')[0] if '(' in expr else expr.split()[1])

    def bindings(b):
        return {k: (v if isinstance(v, int) else py_value(v[0], v[1])) for k, v in b.items()}
    fresh = [call(xselect, expr, ver, root=None, item=1, variables=bindings(b)) for b in sets]

    def reused():
        tok = PARSERS[ver]().parse(expr)
        return [call(tok.evaluate, XPathContext(root=None, item=1, variables=bindings(b))) for b in sets]
    o = call(reused)
    out.nontrivial = any(f[0] == 'ok' for f in fresh)
    out.obs = '%s [%s] x %d bindings' % (expr, ver, len(sets))
    if o[0] != 'ok':
        if o[0] == 'err' and all(f[0] == 'err' and f[1] == o[1] for f in fresh):
            return
        out.fail('C06/reused-expression/raised', {'expr': expr, 'version': ver, 'got': list(o)})
        return
    for k, (a, b) in enumerate(zip(fresh, o[1])):
        out.dim('reuse_evaluations', 'first' if k == 0 else 'later')
        if not same_outcome(a, b):
            out.fail('C06/reused-expression/differs-from-fresh-parse/%s' % out.dims[0][1],
                     {'expr': expr, 'version': ver, 'bindings': sets, 'evaluation': k, 'fresh': short(a), 'reused': short(b)})
            return


def g_reuse_case(r):
    ver = r.choice(['2.0', '3.0', '3.1', '3.1'])
    x = r.random()
    if x < 0.45:
        fn = r.choice(['round', 'round-half-to-even'])
        p = r.choice([0, 1, 2, 2, -1, -2, 3])
        expr = '%s($a, $p)' % fn if (fn != 'round' or ver != '2.0') else 'round($a)'
        # short values first, then values whose digits exceed the default decimal precision
        big = '%d.%s' % (r.randint(10 ** 29, 10 ** 30), r.choice(['125', '5', '375', '45']))
        sets = [{'a': rand_operand(r), 'p': p}, {'a': ['decimal', r.choice(['2.125', '0.5', '-2.5', '1.005'])], 'p': p},
                {'a': ['decimal', big], 'p': p}, {'a': ['integer', str(r.randint(10 ** 29, 10 ** 31))], 'p': -abs(p) - 1},
                {'a': rand_operand(r), 'p': p}]
        r.shuffle(sets)
        if '$p' not in expr:
            sets = [{'a': b['a']} for b in sets]
    elif x < 0.7:
        fn = r.choice(['abs', 'floor', 'ceiling', 'round', '-', '+'])
        expr = '%s($a)' % fn
        sets = [{'a': rand_operand(r)} for _ in range(4)]
    else:
        op = r.choice(BINOPS)
        expr = '$a %s $b' % op
        sets = [{'a': rand_operand(r), 'b': rand_operand(r)} for _ in range(4)]
    return {'v': ver, 'expr': expr, 'sets': sets}


def check_case(kind, case):
    out = Outcome()
    if kind == 'reuse':
        check_reuse(case, out)
        return out
    if kind == 'binop':
        check_binop(case, out)
    elif kind == 'unary':
        check_unary(case, out)
    elif kind == 'law':
        check_law(case, out)
    else:
        raise ValueError(kind)
    return out


# ------------------------------------------------------------------ shrinking
SIMPLE = {'integer': ['1', '2', '-1', '3', '-3'], 'decimal': ['1.0', '0.5', '-0.5', '1.5'],
          'float': ['1', '0.5', '-1', '0'], 'double': ['1', '0.5', '-1', '0']}


def shrink(kind, case):
    if kind == 'reuse':
        sets = case['sets']
        for i in range(len(sets)):
            if len(sets) > 2:
                yield dict(case, sets=sets[:i] + sets[i + 1:])
        return
    if case.get('fp') in ('var', 'ctor'):
        yield dict(case, fp='lit')
    for f in ('fa', 'fb'):
        if case.get(f) not in (None, 'lit', 'attr') and case['v'] != '1.0':
            alt = 'lit' if 'lit' in allowed_forms(case['v'], case[f[1]][0], case[f[1]][1]) else 'ctor'
            if alt != case[f]:
                yield dict(case, **{f: alt})
    if case['v'] in ('3.0',):
        yield dict(case, v='3.1')
    for k in ('a', 'b'):
        if k in case:
            t, lex = case[k]
            for s in SIMPLE[t]:
                if len(s) < len(lex) and (case['v'] != '1.0'):
                    yield dict(case, **{k: [t, s]})


# ------------------------------------------------------------------ workload
def pick_form(r, ver, t, lex, allow_attr=True):
    forms = allowed_forms(ver, t, lex)
    if not allow_attr or r.random() < 0.8:
        forms = [f for f in forms if f != 'attr'] or forms
    return r.choice(forms)


def pick_version(r):
    x = r.random()
    return '2.0' if x < 0.45 else '3.1' if x < 0.9 else '3.0'


def rand_operand(r):
    t = r.choice(M.TYPES)
    x = r.random()
    if t == 'integer':
        if x < 0.6:
            v = r.randint(-40, 40)
        elif x < 0.9:
            v = r.randint(-10 ** 6, 10 ** 6)
        else:
            v = r.randint(-10 ** 20, 10 ** 20)
        return [t, str(v)]
    if t == 'decimal':
        digits = r.choice([1, 1, 2, 3, 6])
        n = r.randint(-4000, 4000) if x < 0.8 else r.randint(-10 ** 12, 10 ** 12)
        s = '%s%d.%0*d' % ('-' if n < 0 else '', abs(n) // 10 ** digits, digits, abs(n) % 10 ** digits)
        return [t, s]
    if t == 'float':
        # binary32-exact values k / 2**j
        k = r.randint(-2000, 2000) if x < 0.8 else r.randint(-2 ** 24, 2 ** 24)
        j = r.choice([0, 1, 2, 3, 4])
        return [t, M.text(Num('double', k / 2 ** j)) if k else '0']
    if x < 0.5:
        k = r.randint(-2000, 2000)
        return [t, M.text(Num('double', k / 2 ** r.choice([0, 1, 2, 3])))]
    if x < 0.8:
        return [t, repr(round(r.uniform(-100, 100), r.choice([1, 2, 3])))]
    return [t, repr(r.uniform(-1, 1) * 10.0 ** r.randint(-20, 20))]


def g_unary_case(r, ver, t, lex, fn, p=None):
    case = {'v': ver, 'fn': fn, 'a': [t, lex], 'fa': pick_form(r, ver, t, lex)}
    if p is not None:
        case['p'] = p
        case['fp'] = r.choice(['lit', 'lit', 'var', 'ctor']) if ver != '1.0' else 'lit'
    return case


def run(h):
    r = h.rng
    pools = {t: [[t, x] for x in CORE[t]] for t in M.TYPES}
    core = [v for t in M.TYPES for v in pools[t]]
    ext = [[t, x] for t in M.TYPES for x in EXT[t]]
    allv = core + ext

    def binop(a, b, op, ver=None):
        ver = ver or pick_version(r)
        h.case('binop', {'v': ver, 'op': op, 'a': a, 'b': b,
                         'fa': pick_form(r, ver, a[0], a[1]), 'fb': pick_form(r, ver, b[0], b[1])})

    # 1. full cross product of the core pools x operators (forms / version drawn per cell)
    for a in core:
        for b in core:
            for op in BINOPS:
                binop(a, b, op)
    # 2. extended pool: every extended value against a sample of all values, both positions
    for a in ext:
        for b in r.sample(allv, h.n(10)):
            for op in BINOPS:
                if r.random() < 0.5:
                    binop(a, b, op)
                else:
                    binop(b, a, op)
    # 3. random pairs
    for _ in range(h.n(6000)):
        binop(rand_operand(r), rand_operand(r), r.choice(BINOPS))
    # 4. untyped operands (attribute content) against every type
    dbl = [v for v in allv if v[0] == 'double']
    for _ in range(h.n(2500)):
        a, b = r.choice(dbl), r.choice(allv)
        ver = pick_version(r)
        fb = pick_form(r, ver, b[0], b[1])
        case = {'v': ver, 'op': r.choice(BINOPS), 'a': a, 'b': b, 'fa': 'attr', 'fb': fb}
        if r.random() < 0.5:
            case.update(a=b, b=a, fa=fb, fb='attr')
        h.case('binop', case)
    # 5. unary operators and rounding functions
    for v in allv:
        t, lex = v
        for fn in FUNCS:
            for ver in ('2.0', '3.1'):
                if fn in ('neg', 'pos', 'abs', 'floor', 'ceiling'):
                    h.case('unary', g_unary_case(r, ver, t, lex, fn))
                    continue
                plist = [None, 0, 1, 2, 3, -1, -2, -3] if (fn == 'rhe' or ver != '2.0') else [None]
                for p in plist:
                    h.case('unary', g_unary_case(r, ver, t, lex, fn, p))
                if len(plist) > 1 and r.random() < 0.5:
                    h.case('unary', g_unary_case(r, ver, t, lex, fn, r.choice(BIG_PRECISIONS)))
    for _ in range(h.n(4000)):
        t, lex = rand_operand(r)
        fn = r.choice(FUNCS)
        ver = pick_version(r)
        p = None
        if fn == 'rhe' or (fn == 'round' and ver != '2.0'):
            p = r.choice(PRECISIONS)
        h.case('unary', g_unary_case(r, ver, t, lex, fn, p))
    for v in dbl:
        for fn in FUNCS:
            h.case('unary', {'v': pick_version(r), 'fn': fn, 'a': v, 'fa': 'attr'})
    # 6. XPath 1.0 (doubles only)
    v1 = [['double', x] for x in V1_POOL]
    for a in v1:
        for b in v1:
            for op in ('+', '-', '*', 'div', 'mod'):
                h.case('binop', {'v': '1.0', 'op': op, 'a': a, 'b': b,
                                 'fa': r.choice(allowed_forms('1.0', *a)), 'fb': r.choice(allowed_forms('1.0', *b))})
        for fn in ('neg', 'floor', 'ceiling', 'round'):
            for fa in allowed_forms('1.0', *a):
                h.case('unary', {'v': '1.0', 'fn': fn, 'a': a, 'fa': fa})
    # 6b. XPath 1.0 with both operands as literals (the library holds them as int / Decimal)
    v1lit = [['double', x] for x in ('0', '1', '-1', '2', '-2', '3', '-3', '6', '-6', '7', '-7', '0.5', '-0.5',
                                     '2.5', '-2.5', '0.1', '0.7')]
    for a in v1lit:
        for b in v1lit:
            for op in ('+', '-', '*', 'div', 'mod'):
                h.case('binop', {'v': '1.0', 'op': op, 'a': a, 'b': b, 'fa': 'lit', 'fb': 'lit'})
    # 6c. fixed anchor cases (rare corners that sampling might miss)
    for kind, case in ANCHORS:
        h.case(kind, case)
    # 7. the idiv/mod identity on exact types
    exact_vals = [v for v in allv if v[0] in ('integer', 'decimal') and len(v[1]) <= 12]
    for _ in range(h.n(3000)):
        if r.random() < 0.6:
            a, b = r.choice(exact_vals), r.choice(exact_vals)
        else:
            a, b = rand_operand(r), rand_operand(r)
            if a[0] not in ('integer', 'decimal') or b[0] not in ('integer', 'decimal') or \
                    len(a[1]) > 12 or len(b[1]) > 12:
                continue
        ver = pick_version(r)
        h.case('law', {'v': ver, 'a': a, 'b': b, 'fa': pick_form(r, ver, a[0], a[1], False),
                       'fb': pick_form(r, ver, b[0], b[1], False)})
    for _ in range(h.n(400)):
        h.case('reuse', g_reuse_case(r))


def floors(v):
    reasons = []
    if v.got('reuse_evaluations', 'later') < 500:
        reasons.append('fewer than 500 later evaluations of a reused expression')
    if v.got('comparisons', 'model-vs-engine') < 20000:
        reasons.append('fewer than 20000 model-vs-engine comparisons')
    for op in BINOPS:
        for t in M.TYPES:
            if v.got('operator_x_type', '%s:%s' % (op, t)) < 100:
                reasons.append('operator %s with promoted type %s seen fewer than 100 times' % (op, t))
    for name in ('unary-minus', 'unary-plus', 'abs', 'floor', 'ceiling', 'round', 'round@3', 'round-half-to-even'):
        if v.got('operator', name) < 100:
            reasons.append('%s seen fewer than 100 times' % name)
    for p in (-3, -2, -1, 0, 1, 2, 3):
        if v.got('precision', p) < 50:
            reasons.append('precision %d seen fewer than 50 times' % p)
    for f in ('lit', 'ctor', 'var', 'attr'):
        if sum(c for k, c in v.counters.get('form_pair', {}).items() if f in k.split(',')) < 200:
            reasons.append('operand form %s seen fewer than 200 times' % f)
    for ver in ('1.0', '2.0', '3.1'):
        if v.got('version', ver) < 1000:
            reasons.append('parser %s seen fewer than 1000 times' % ver)
    if v.got('law', 'holds') + v.got('law', 'broken') + v.got('law', 'broken:explained-by-idiv-or-mod-finding') < 300:
        reasons.append('idiv/mod identity evaluated fewer than 300 times')
    return reasons
